import subprocess, sys, re
WT = "/tmp/wt_b7"
MUTS = [
 ("M1 glob label always parent name", "src/spikeglx.py", 'if raw_ephys_apfile.parts[-2] != "raw_ephys_data":', 'if raw_ephys_apfile.parts[-2] != "raw_ephys_dat":'),
 ("M2 lf glob exact ext", "src/spikeglx.py", 'ephys_files[-1].lf = next(lf_file.parent.glob(lf_file.stem + f".*{ext}"), None)', 'ephys_files[-1].lf = next(lf_file.parent.glob(lf_file.stem + f".{ext}"), None)'),
 ("M3 skip missing ap regardless of bin_exists", "src/spikeglx.py", 'if not raw_ephys_apfile and bin_exists:', 'if not raw_ephys_apfile:'),
 ("M4 nidq rglob -> glob", "src/spikeglx.py", 'Path(session_path).rglob(f"{recurse}*.nidq*{suffix}")', 'Path(session_path).glob(f"{recurse}*.nidq*{suffix}")'),
 ("M5 analog +15", "src/spikeglx.py", 'int(pin[2:]) + 16 for pin in analog', 'int(pin[2:]) + 15 for pin in analog'),
 ("M6 pinout 3A pin06", "src/neuropixel.py", '"pin06": 4,', '"pin06": 5,'),
 ("M7 recon count check <", "src/neuropixel.py", 'if len(folders) != len(expected_shanks):', 'if len(folders) < len(expected_shanks):'),
 ("M8 recon meta kept on mismatch", "src/neuropixel.py", 'if meta_info["fileSizeBytes"] == self.save_file.stat().st_size:', 'if meta_info["fileSizeBytes"] >= self.save_file.stat().st_size:'),
 ("M9 close resets _raw", "src/spikeglx.py", 'getattr(self._raw, "_mmap", self._raw).close()', 'getattr(self._raw, "_mmap", self._raw).close()\r\n            self._raw = None'),
 ("M10 enter always opens", "src/spikeglx.py", '        if not self.is_open:\r\n            self.open()\r\n        return self', '        self.open()\r\n        return self'),
 ("M11 version any->all", "src/spikeglx.py", 'if any([ef.get("nidq") for ef in ephys_files]):', 'if ephys_files and all([ef.get("nidq") for ef in ephys_files]):'),
 ("M12 recon keeps bin after compress", "src/neuropixel.py", '        self.save_file.unlink()\n        self.save_file = cbin_file', '        self.save_file = cbin_file'),
 ("M13 3A ground pins kept", "src/spikeglx.py", 'if pin_out[pin] is not None', 'if pin_out[pin] is not None or True'),
 ("M14 path = grandparent for nidq", "src/spikeglx.py", '"path": raw_ephys_file.parent,', '"path": raw_ephys_file.parent.parent,'),
]
sel = sys.argv[1:]
for name, f, a, b in MUTS:
    if sel and name.split()[0] not in sel:
        continue
    p = f"{WT}/{f}"
    src = open(p, newline="").read()
    if a not in src:
        a2 = a.replace("\r\n", "\n"); b2 = b.replace("\r\n", "\n")
        if a2 not in src:
            print(name, "PATTERN NOT FOUND"); continue
        a, b = a2, b2
    open(p, "w", newline="").write(src.replace(a, b, 1))
    try:
        r = subprocess.run(["./check", "X01", "--tier", "quick"], cwd="/verif", env={**__import__("os").environ, "VERIF_REPO": WT}, capture_output=True, text=True)
        out = r.stdout + r.stderr
        v = [l[:230] for l in out.splitlines() if l.startswith("VIOLATION") or l.startswith("MACHINERY")]
        print(f"{name}: rc={r.returncode} nviol={len(v)}", *(v[:2]), sep="\n    ", flush=True)
        if r.returncode == 2: print(out[-1500:])
    finally:
        subprocess.run(["git", "-C", WT, "checkout", "--", "."])
