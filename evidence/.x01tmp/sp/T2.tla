---- MODULE T2 ----
EXTENDS MC_Session
InitA == s \in MCGlobCases
InitB == s \in {[c |-> c, pc |-> "ap"] : c \in MCGlobCases}
InitC == \E c \in MCGlobCases : s = [c |-> c, pc |-> "ap", todo |-> ApDrivers(c.t, c.o), out |-> {}]
NextX == UNCHANGED s
====
