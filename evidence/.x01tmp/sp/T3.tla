---- MODULE T3 ----
EXTENDS MC_Session
GSeq == SetToSeq(MCGlobCases)
InitD == s \in {[i |-> i, pc |-> "ap", todo |-> ApDrivers(GSeq[i].t, GSeq[i].o), out |-> {}] : i \in 1..Len(GSeq)}
NextX == UNCHANGED s
====
