---- MODULE T1 ----
EXTENDS MC_Session
ASSUME PrintT(<<"card", Cardinality(MCGlobCases)>>)
====
