INIT InitA
NEXT NextX
CONSTANTS
  Part = "glob"
  Box = "quick"
  GlobCases = {}
  SyncCases = {}
  ReconCases = {}
  ReaderKinds = {}
  MaxLen = 0
CHECK_DEADLOCK FALSE
