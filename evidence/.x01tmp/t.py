import sys, time
sys.path.insert(0, "/verif/harness")
from vkit import tlc
cfg = sys.argv[1]
r = tlc.run("mc/MC_Session.tla", "mc/" + cfg, workers=4, timeout=900, env={"OUT_FILE": sys.argv[2]}, coverage=len(sys.argv) > 3)
print(r.ok, r.generated, r.distinct, r.invariant_violated, round(r.wall, 1))
if not r.ok or len(sys.argv) > 3: print(r.out[-3500:])
