import sys, time
sys.path.insert(0, 'harness')
from vkit import tlc
for c in ['thorough', 'mid', 'wide']:
    try:
        r = tlc.run('mc/MC_DestripeFile.tla', 'mc/DestripeFile_%s.cfg' % c, workers=16, timeout=3000, heap='16g')
        print(c, r.ok, r.generated, r.distinct, r.depth, round(r.wall, 1), flush=True)
    except Exception as e:
        print(c, 'ERR', str(e)[:200], flush=True)
