#!/bin/sh
# tools/seedtest.sh <seed dir with patch.diff + demo.py> <CHECK ID> [tier]
# confirms the demo (passes on HEAD, fails with the patch) and runs the check against the patched scratch worktree
set -u
SD="$1"; ID="$2"; TIER="${3:-quick}"
WT=/tmp/wt_seedtest_$$
git -C /repo worktree add --detach "$WT" HEAD >/dev/null 2>&1 || exit 3
cd "$WT"
echo "== demo on clean tree"; PYTHONPATH="$WT/src" timeout 1500 /venv/bin/python "$SD/demo.py" "$WT" >/tmp/seed_demo_clean_$$.log 2>&1; echo "exit $?"
git apply "$SD/patch.diff" || { echo "PATCH DOES NOT APPLY"; git -C /repo worktree remove --force "$WT"; exit 4; }
echo "== demo on patched tree"; PYTHONPATH="$WT/src" timeout 1500 /venv/bin/python "$SD/demo.py" "$WT" >/tmp/seed_demo_patched_$$.log 2>&1; echo "exit $?"; tail -3 /tmp/seed_demo_patched_$$.log | cut -c1-300
echo "== check $ID ($TIER) on patched tree"
cd /verif && VERIF_REPO="$WT" ./check "$ID" --tier "$TIER" 2>&1 | grep -E "VIOLATION|KNOWN-FINDING|SPEC-DRIFT|MACHINERY|^\[$ID\] tier" | cut -c1-400 | (grep -v SPEC-DRIFT || true) | head -8
git -C /repo worktree remove --force "$WT"
rm -f /tmp/seed_demo_clean_$$.log /tmp/seed_demo_patched_$$.log
