#!/bin/sh
# tools/seed_sweep.sh "<ids>" <first seed> <last seed> [tier] : runs the checks under many seeds (false-alarm hunt)
IDS="$1"; A="$2"; B="$3"; TIER="${4:-quick}"
cd /verif
s=$A
while [ $s -le $B ]; do
  for id in $IDS; do
    out=$(VERIF_SEED=$s ./check $id --tier $TIER 2>&1); rc=$?
    echo "seed=$s rc=$rc $(echo "$out" | tail -1)"
    [ $rc -ne 0 ] && echo "$out" | grep -E "VIOLATION|MACHINERY" | head -4 | cut -c1-400
  done
  s=$((s+1))
done
