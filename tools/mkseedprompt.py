#!/usr/bin/env python3
"""tools/mkseedprompt.py <ID> <tag> -> writes tools/seed_prompts/<ID>_<tag>.txt and /tmp/seedprompts/<ID>_<tag>.txt
The prompt carries only the property text (properties.jsonl) and the list of changes already stored for that property (DESIGN.md
section 10, first column), so that a new agent looks somewhere else."""
import json
import re
import sys
from pathlib import Path

V = Path(__file__).resolve().parents[1]
pid, tag = sys.argv[1], sys.argv[2]
wt = f"/tmp/seed_{pid.lower()}_{tag}"
prop = next(json.loads(l) for l in (V / "properties.jsonl").read_text().splitlines() if l.strip() and json.loads(l)["id"] == pid)
tmpl = (V / "tools/seed_prompts/C20_c.txt").read_text()
tmpl = tmpl.replace("/tmp/seed_c20_c", wt)
i = tmpl.index("  Title:")
j = tmpl.index("Your task:")
mech = "; ".join(f"{m['name']} ({m['where']})" for m in prop["anchors"]["mechanism"])
text = (f"  Title: {prop['title']}\n  Statement: {prop['statement']}\n  Must hold over: {prop['quantifier']['text']}\n"
        f"  Where it lives: files {', '.join(prop['anchors']['files'])}; mechanisms: {mech}\n\n")
tmpl = tmpl[:i] + text + tmpl[j:]
k = tmpl.index("To diversify:")
used = []
for line in (V / "DESIGN.md").read_text().splitlines():
    m = re.match(r"\| (C\d\d_\w) \| (.*?) \| (.*?) \|", line)
    if m and m.group(1).startswith(pid + "_"):
        used.append(f"{m.group(2)} [{m.group(3)}]")
div = ("To diversify: other people already produced the following changes for this property; do NOT repeat them or close variants, look at "
       "other functions / other clauses of the statement / other parts of the quantifier:\n" + "\n".join(f"  - {u}" for u in used) + "\n")
tmpl = tmpl[:k] + div
for d in (V / "tools/seed_prompts", Path("/tmp/seedprompts")):
    d.mkdir(parents=True, exist_ok=True)
    (d / f"{pid}_{tag}.txt").write_text(tmpl)
print(f"/tmp/seedprompts/{pid}_{tag}.txt")
