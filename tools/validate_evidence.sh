#!/bin/sh
# validates every evidence file against the schema (tooling venv has jsonschema)
python3-vt - <<'PY'
import json, glob, jsonschema
sch = json.load(open('/root/.vp/EVIDENCE.schema.json'))
for f in sorted(glob.glob('/verif/evidence/*.json')):
    try:
        jsonschema.validate(json.load(open(f)), sch); print('ok', f)
    except Exception as e:
        print('BAD', f, str(e)[:120].replace('\n', ' '))
PY
