#!/bin/sh
# tools/benigntest.sh <worktree with a behaviour-preserving change applied> "<check ids>" [tier]
# every check must stay quiet (exit 0, no VIOLATION); SPEC-DRIFT lines are allowed and shown as a count
WT="$1"; IDS="$2"; TIER="${3:-quick}"
cd /verif
for id in $IDS; do
  out=$(VERIF_REPO="$WT" ./check "$id" --tier "$TIER" 2>&1); rc=$?
  nd=$(printf '%s\n' "$out" | grep -c "^SPEC-DRIFT")
  echo "benign $(basename $WT) $id rc=$rc drift=$nd $(printf '%s\n' "$out" | grep -E "^\[$id\] tier" | cut -c1-120)"
  [ $rc -ne 0 ] && printf '%s\n' "$out" | grep -E "VIOLATION|MACHINERY|Error|Traceback" | head -5 | cut -c1-400
done
