#!/bin/sh
# tools/run_all.sh <tier> <seed> [ids...] : runs every registered check once, prints one line per check
TIER="${1:-quick}"; SEED="${2:-0}"; shift 2 2>/dev/null
IDS="$@"
[ -z "$IDS" ] && IDS=$(/venv/bin/python -c "import json; print(' '.join(c['property_id'] for c in json.load(open('/verif/MANIFEST.json'))['checks']))")
cd /verif
for id in $IDS; do
  out=$(VERIF_SEED=$SEED ./check $id --tier $TIER 2>&1)
  rc=$?
  echo "rc=$rc $(echo "$out" | tail -1)"
  [ $rc -ne 0 ] && echo "$out" | grep -E "VIOLATION|MACHINERY|KNOWN" | head -5 | cut -c1-300
done
