#!/usr/bin/env python3
"""tools/store_seed.py <worktree>/_seed <ID>_<tag> "<change>" "<needs>" "<detected_by>" ["<history>"]
copies a confirmed seeded change into seeded/<ID>_<tag>/ with meta.json and appends its row to the table of DESIGN.md section 10"""
import json
import shutil
import sys
from pathlib import Path

V = Path(__file__).resolve().parents[1]
src, name, change, needs, det = sys.argv[1:6]
hist = sys.argv[6] if len(sys.argv) > 6 else "caught by the check as it stood"
pid = name.split("_")[0]
d = V / "seeded" / name
d.mkdir(parents=True, exist_ok=True)
for f in ("patch.diff", "demo.py", "notes.txt"):
    if (Path(src) / f).exists():
        shutil.copy(Path(src) / f, d / f)
(d / "meta.json").write_text(json.dumps({
    "property": pid, "breaks": "see notes.txt", "needs_to_manifest": needs,
    "confirmed": "tools/seedtest.sh <dir> <ID>: demo.py exits 0 on /repo HEAD and 1 with patch.diff applied (scratch worktree); "
                 "the existing unit tests were run before/after by the seeding agent (see notes.txt)",
    "detected_by": det, "history": hist, "how_to_run": f"tools/seedtest.sh /verif/seeded/{name} {pid}"}, indent=1))
p = V / "DESIGN.md"
s = p.read_text()
mark = "(Further rounds are appended to this table as they are confirmed.)"
i = s.index(mark)
caught = "caught" if hist.startswith("caught") else hist
row = f"| {name} | {change} | {needs} | {det} | {caught} |\n"
# the table ends right before the marker (possibly separated by a blank line)
j = s.rstrip("\n").rfind("\n", 0, i - 1)
head = s[:i].rstrip("\n")
if not head.splitlines()[-1].startswith("|"):      # a round summary closed the table: open it again
    head += "\n\n| seed | change | needs to manifest | caught by | first version |\n|---|---|---|---|---|"
s = head + "\n" + row + "\n" + s[i:]
p.write_text(s)
print("stored", name)
