#!/usr/bin/env python3
"""tools/mkbenignprompt.py <ID> <tag> -> /tmp/seedprompts/<ID>_benign_<tag>.txt (+ copy under tools/seed_prompts/)
A *property-preserving* change: the checks must stay quiet on it (no VIOLATION, exit 0)."""
import json
import sys
from pathlib import Path

V = Path(__file__).resolve().parents[1]
pid, tag = sys.argv[1], sys.argv[2]
wt = f"/tmp/benign_{pid.lower()}_{tag}"
prop = next(json.loads(l) for l in (V / "properties.jsonl").read_text().splitlines() if l.strip() and json.loads(l)["id"] == pid)
mech = "; ".join(f"{m['name']} ({m['where']})" for m in prop["anchors"]["mechanism"])
txt = f"""You are helping to test a verification suite for *false alarms*. Produce a realistic, behaviour-preserving change (a refactoring a maintainer could commit) to a Python library. Work ONLY inside the scratch git worktree {wt} (a checkout of the library int-brain-lab/ibl-neuropixel; sources under {wt}/src). Do not read or write anything under /verif, and do not modify /repo.

Setup (run first): `git -C /repo worktree add --detach {wt} HEAD`

IMPORTANT for running code: the Python environment has an editable install pointing at /repo/src, so you MUST put your worktree first on the path, otherwise you test the wrong tree: always run with `cd {wt} && PYTHONPATH={wt}/src /venv/bin/python ...` (e.g. `PYTHONPATH={wt}/src /venv/bin/python -m pytest -q -p no:cacheprovider src/tests/unit/test_xxx.py`). Check with `python -c "import spikeglx; print(spikeglx.__file__)"` that the module comes from your worktree. Note {wt}/src/spikeglx.py has CRLF line endings: edit it with a tool that preserves them. pyfftw and scipy.signal.ricker are not installed, so a few existing tests fail or error regardless (that is the baseline; ignore those). Several unit tests use fixed directories under /tmp (e.g. /tmp/rawdata) and can fail spuriously when other people run the suite at the same time: run with a private TMPDIR or re-run a failing test in isolation before concluding anything.

A property of the library that users rely on:

  Title: {prop['title']}
  Statement: {prop['statement']}
  Must hold over: {prop['quantifier']['text']}
  Where it lives: files {', '.join(prop['anchors']['files'])}; mechanisms: {mech}

Your task: change the code that implements this property in a way that a maintainer could plausibly commit and that KEEPS the property true for every input in its quantifier, and keeps every public function's documented behaviour, return values, file outputs (names and bytes) and raised exception types the same. The change should nevertheless be a real change of the implementation, of moderate size (10-60 changed lines, possibly across two functions), of the kinds below - use three or four of them in the one patch:
  - restructure control flow (loop <-> vectorised form, early return, merged / split branches, a helper function extracted or inlined),
  - rename private helpers, local variables, nested functions or private attributes (names starting with an underscore or local to a function; public names and signatures stay),
  - reorder independent statements / independent file operations whose order no caller can observe after the call returns,
  - equivalent arithmetic (e.g. `int(np.ceil(a / b))` -> `-(-a // b)` where exact, a different but equivalent index computation, different dtype of an intermediate that cannot change the result),
  - change log messages, comments, docstrings, warnings text, progress bars,
  - change internal defaults that do not affect results (buffer sizes, how many rows are processed per internal iteration) ONLY if the output stays byte-identical.
Do not touch the tests. Do not change public signatures. Do NOT introduce a bug: if in doubt that something is equivalent, do not do it.

Then convince yourself that behaviour is unchanged: run the repository's unit tests for the touched files before and after, and write a small script `equiv.py` that exercises the touched functions on a few dozen varied inputs (including corner cases from the quantifier above) on both trees and compares outputs exactly (it may import the unmodified library from /repo/src in a subprocess and yours from {wt}/src in another, pickling results to a temp dir; clean up).

Deliver, in the directory {wt}/_seed/ :
  - patch.diff : `git -C {wt} diff` of your change (source only)
  - equiv.py   : the comparison script described above (exit 0 when both trees agree)
  - notes.txt  : what you changed, why each part is behaviour-preserving, which tests you ran before/after and their results.
Leave the worktree WITH the change applied (do NOT use git stash: the stash is shared between all worktrees of /repo). Your final message: the file paths and a 5-line summary. Do not remove the worktree.
"""
for d in (V / "tools/seed_prompts", Path("/tmp/seedprompts")):
    d.mkdir(parents=True, exist_ok=True)
    (d / f"{pid}_benign_{tag}.txt").write_text(txt)
print(f"/tmp/seedprompts/{pid}_benign_{tag}.txt")
