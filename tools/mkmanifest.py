#!/venv/bin/python
"""Regenerates /verif/MANIFEST.json from the table below (one source of truth)."""
import json
from pathlib import Path

VERIF = Path(__file__).resolve().parents[1]
BASE = ("cd /repo && env -u IBL_NEUROPIXEL_VERIF /venv/bin/python -m pytest -ra -q -p no:cacheprovider --timeout=900 "
        "--continue-on-collection-errors")

CHECKS = {
    "C17": dict(
        category="model_checking",
        text=("TLC checks spec/lib/Windows.tla (implementation layer = transcription of WindowGenerator, property layer = "
              "cover/overlap/count/centre/valid-partition/splice) exhaustively for every (length, window, overlap) of a box "
              "(quick 120x24, thorough 400x64); the real WindowGenerator is then executed for thousands of triples and every "
              "execution is validated as a trace by spec/trace/WindowsTrace.tla with the property layer evaluated on each "
              "observed window. A violation is reported only when a property-layer clause is false on observed values."),
        design_ref="DESIGN.md §4 C17",
        note=("Trusted: TLC, the projection in harness/c17.py (run-length coding of the splice amplitudes against the Hann "
              "ramp), the Hann identity w[i]+w[ov-1-i]=1 which the code asserts itself. Exhaustive only inside the box; "
              "large triples are sampled."),
        technique="TLA+ model checked with TLC + trace validation of the real WindowGenerator against the spec",
    ),
    "C06": dict(
        category="model_checking",
        text=("TLC explores every interleaving of 1..8 worker processes of spec/sys/DestripeFile.tla (start batch, seek, "
              "per-batch kept range, rms row, padding, append offset) over boxes of (length, batch size, workers) and checks that "
              "each output position only ever receives its canonical batch, final length, rms rows, pad. The real "
              "decompress_destripe_cbin then runs (loky workers, guarded hooks) on real-magnitude tuples that TLC classified by "
              "seam position / hazard; TLC explores ALL interleavings of each run's recorded per-worker writes and judges every "
              "terminal state with the same property layer plus projections of the real output (sync column bit-exact = sample "
              "counter, file length, rms rows, saturation entries, data within 1 LSB of batch-wise in-memory destriping); output "
              "bytes are compared across worker counts. Half of the real runs start with longer leftovers of an earlier run under "
              "every output name (a non-append call starts from scratch)."),
        design_ref="DESIGN.md §4 C06",
        note=("Trusted: TLC; the hooks in voltage.my_function (values read from live objects); /verif/vendor/pyfftw stand-in "
              "(scipy.fft) replacing the absent pyfftw; batch function deterministic. Exhaustive interleavings only inside the "
              "boxes (T=2 abstract taper) and for the recorded runs; the 1-LSB comparison is a numeric projection."),
        technique="TLA+ model of the worker/batch/file protocol checked with TLC + all-interleavings trace validation of hook-recorded real runs",
    ),
    "C02": dict(
        category="model_checking",
        text=("TLC checks spec/sys/Compress.tla: compress_file / decompress_file / decompress_to_scratch as sequences of file "
              "operations over an abstract directory, for every pre-existing directory (stale pairs, leftovers, scratch copies), "
              "keep_original, and a failure after every step: no final-named .cbin / scratch .bin is ever partial, a source "
              "disappears only when its replacement is complete, a failed call leaves the source untouched, completed calls "
              "deliver, a re-compression failing at a chunk leaves an already published compressed pair complete, every entry path "
              "resolves to the recording. The real calls are then executed on real files with every "
              "file operation of spikeglx/mtscomp instrumented from the harness and a fault injected at each operation in turn; "
              "each observed directory sequence is validated as a trace (every step must be the spec's action for that "
              "operation; property layer evaluated on every observed directory). spec/sys/CbinSlice.tla enumerates every slice "
              "position relative to chunk boundaries; replayed as Reader(cbin)[sel] == Reader(bin)[sel] == NumPy rows."),
        design_ref="DESIGN.md §4 C02",
        note=("Trusted: TLC; the projection (a file is complete iff byte-identical to a reference image; compression is "
              "deterministic for fixed parameters); wrappers around builtins.open (inside mtscomp), Path.rename/unlink, "
              "shutil.move/copy; failures are exceptions at operation boundaries (no torn writes / power loss); mtscomp forced "
              "to one thread during instrumented calls."),
        technique="TLA+ file-operation state machine checked with TLC + fault-injected trace validation of the real calls",
    ),
    "C03": dict(
        category="model_checking",
        text=("TLC checks spec/sys/NP2Split.tla (extends the Windows spec of C17 with the kept-range computation of _ind2save for "
              "the AP and LF streams) for every (length, window) of a box with RATIO 3 / overlap 12 and for sampled lengths with the "
              "real constants 12 / 576: the AP stream of a shank is the identity token sequence, complete at the end; and "
              "spec/lib/ShankCols.tla for every assignment of channels to shanks: the run-length channel list parses back and the "
              "scatter of the reconstructor reassembles the identity frame. Real NP2Converter + NP2Reconstructor runs (8- and "
              "384-channel recordings, five shank-map kinds, all four NP2 gain settings, lengths not aligned with the window, all "
              "65536 values present, sync = sample counter) are recorded (wrapped _ind2save) and validated as traces by "
              "spec/trace/NP2SplitTrace.tla together with byte comparisons of every shank file, the reconstructed binary and the "
              "reconstructed metadata; every shank map of the model is replayed on the real format/parse functions."),
        design_ref="DESIGN.md §4 C03",
        note=("Trusted: TLC; harness/np2common.py (synthesised recordings via metagen, token = sync counter); byte comparison as "
              "projection. The float32 volts->int16 round trip is checked exhaustively on the real code (all 65536 values x 4 gain "
              "settings), not derived in TLA+."),
        technique="TLA+ token model of the window/kept-range/column bookkeeping checked with TLC + trace validation of real converter runs",
    ),
    "C12": dict(
        category="model_checking",
        text=("Same specification as C03 (spec/sys/NP2Split.tla): TLC checks that the LF stream is the token sequence 0, R, 2R, ... "
              "of length ceil(n/R) whatever the window size and that no LF sample is taken from a tapered window margin. Real "
              "NP2Converter runs (NP2.4 and NP2.1 layouts, broadband data, lengths not multiples of 12 or of the window, windows "
              "1200..60000) are validated as traces (LF tokens read off the LF sync column) with projections of the LF files: row "
              "count, sync = every 12th AP sync word, metadata opens at 2500 Hz with a matching shape, and two numeric "
              "projections: window-size independence and interior vs whole-trace low-pass+decimation, both <= 1 LSB."),
        design_ref="DESIGN.md §4 C12",
        note=("Trusted: TLC; harness projections. The two '<= 1 LSB' clauses are measured on the real output (IIR filter not "
              "modelled); tolerance is the property's own 1 LSB (+1e-6)."),
        technique="TLA+ token model of decimation/kept ranges checked with TLC + trace validation of real converter runs; numeric clauses by projection",
    ),
    "C04": dict(
        category="model_checking",
        text=("TLC checks spec/sys/NP2Convert.tla: histories of up to 3 process() runs (a fresh converter per run, or the same object "
              "called again) x the option vectors {overwrite, post_check, compress, delete_original, partial conversion via "
              "init_params(nsamples)} x probe kind {NP2.4, NP2.1, NP1, already split} x original "
              "form {bin, cbin} with an interruption enabled after every step (prepare, each window, close, metadata, verification "
              "before/after completion, each per-shank unlink/compress/unlink, delete): Recoverable in every state, the original "
              "disappears only after verification (NP2.4) / in-place compression (NP2.1), status 0 means nothing changed, a "
              "non-forced re-run over existing output returns 0, a forced re-run completes with a complete valid set from any "
              "reachable earlier state, foreign inputs return -1 / 0 untouched. Real NP2Converter histories (every option vector x "
              "every interruption point for single runs; two/three-run histories) are executed with the steps instrumented from "
              "the harness; the projected directory tree before every step (bytes / decompressed content of every file) is "
              "validated as a trace: each step must be the spec's action for its label, the property layer is evaluated on every "
              "observed directory, step and run outcome."),
        design_ref="DESIGN.md §4 C04",
        note=("Trusted: TLC; the projection of the directory tree; wrappers on NP2Converter methods, Path.unlink, "
              "Reader.compress_file/close; interruptions are exceptions at step boundaries (no torn writes); one converter object "
              "per run; 2 shanks x 2 windows recordings (the protocol is independent of the sizes)."),
        technique="TLA+ run-history state machine with crash actions checked with TLC + interruption-injected trace validation of real converter histories",
    ),
    "C13": dict(
        category="model_checking",
        text=("TLC checks spec/sys/WaveformExtract.tla for every spike train of a box (times at both file edges, on chunk "
              "boundaries, duplicates across units) x max_wf x chunk size x every admissible per-unit selection (the spec does not "
              "depend on NumPy's generator) x every interleaving of the chunk jobs: each unit gets min(max_wf, #valid) distinct "
              "valid spikes, waveform_index is the (cluster, sample) rank, every traces row is written exactly once and holds the "
              "window of its own spike whatever the chunk size and schedule. Real extract_wfs_cbin calls (loky workers; guarded "
              "hook in write_wfs_chunk) on NP1/NP2 recordings with distinguishable samples are validated by "
              "spec/trace/WaveformTrace.tla: the table the code chose, every recorded job (rows, local coordinates, snippet "
              "bounds) and projections of the saved files (each traces row == source window on the ascending, NaN-padded "
              "neighbour channels; channel map; templates; loader); identical files are required across (chunk, n_jobs)."),
        design_ref="DESIGN.md §4 C13",
        note=("Trusted: TLC; harness/c13.py projections; the reader (C01) for the source traces; preprocess_steps=[] so that "
              "equality with the source is literal; trains sorted, no duplicate (sample, cluster)."),
        technique="TLA+ model of table/chunk-job/row bookkeeping checked with TLC + trace validation of hook-recorded real extractions",
    ),
    "C11": dict(
        category="model_checking",
        text=("TLC checks spec/sys/ReaderOpen.tla (a writer that may stop at every byte length; the open branches of Reader, "
              "OnlineReader and Reader on .cbin) against OpenSucceeds / Exposed (ns = bytes div frame) / WithinFile / Duration "
              "exhaustively over frame sizes {2,4,10,770} x <= 5 frames x announced counts; every exported case, 385-channel files "
              "with every trailing byte count 0..769, sparse files up to 1e9 frames, fractional sampling rates and .cbin/.ch "
              "mismatches are opened by the real code (spec -> code comparison with the exported expectation) and validated as "
              "traces by spec/trace/ReaderOpenTrace.tla, including reads at and past the end. Deferred opening is part of the model "
              "and of the real runs: Reader(open=False) constructed at one length of the file, the file grows / is truncated, then "
              "open(). The arithmetic (byte vs frame form of the size test, exposed = floor, no raise) is also discharged for "
              "unbounded frame sizes and lengths by Apalache (spec/apalache/ReaderOpenInd.tla)."),
        design_ref="DESIGN.md §4 C11",
        note=("Trusted: TLC; harness/c11.py; rl*fs projected to a frame count (1e-6 rel.); values compared as float32(raw)*s2v. A "
              ".cbin physically truncated inside a chunk and growth of the file after an OnlineReader was constructed are outside."),
        technique="TLA+ model of writer/open branches checked with TLC + replay of exported cases + trace validation of real opens",
    ),
    "C09": dict(
        category="model_checking",
        text=("TLC checks spec/lib/MetaGrammar.tla (classification rule of the reader and rendering rule of the writer over every "
              "value string up to length 6/7 of an abstract alphabet {0, nonzero digit, ',', '.', '=', '~', other} and small files: "
              "ValueRoundTrip, FileRoundTrip, WrittenInDomain) and spec/lib/MetaDerive.tla (decision tables for version, stream "
              "type, channel / sync counts, max-int, per-channel volts-per-bit as exact triples, against an independent "
              "channel-by-channel reading) over 4 k / 14 k configurations. Every exported string and configuration is replayed on "
              "the real read_meta_data / write_meta_data / Reader (metagen files), and full-size, fixture and random files are "
              "validated as traces (MetaGrammarTrace, MetaDeriveTrace)."),
        design_ref="DESIGN.md §4 C09",
        note=("Trusted: TLC; harness/c09.py + vkit/metagen.py; gains projected from floats (1e-5 rel., the code's float32 error is "
              "6e-8); the probe-type table and the NP2 gain of 80 are taken from the library's documentation; saved-channel subsets "
              "are prefixes of the IMRO table."),
        technique="TLA+ grammar/decision-table models checked with TLC + replay of exported cases + trace validation on real metadata files",
    ),
    "C07": dict(
        category="model_checking",
        text=("TLC checks spec/lib/Shift.tla: fshift followed on the impulse basis in the frequency domain as the code does it "
              "(phase ramps as integer numerators over n*D): integer shift = circular roll, zero shift = identity, successive "
              "shifts add on every bin, per-trace shift vectors reach the right trace along either axis of 2-D arrays, with the "
              "Nyquist-bin caveat for even n modelled; plus the parabolic-interpolation and correlation-centre facts. TLC-exported "
              "token maps are replayed on the real fshift (f32/f64) and thousands of real experiments (n 2..256, 509, 1024, 2048; "
              "both axes; full impulse basis and sub-Nyquist multi-sines; wave_shift_corrmax / shift_waveform on model waveforms) "
              "are validated by spec/trace/ShiftTrace.tla."),
        design_ref="DESIGN.md §4 C07",
        note=("Trusted: TLC; harness/c07.py. Residual sizes (1e-5 f32 / 1e-10 f64), the 0.05-sample estimate accuracy and the 5 % "
              "re-alignment residual are numeric projections on the real output."),
        technique="TLA+ phase-ramp model checked with TLC + replay of exported token maps + trace validation of real shifts",
    ),
    "C05": dict(
        category="model_checking",
        text=("TLC checks spec/lib/DestripePipeline.tla: (1) ADC ticks - the adc_shifts loop equals the wiring closed form for "
              "NP1/NP2/NPultra and realigning by the table gives every channel the same time label (not with the opposite sign or "
              "another generation's table); (2) data flow over all 4^6 label vectors - outside-brain channels are neither read nor "
              "written by the spatial filter; (3) the per-collection call tree of car / kfilt / fk over all groupings of 6-7 "
              "channels - one child per group carrying the caller's filter, gain-control and operator settings. The real "
              "car/kfilt/fk/agc/interpolate/fshift are wrapped, the recorded call trees and pipelines (4 generations x "
              "k-filter/CAR x AP/LFP x label classes) are validated by spec/trace/DestripeTrace.tla; the stripe is sampled at the "
              "spec's wiring ticks."),
        design_ref="DESIGN.md §4 C05",
        note=("Trusted: TLC; harness/c05.py. The 40 dB / 90 % / zero-reference / AGC-product / group-equals-alone figures are "
              "numeric projections on the real output with the property's own thresholds."),
        technique="TLA+ ADC-tick, data-flow and call-tree models checked with TLC + trace validation of wrapped real calls; dB figures by projection",
    ),
    "C19": dict(
        category="exploration",
        text=("The estimator (cross-correlation, nearest-neighbour assignment, least squares) is numeric and is not modelled. "
              "spec/lib/ClockSync.tla contributes the ground-truth bookkeeping (index maps after deletions, TruePairs as a monotone "
              "injective matching, checked by TLC for all deletion patterns N <= 8/9), the enumeration of the loss patterns that "
              "the harness maps onto long event trains (30..300 events, drift +-100 ppm, offsets, jitter, both modes), and a model "
              "of the binning arithmetic of the coarse correlation (every event has a bin, all spans 1..30000 ms). Every real "
              "sync_timestamps call is validated by spec/trace/ClockSyncTrace.tla: Sound / Complete(5 %) / WellFormed against the "
              "truth recomputed by the spec from the recorded deletions; map accuracy (<= 2 ms) and drift (<= 5 ppm) by projection."),
        design_ref="DESIGN.md §4 C19, §5",
        note=("Honest scope: TLA+ decides the index bookkeeping and the bin arithmetic only; accuracy clauses are measured on the "
              "real output (tolerances ~10x what correct code achieves)."),
        technique="TLC-enumerated loss patterns + TLA+ bookkeeping oracle via trace validation; estimator accuracy by numeric projection",
    ),
    "C15": dict(
        category="model_checking",
        text=("TLC checks spec/lib/BadChannels.tla in four parts: (I) the repair loop over all label vectors on six small geometries "
              "(nearness as an integer squared-distance cut derived from exp(-(d/20)^1.3) >= 0.005): only dead/noisy channels "
              "change, each from its support of near good/outside channels or to zero, in any repair order; (II) the label rule "
              "(contiguous top block, precedence 2 over 1 over 3) over all flag triples; (III) the per-channel mode over batches; "
              "(IV) the discrete skeleton of detection (abstract coherence -> 11-point median detrend with the code's padding -> "
              "flags -> rule) for every silent/noisy position x top-block size. TLC-exported label vectors are replayed on the real "
              "interpolate_bad_channels; recorded interpolations, detections on synthetic AP-band recordings with injected faults "
              "(every position over the probe, block sizes 0..40), and file-level runs with detect_bad_channels wrapped to record "
              "per-batch labels are validated by spec/trace/BadChannelsTrace.tla."),
        design_ref="DESIGN.md §4 C15",
        note=("Trusted: TLC; harness/c15.py. Hull membership at every sample, unit sum of the weights and the crossing of the "
              "numeric thresholds on the synthetic recordings are projections. One known finding (KNOWN_FINDINGS.txt: "
              "detect:dead-below-top-block). A silent channel inside / directly below the top block may be labelled 1 or 3 (both "
              "clauses of the property apply to it)."),
        technique="TLA+ models of repair loop / label rule / mode / detrend skeleton checked with TLC + replay of exported label vectors + trace validation",
    ),
    "C08": dict(
        category="model_checking",
        text=("TLC checks spec/mc/MC_Geometry.tla (over spec/lib/Geometry.tla: site grids, both metadata encodings incl. the NP1 "
              "column flip and tip offset, ADC group / delay as functions of the original channel number, the (shank,row,-col) sort, "
              "restriction to a shank) stepping geometry_from_meta through map / convert / adc / split / sort for every ordered "
              "selection of <= 4/5 distinct sites of a small grid x encodings x sort x split, plus facts checked once on the real "
              "grids (grid inverse on all sites, per-ADC delays exactly k/13 or k/16, dense layouts). Headers exported by TLC are "
              "replayed on the real geometry_from_meta (metagen files in both encodings); every return form of the real code "
              "(geometry_from_meta, read_geometry, Reader.geometry, trace_header, split_trace_header) for thousands of site tables "
              "incl. random 384-of-grid tables in random order is validated by spec/trace/GeometryTrace.tla."),
        design_ref="DESIGN.md §4 C08",
        note=("Trusted: TLC; metagen (cross-checked by the trace spec, which re-derives the encodings from the site table). Exhaustive "
              "inside the box, full size sampled. Original channel number = position of the entry in the site table (for a split "
              "file: in the parent's table); saved-channel subsets that are not prefixes are outside the quantifier."),
        technique="TLA+ geometry model checked with TLC + replay of exported headers + trace validation of every return form",
    ),
    "C01": dict(
        category="model_checking",
        text=("TLC checks spec/lib/ReaderIndex.tla + PySlice.tla: Reader.read / __getitem__ (selector permuted through the raw "
              "channel order, row gather through the memmap path or the chunked mtscomp path incl. the negative-step branch, gain "
              "gather with the same selector) equals indexing the whole calibrated, permuted array, cell by cell on tokens <sample, "
              "on-disk column, gain class>, for every selector of a box (n <= 6/8 samples, start/stop in None u -(n+2)..n+2, steps "
              "+-1..3, ints, lists; bin and cbin; all permutations of <= 4/5 channels). TLC's selector tables drive the real reads "
              "on 11 probe records x sort on/off x bin/cbin; returned values decoded to tokens are validated by "
              "spec/trace/ReaderTrace.tla (also: raw_channel_order is the (shank,row,-col) order, geometry entry i is column i)."),
        design_ref="DESIGN.md §4 C01",
        note=("Trusted: TLC; harness/c01.py + metagen. float32(raw) x factor for all 65536 values x 8 gains x AP/LF/nidq is a numeric "
              "projection on the real output (rel. 2e-6; factor derived independently as range/maxint/gain), not TLC. A list sample "
              "selector combined with a list column selector is excluded (the property text does not fix NumPy pairing vs outer "
              "product)."),
        technique="TLA+ indexing model (PySlice/ReaderIndex) checked with TLC + TLC-exported selector tables replayed + trace validation of real reads",
    ),
    "C10": dict(
        category="model_checking",
        text=("TLC checks spec/lib/SyncBits.tla (all 65536 words through the view / unpack / roll / flip steps of split_sync against "
              "line k = bit k; row layout of read_sync with analog lines thresholded in integer arithmetic) and spec/lib/TTL.tla "
              "(every 0/1 train of 2/3 lines x length <= 6, step/amplitude box, 1-D and both orientations of 2-D: fronts / rises / "
              "falls = exactly the change events). The real split_sync on all 65536 words, Reader.read_sync / read_sync_digital / "
              "read_sync_analog on 3B, 3A, 3B1 and nidq recordings (analog samples just below / at / above the threshold over "
              "random floors) and fronts / rises / falls on trains read back from real files are validated by SyncBitsTrace / "
              "TTLTrace; every exported train is replayed on arrays (5 dtypes, all axes) and on real recordings."),
        design_ref="DESIGN.md §4 C10",
        note=("Trusted: TLC; metagen; exact-float construction of the nidq analog lines (no numeric projection needed). Trains "
              "exhaustive up to 3 lines x 6 samples, long trains sampled; one digital word (DW = 1)."),
        technique="TLA+ bit/TTL models checked with TLC + exhaustive trace validation of split_sync + replay of exported trains on real recordings",
    ),
    "C16": dict(
        category="model_checking",
        text=("TLC checks spec/lib/Saturation.tla: over/slew counts vs the proportion in exact integer arithmetic (cnt*b > a*nc) for "
              "all count vectors of small channel counts, and the mute gain as interval arithmetic over bounds of the cosine taps "
              "for all flag vectors of length <= 9/11 x widths 1..9/12: gain in [0,1], zero on every flag, one farther than the "
              "half-width from any flag, depends on the flags only. Every exported abstract input is realised twice with voltages "
              "placed just below / at / above 0.98 x range and the slew limit (scalar and per-channel ranges, channel counts "
              "replicated to 400, ranges read through the real Reader.range_volts for 3B2/3A/NP2 files) and the real saturation() "
              "output is compared with the export and validated by spec/trace/SaturationTrace.tla."),
        design_ref="DESIGN.md §4 C16",
        note=("Trusted: TLC; harness/c16.py. gain == 0 / == 1 / within [0,1] and equality of two gains are 1e-12 projections; the "
              "cosine-tap bounds table is checked against scipy at run time; a channel exactly at the slew limit is accepted either "
              "way (text: 'exceed', code: >=)."),
        technique="TLA+ count/mute-interval model checked with TLC + replay of exported inputs + trace validation of real saturation() calls",
    ),
    "C18": dict(
        category="model_checking",
        text=("TLC checks spec/lib/Spectral.tla: convolve as pad / transform / inverse / crop / mode-crop on impulses (every impulse "
              "pair for lengths <= 10/14, first and last impulse for every pair of lengths <= 80/200) against the textbook full and "
              "same windows; ns_optim minimality, fscale, reduce / expand index maps, filter gain placement for every axis of "
              "1-3-D arrays, lp/hp complement classes. The real convolve on the full impulse basis (every pair <= 24^2/40^2 plus "
              "every pair with an odd padded size), ns_optim_fft to 1e6, fscale, freduce / fexpand tagged-spectrum maps and lp/hp "
              "gain classes are validated by spec/trace/SpectralTrace.tla; TLC-exported padded sizes and 'same' offsets for 80^2 / "
              "300^2 length pairs are replayed on the real convolve."),
        design_ref="DESIGN.md §4 C18",
        note=("Trusted: TLC; harness/c18.py. dft = fft, lp + hp = Id, bp = hp o lp, dense random convolution vs direct convolution "
              "and fcn_cosine monotonicity are numeric projections (1e-9 .. 1e-12). 'full' accepts n+m samples with a trailing zero "
              "(as the repository's own test does)."),
        technique="TLA+ index-map model of the spectral helpers checked with TLC + trace validation on the impulse basis + replay of exported sizes/offsets",
    ),
    "C14": dict(
        category="model_checking",
        text=("TLC checks spec/lib/Features.tla - a transcription of find_peak / pick_maxima, invert_peak_waveform, find_trough, the "
              "swap branch of find_tip_trough, find_tip, half_peak_point and recovery_point with NumPy's first-occurrence "
              "tie-breaking and NaN handling - against the property layer (succeeds when the largest deflection is not on sample "
              "0; peak = global |extremum| or exactly the documented swap; tip < peak <= trough; nearest half-peak points; "
              "recovery = min(trough + d, T-1); scaling by 2, 3 keeps indices; permuting traces permutes only the peak-trace "
              "index) on every integer waveform of boxes up to T <= 6 / 3 traces / values -3..3 / NaN. Exported cases with "
              "expected outcomes are replayed on compute_spike_features, and every real execution (boxes + realistic integer-count "
              "batches with scaled / permuted / re-batched copies, extrema swept to the last samples) is validated by "
              "spec/trace/FeaturesTrace.tla."),
        design_ref="DESIGN.md §4 C14",
        note=("Trusted: TLC; harness/c14.py. The equivariance laws on float-valued realistic batches (all columns incl. slopes, "
              "rtol 1e-9) are numeric projections; a sample exactly at half the peak may or may not count (the text does not fix "
              "strictness)."),
        technique="TLA+ transcription of the feature pipeline checked with TLC + replay of exported cases + trace validation of real executions",
    ),
    "C20": dict(
        category="model_checking",
        text=("TLC checks spec/lib/Counting.tla: the Venn level-peeling loop over every chunking of small count tables (every spike "
              "of every sorter in exactly one region; equality with a chunk-free reference), stack grouping for all label vectors, "
              "and the trajectory-matrix index formulas for full and staggered grids (cover, multiplicity = trcount, Hankel "
              "structure). Exported tables / vectors / layouts are turned into spike trains (several chunk sizes), stack inputs "
              "and coordinates and replayed; every real spikes_venn2/3, stack and trajectory call (per-chunk bin counts read by a "
              "spy on bincount2D) is validated by spec/trace/CountingTrace.tla. Rank-reduction (cadzow.denoise, svd_denoise_npx) and "
              "smoother / Savitzky-Golay identities are evaluated on the spec's layout x rank scenario grid."),
        design_ref="DESIGN.md §4 C20, §5",
        note=("Trusted: TLC; harness/c20.py. SVD / least-squares / filter clauses (identity at full rank 1e-9, noise reduced, "
              "constants kept, polynomial reproduction 1e-6, finite over NaN gaps) are numeric projections, not TLC."),
        technique="TLA+ counting/index models checked with TLC + replay of exported cases + trace validation; linear-algebra clauses by projection",
    ),
}

NOT_YET = {}


COMMON_NOTE = ("The input, configuration and history dimensions the harness generates (argument forms, leftovers, reused objects, "
               "faults) are listed per property in DESIGN.md 9.7; the seeded changes it was tried against in DESIGN.md 10 (the round i summary "
               "names the regions still open); values returned by the code under test are observed defensively, so that a broken "
               "library gives a VIOLATION and not a machinery failure (DESIGN.md 9.8).")
EXTRA_NOTE = {
    "C04": "Two kinds of fault: an interruption after any step, and a shank file damaged before the verification (spec action Damage).",
    "C06": "The batch loop and the hand-over between workers are also discharged for unbounded lengths by Apalache "
           "(spec/apalache/DestripeLoopInd.tla).",
    "C13": "The chunk / snippet arithmetic is also discharged for unbounded parameters by Apalache (spec/apalache/WaveSnipInd.tla).",
    "C19": "Two classes of inputs on which the unchanged estimator is known to fail are registered in KNOWN_FINDINGS.txt and "
           "demonstrated in every run.",
}


def main():
    props = [json.loads(l) for l in (VERIF / "properties.jsonl").read_text().splitlines() if l.strip()]
    checks, na = [], []
    for p in props:
        pid = p["id"]
        if pid in CHECKS:
            c = CHECKS[pid]
            checks.append({
                "property_id": pid,
                "quick_cmd": f"./check {pid} --tier quick",
                "thorough_cmd": f"./check {pid} --tier thorough",
                "evidence_file": f"/verif/evidence/{pid}.json",
                "replay_cmd_template": f"./check {pid} --replay {{path}}",
                "engine": "tlc+harness",
                "level_claimed": {"category": c["category"], "text": c["text"], "design_ref": c["design_ref"]},
                "level_note": c["note"] + (" " + EXTRA_NOTE.get(pid, "") if EXTRA_NOTE.get(pid) else "") + " " + COMMON_NOTE,
                "technique": c["technique"],
            })
        else:
            na.append({"property_id": pid, "reason": NOT_YET.get(pid, "check not built yet in this round (planned: DESIGN.md §4 "
                                                                  + pid + "); no claim is made")})
    hooks_commits = [l.split()[0] for l in (VERIF / "HOOK_COMMITS.txt").read_text().splitlines() if l.strip()] \
        if (VERIF / "HOOK_COMMITS.txt").exists() else []
    m = {
        "version": 1,
        "setup_cmd": "true",
        "hooks": {
            "guard": "IBL_NEUROPIXEL_VERIF",
            "enable": "./check exports IBL_NEUROPIXEL_VERIF=1 and runs /repo/src from the working tree (PYTHONPATH=/repo/src); "
                      "nothing is built or cached",
            "baseline_off_cmd": BASE,
            "source_commits": hooks_commits,
            "add_only": True,
        },
        "engines": [{"name": "tlc+harness", "path": "/verif/check",
                     "serves_properties": [c["property_id"] for c in checks],
                     "kind_free_text": "TLA+ specifications in /verif/spec checked with TLC 1.8; Python harness in /verif/harness "
                                       "replays TLC-generated scenarios into the real code and validates recorded traces of the "
                                       "real code against the specification"},
                    {"name": "extras (specification grown beyond the property list)", "path": "/verif/check",
                     "serves_properties": [],
                     "kind_free_text": "./check X01 (spec/sys/Session.tla: ephys file globbing, sync maps, reconstructor preconditions, Reader "
                                       "life cycle), ./check X02 (spec/sys/LfpResample.tla: the LFP down-sampling loop), ./check X03 "
                                       "(spec/sys/Programs.tla: user programs = converter runs + Reader compress/decompress + "
                                       "reconstruction over one directory), ./check X04 (spec/sys/DestripeQC.tla: the saturation / rms / time "
                                       "files of the destriping run under every worker schedule); same interface and exit codes, evidence/X0n.json; not "
                                       "registered as checks because the property list is fixed (DESIGN.md 9.5)"}],
        "checks": checks,
        "not_applicable": na,
        "notes": "See DESIGN.md. Known findings: KNOWN_FINDINGS.txt. Seeded breakages: seeded/<id>/.",
    }
    (VERIF / "MANIFEST.json").write_text(json.dumps(m, indent=1) + "\n")
    import subprocess
    subprocess.run(["python3-vt", "-c", "import json,jsonschema,sys;"
                    "jsonschema.validate(json.load(open('/verif/MANIFEST.json')),"
                    "json.load(open('/root/.vp/MANIFEST.schema.json')))"], check=True)
    print("MANIFEST.json:", len(checks), "checks,", len(na), "not_applicable")


if __name__ == "__main__":
    main()
