"""X03 - user programs over one recording directory: converter runs (possibly interrupted) interleaved with
Reader.compress_file / decompress_file on the original and NP2Reconstructor.process().

Not one of the listed properties (DESIGN.md section 6 / 9.5).  spec/sys/Programs.tla EXTENDS the converter model of C04
(NP2Convert) with the three other calls as single steps; the property layer is ours (UserSafe, ReconRestores, ReconSafe,
Recoverable over whole programs).  Verdict roles as in X01 / X02:
  * a real step that is not a step of the specification's implementation layer       -> VIOLATION (the code changed)
  * a clause of our property layer false on a program that went through the documented deviation (`hazard`: a
    reconstruction started on incomplete shank files opens the original's own path for writing)  -> OBSERVATION
  * a clause false on any other program                                              -> VIOLATION

1. TLC: Programs over programs of up to 3 (thorough 4) calls x every option vector x an interruption after every converter
   step, NP2.4 and NP2.1: RecoverableOrHazard, ReconSafe, UserSafe, ReconRestores; vacuity: the hazard is reachable and
   does lose the original (NoHazard, NeverLost violated).
2. code -> spec: programs executed on real directories (the world of C04: 8-channel recordings, 2 shanks, projected
   after every step), validated by spec/trace/ProgramsTrace.tla.
"""
import copy
import json
import random
from pathlib import Path

import numpy as np

import c04
import np2common as n2
from vkit import tlc, tracecheck

TRACE = ("trace/ProgramsTrace.tla", "trace/ProgramsTrace.cfg")


class World(c04.World):
    @property
    def ap_file(self):          # the file a user hands to the converter: the .bin when it is there, else the .cbin
        return self.binf if self.binf.exists() else self.binf.with_suffix(".cbin")


def user_op(world, op, arg, steps):
    """one Reader call / reconstruction; appends the "user" / "uend" records; returns the status string"""
    import spikeglx
    import neuropixel
    before = world.project()
    steps.append({"pt": "user", "op": op, "arg": bool(arg), "fs": before})
    st = "raised"
    exc = ""
    try:
        if op == "ucompress":
            sr = spikeglx.Reader(world.binf)
            try:
                sr.compress_file(keep_original=bool(arg), chunk_duration=0.02)
            finally:
                sr.close()
            st = "u1"
        elif op == "udecompress":
            sr = spikeglx.Reader(world.binf.with_suffix(".cbin"))
            try:
                sr.decompress_file(keep_original=bool(arg))
            finally:
                try:
                    sr.close()
                except Exception:
                    pass
            st = "u1"
        else:
            rc = neuropixel.NP2Reconstructor(world.raw, "probe00", compress=bool(arg))
            try:
                r = rc.process()
                st = {1: "1", 0: "0"}.get(r, f"other:{r}")
            finally:
                for si in (getattr(rc, "shank_info", None) or {}).values():
                    sr = si.get("sr")
                    try:
                        if sr is not None:
                            sr.close()
                    except Exception:
                        pass
    except Exception as e:  # noqa
        exc = f"{type(e).__name__}: {e}"[:160]
    steps.append({"pt": "uend", "fs": world.project(), "status": st, "exc": exc})
    return st


def enabled(world, fs, op):
    if op == "convert":
        return fs["orig"] == "C" or fs["origc"] == "C"
    if op == "ucompress":
        return fs["orig"] == "C"
    if op == "udecompress":
        return fs["origc"] == "C"
    return world.kind == "NP24"


def recon_good(fs):
    for s in range(c04.NSH):
        if fs[f"dir{s}"] == "A" or fs[f"apm{s}"] != "C":
            return False
        if fs[f"ap{s}"] not in ("A", "C") or fs[f"apc{s}"] not in ("A", "C") or "C" not in (fs[f"ap{s}"], fs[f"apc{s}"]):
            return False
    return True


def execute(world, prog):
    """prog: list of ("convert", opts, fail_at) / (op, arg). Returns the trace record, or None if an interruption point of the
    program does not exist"""
    world.reset()
    steps = []
    done = []
    conv = None
    try:
        for call in prog:
            fs = world.project()
            if not enabled(world, fs, call[0]):
                continue
            if call[0] == "convert":
                if conv is not None:
                    c04.close_all(conv)
                st, conv = c04.one_process(world, call[1], call[2], steps)
                if st is None:
                    return None
                done.append(["convert", call[1], call[2]])
            else:
                if conv is not None:
                    c04.close_all(conv)
                    conv = None
                good = recon_good(fs)
                user_op(world, call[0], call[1], steps)
                done.append([call[0], bool(call[1])])
                if call[0] == "reconstruct" and not good:
                    break          # the directory is outside what the converter model describes from here on
    finally:
        if conv is not None:
            c04.close_all(conv)
    for s in steps:
        s.setdefault("opts", c04.NOOPTS)
        s.setdefault("status", "none")
        s.setdefault("vr", False)
        s.setdefault("cd", False)
        s.setdefault("op", "")
        s.setdefault("arg", False)
    return {"kind": world.kind, "prog": done, "steps": steps}


def strip(t):
    return {"kind": t["kind"], "steps": [{k: s[k] for k in ("pt", "fs", "cd", "vr", "opts", "status", "op", "arg")} for s in t["steps"]]}


def nstates(t):
    n_user = sum(1 for s in t["steps"] if s["pt"] == "user")
    return len(t["steps"]) - n_user + 2


def describe(t):
    out = []
    for c in t["prog"]:
        if c[0] == "convert":
            out.append("process(" + ",".join(k for k in c04.OPT_KEYS if c[1][k]) + ")" + (f"@crash{c[2]}" if c[2] is not None else ""))
        else:
            out.append(f"{c[0]}({c[1]})")
    return f"{t['kind']}: " + " ; ".join(out)


def plan(ctx):
    rnd = random.Random(ctx.seed)
    opts = c04.all_opts()
    o = lambda **k: dict(c04.NOOPTS, **k)   # noqa: E731
    progs = []
    # the documented deviation and its neighbours: complete split, interrupted overwriting re-run, reconstruction
    for fa in (1, 2, 3):
        for cmp in (False, True):
            for form in ("bin", "cbin"):
                progs.append(("NP24", form, [("convert", o(), None), ("convert", o(ow=True), fa), ("reconstruct", cmp)]))
    # round trips: split (+ verify + delete), reconstruct, with Reader calls in between
    for form in ("bin", "cbin"):
        for cmp in (False, True):
            progs.append(("NP24", form, [("convert", o(chk=True, **{"del": True}), None), ("reconstruct", cmp), ("udecompress", False)]))
            progs.append(("NP24", form, [("convert", o(cmp=True, chk=True, **{"del": True}), None), ("reconstruct", cmp)]))
            progs.append(("NP24", form, [("ucompress", True), ("convert", o(chk=True, **{"del": True}), None), ("reconstruct", cmp)]))
            progs.append(("NP24", form, [("convert", o(), 5), ("reconstruct", cmp)]))
            progs.append(("NP24", form, [("reconstruct", cmp)]))
    alphabet = [("ucompress", True), ("ucompress", False), ("udecompress", True), ("udecompress", False), ("reconstruct", False),
                ("reconstruct", True)]
    for _ in range(110 if ctx.quick else 1500):
        kind = rnd.choice(["NP24", "NP24", "NP21"])
        prog = []
        for _ in range(rnd.choice([2, 3, 3] if ctx.quick else [2, 3, 4])):
            if rnd.random() < 0.55:
                prog.append(("convert", rnd.choice(opts), rnd.choice([None, None, None, 1, 2, 3, 5, 8, 11, 14])))
            else:
                prog.append(rnd.choice(alphabet))
        progs.append((kind, rnd.choice(["bin", "cbin"]), prog))
    return progs


def run(ctx):
    import logging
    import mtscomp
    logging.getLogger("ibllib").setLevel(logging.CRITICAL)
    logging.getLogger("mtscomp").setLevel(logging.ERROR)
    mtscomp.tqdm = lambda it=None, **k: it
    ctx.level = "model_checking"
    cfg = "mc/Programs_quick.cfg" if ctx.quick else "mc/Programs_thorough.cfg"
    r = tlc.run("mc/MC_Programs.tla", cfg, workers=8, timeout=3000, heap="8g")
    ctx.tlc(r, cfg)
    if not r.ok:
        raise tlc.TLCError(f"Programs model violates {r.invariant_violated}:\n{r.out[-2500:]}")
    for vc, inv in (("mc/Programs_vac1.cfg", "NoHazard"), ("mc/Programs_vac2.cfg", "NeverLost")):
        r = tlc.run("mc/MC_Programs.tla", vc, workers=4, timeout=600)
        ctx.tlc(r, vc)
        if r.ok or r.invariant_violated != inv:
            raise tlc.TLCError(f"vacuity: {vc} should violate {inv}")
    worlds, traces = {}, []
    rng = np.random.default_rng(ctx.seed)
    for kind, form, prog in plan(ctx):
        key = (kind, form)
        if key not in worlds:
            worlds[key] = World(Path(ctx.scratch) / f"x03_{kind}_{form}", kind, form, rng)
        t = execute(worlds[key], prog)
        if t is not None and t["steps"]:
            traces.append(t)
            ctx.count(1, key=(kind, form, json.dumps(t["prog"], sort_keys=True)))
    for w in worlds.values():
        n2.rm(w.root)
        n2.rm(w.pristine)
    verdicts = tracecheck.validate(ctx, *TRACE, [strip(t) for t in traces], label="programs", nstates=nstates, jvms=6, workers=2, timeout=1500)
    lost = []
    for v in verdicts:
        t = traces[v["index"]]
        haz = v["pos"] < 0
        if v["impl"]:
            exc = [s.get("exc") for s in t["steps"] if s.get("exc")]
            ctx.violation("programs:Step", f"{describe(t)}: step '{v['impl']}' is not a step of spec/sys/Programs.tla"
                          + (f" [{exc[0]}]" if exc else ""), {"kind": t["kind"], "prog": t["prog"]})
        elif v["prop"] and haz:
            lost.append((describe(t), v["prop"]))
        elif v["prop"]:
            ctx.violation("programs:" + v["prop"], f"{describe(t)}: clause {v['prop']} false", {"kind": t["kind"], "prog": t["prog"]})
    nhaz = sum(1 for t in traces if any(s["pt"] == "user" and s["op"] == "reconstruct" and not recon_good(s["fs"])
                                        and t["steps"][i + 1]["fs"] != s["fs"] for i, s in enumerate(t["steps"][:-1])))
    if lost:
        ctx.observe(f"NP2Reconstructor.process() opens the original's own path for writing before it knows that the shank files are "
                    f"complete: {len(lost)} executed program(s) lose a copy of the original that was there before the call, e.g. "
                    f"[{lost[0][0]}] (clause {lost[0][1]})")
    ctx.cov["programs"] = len(traces)
    ctx.cov["programs_through_the_hazard"] = nhaz
    ctx.cov["programs_losing_data"] = len(lost)
    for t in traces[:2]:
        ctx.sample({"program": describe(t), "records": [[s["pt"], s.get("op", ""), "".join(f"{k}:{v} " for k, v in s["fs"].items() if v != "A"),
                                                        s["status"]] for s in t["steps"]][:30]})
    # binding self-test: a corrupted record must be rejected
    good = [t for t in traces if any(s["pt"] == "uend" and s["status"] == "u1" for s in t["steps"])][:2]
    if not good:
        raise tlc.TLCError("selftest: no program with a Reader call")
    mut = []
    for t in good:
        m = copy.deepcopy(strip(t))
        k = next(i for i, s in enumerate(m["steps"]) if s["pt"] == "uend" and s["status"] == "u1")
        m["steps"][k]["fs"]["orig"] = "A"
        m["steps"][k]["fs"]["origc"] = "A"
        for s in m["steps"][k + 1:]:
            s["fs"]["orig"] = "A"
            s["fs"]["origc"] = "A"
        mut.append(m)
    keep = ctx.cov["traces_validated_against_impl"]
    v = tracecheck.validate(ctx, *TRACE, mut, label="selftest", nstates=nstates, jvms=1)
    ctx.cov["traces_validated_against_impl"] = keep
    if len({x["index"] for x in v if x["impl"] or x["prop"]}) != len(mut):
        raise tlc.TLCError("binding self-test: corrupted programs were not rejected")
    ctx.cov["rule"] = ("programs of 1-4 calls: converter runs (any options, interruption points) interleaved with Reader.compress_file / "
                       "decompress_file on the original and NP2Reconstructor.process(); a call is skipped when its precondition does not hold")
    ctx.assumptions += ["every call by a fresh object; interruptions only inside converter runs; a program ends after a reconstruction on "
                        "incomplete shank files (the directory is then outside the converter model)"]


def replay(ctx, sc):
    import logging
    logging.getLogger("ibllib").setLevel(logging.CRITICAL)
    rng = np.random.default_rng(ctx.seed)
    prog = [tuple(c) if c[0] != "convert" else ("convert", c[1], c[2]) for c in sc["prog"]]
    for form in ("bin", "cbin"):
        w = World(Path(ctx.scratch) / f"x03r_{form}", sc["kind"], form, rng)
        t = execute(w, prog)
        if t:
            for v in tracecheck.validate(ctx, *TRACE, [strip(t)], label=f"replay_{form}", nstates=nstates, jvms=1):
                if v["impl"] or (v["prop"] and v["pos"] >= 0):
                    ctx.violation("programs:" + (v["prop"] or "Step"), f"{describe(t)}: {v}", sc)
