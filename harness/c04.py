"""C04 - conversion never loses the original and is idempotent over run histories.

1. TLC: spec/sys/NP2Convert.tla - every history of up to MaxRuns runs x options {overwrite, post_check, compress,
   delete_original, partial conversion, which form of the original is handed over, one shank only} x probe kind {NP2.4,
   NP2.1, NP1, already split} x the directory the history finds (original as .bin / .cbin / both / next to a stale file of
   the other form; shank folders absent / holding other files / holding output of another recording) x an interruption
   after every step: Recoverable, DeleteGuard, Outcome (no-op re-run, forced re-run completes, -1 / 0 for foreign inputs).
2. code -> spec with interruption injection: real NP2Converter histories on small synthesised recordings; the steps of
   process() are instrumented from the harness (wrapped methods, Path.unlink, Reader.compress_file / close); before
   every step the directory tree is projected (byte / decompression comparison with the expected content of every
   file) together with the object's check_completed; spec/trace/NP2ConvertTrace.tla installs each observed directory,
   requires every step to be the implementation-layer action of its label and evaluates the property layer on every
   observed state, step and run outcome.
   A history = optional found state (`setup`: leftovers copied into the tree before the first run; init_params(extra=...))
   + runs (options, interruption point, who runs: a fresh converter / the same object again / the same object after another
   init_params / a converter that was constructed before the earlier runs of the history).
"""
import contextlib
import copy
import itertools
import json
import pathlib
import random
import re
import shutil
import signal
import threading
from pathlib import Path

import numpy as np

import np2common as n2
from vkit import metagen, tlc, tracecheck

NSH = 2
NS = 1507          # deliberately not a multiple of 12, of the window or of the stride
W = 1200           # 2 windows
PART = 1399        # init_params(nsamples=PART): a partial conversion (option "part"), 2 windows as well, not a multiple of 12
NSF = 1903         # length of the other ("foreign") recording whose files a history may find under this recording's names
# options of a run as the model sees them. cb (the file handed over is the .cbin) is resolved when the run begins: the input
# options say hand="bin" / "cbin" or nothing (= the world's form if that file is there, else the other one); sub = nshank=[0]
OPT_KEYS = ("ow", "chk", "cmp", "del", "part", "cb", "sub")
FORMS = ("bin", "cbin", "both", "binS", "cbinS")
FOUNDS = ("none", "dirs", "bins", "cbins", "mixed", "otherextra")
STEM = "_spikeglx_ephysData_g0_t0.imec0"


class Injected(Exception):
    """an interruption (a plain Exception: it may be raised inside mtscomp's thread pool, whose workers only hand
    Exception subclasses back to the caller; nothing in the library catches it)"""


class LibRaised(Exception):
    """an exception that escaped a call into the code under test made on behalf of a run outside process() (the constructor,
    init_params): the run it belongs to ends 'raised' (Outcome), it is never a failure of the harness"""


class Runaway(Exception):
    """process() did not come to an end (more steps than any run of these recordings has / no return within the time limit):
    raised into the run from an instrumentation point or from the alarm, the run ends 'raised' (Outcome)"""


MAXPOINTS = 400         # a run on these recordings (2 windows, 2 shanks) passes < 60 instrumentation points
MAXREADS = 4000         # ... and reads < 100 row ranges from the original
RUN_SECONDS = 180       # wall clock limit of one process() call (it takes well under a second)
RUNAWAYS = {"alarm": 0}
ODD = set()             # attributes of the converter that could not be read as what the property layer speaks of


def lib(what, fn, *a, **k):
    """a call into the code under test outside process(): whatever escapes it becomes LibRaised"""
    try:
        return fn(*a, **k)
    except Exception as e:  # noqa - the code under test raised; nothing of the harness runs inside fn
        raise LibRaised(f"{what}: {type(e).__name__}: {_text(e)}"[:200]) from e


def _text(x, n=80):
    try:
        return str(x)[:n]
    except Exception:  # noqa
        return f"<{type(x).__name__}>"


def obs_bool(conv, name):
    """a flag of the converter as a boolean; what cannot be read as one (attribute missing, an array, ...) is the negative
    observation (and reported once as drift: the implementation layer speaks of an attribute this code does not have)"""
    try:
        return bool(getattr(conv, name))
    except Exception as e:  # noqa
        ODD.add(f"NP2Converter.{name} cannot be read as a flag ({type(e).__name__})")
        return False


def cdone(conv):
    return obs_bool(conv, "check_completed")


def ap_path(conv, fallback):
    """the file the object holds (ap_file) as a Path; the file the run handed over if the attribute is no path"""
    try:
        return Path(conv.ap_file)
    except Exception as e:  # noqa
        ODD.add(f"NP2Converter.ap_file is not a path ({type(e).__name__})")
        return Path(fallback)


def status_of(st):
    """what process() returned, as the model's status: 1 / 0 / -1 (as any number equal to them), everything else 'other:...'
    (a plain word: it goes to TLC and into the evidence)"""
    try:
        if isinstance(st, (bool, int, float, np.integer, np.floating)) and st in (1, 0, -1):
            return {1: "1", 0: "0", -1: "m1"}[int(st)]
    except Exception:  # noqa
        pass
    return "other:" + re.sub(r"[^A-Za-z0-9_.+-]", "_", f"{type(st).__name__}_{_text(st, 30)}")[:48]


class World:
    def __init__(self, root, kind, form, rng, extra="", shids=None):
        self.root = Path(root)
        # the shanks of the 4-shank probe that carry the recorded channels (model shank i <-> probe shank shids[i]): a probe
        # recorded on shanks {1, 3} has no shank 0 - folder names, <version>_shank and nshank all speak of probe shanks
        self.shids = tuple(shids or range(NSH))
        self.kind = kind
        self.form = form
        self.extra = extra or ""     # init_params(extra=...): suffix of the shank folder names (NP2.4)
        n2.rm(self.root)
        k = {"NP24": "NP2.4", "NP21": "NP2.1", "NP1": "3B2", "split": "NP2.4"}[kind]
        n = 8
        if kind in ("NP24", "split"):
            sites = [(self.shids[c % NSH] if kind == "NP24" else 0, c // 2, c % 2) for c in range(n)]
        else:
            sites = metagen.dense_sites(k, n=n)
        self.binf, self.d, self.info = n2.make_recording(self.root, NS, rng, kind=k, n=n, sites=sites)
        if kind == "split":   # a shank file produced by an earlier split
            with open(self.binf.with_suffix(".meta"), "a") as f:
                f.write("NP2.4_shank=0\n")
        self.meta_text = self.binf.with_suffix(".meta").read_text()
        self.folder = self.binf.parent
        self.raw = self.folder.parent
        self.orig_bytes = self.binf.read_bytes()
        self.shank_of = np.array([s[0] for s in sites])
        # another recording of the same probe (longer, other samples): the source of every stale file a history finds. Its
        # generator is derived from this recording's data, the shared one is not touched.
        self.froot = self.root.parent / (self.root.name + "_foreign")
        n2.rm(self.froot)
        frng = np.random.default_rng(int(np.abs(self.d.astype(np.int64)).sum() % (1 << 31)))
        self.fbin, self.fd, _ = n2.make_recording(self.froot, NSF, frng, kind=k, n=n, sites=sites)
        self.fmeta_text = self.fbin.with_suffix(".meta").read_text()
        if form in ("cbin", "both", "cbinS"):
            import spikeglx
            try:
                sr = spikeglx.Reader(self.binf)
                sr.compress_file(keep_original=(form == "both"), chunk_duration=0.02)
                sr.close()
            except Exception as e:  # noqa - preparing the input is not the property: compress with mtscomp itself
                OBSERVED.add(f"Reader.compress_file could not prepare the compressed original ({type(e).__name__}): mtscomp used directly")
                for suf in (".cbin", ".ch"):
                    n2.rm(self.binf.with_suffix(suf))
                self.binf.write_bytes(self.orig_bytes)
                self._mtscomp(self.binf, nc=n + 1)
                if form != "both":
                    self.binf.unlink()
        if form == "binS":      # a compressed file of the other recording (and its .ch) under this recording's name
            self._mtscomp(self.fbin, nc=n + 1)
            for suf in (".cbin", ".ch"):
                shutil.move(self.fbin.with_suffix(suf), self.binf.with_suffix(suf))
        if form == "cbinS":     # the .bin of the other recording next to this recording's .cbin
            shutil.copy(self.fbin, self.binf)
        # snapshot of the pristine input to rebuild it cheaply
        self.pristine = self.root.parent / (self.root.name + "_pristine")
        n2.rm(self.pristine)
        shutil.copytree(self.root, self.pristine)

    @staticmethod
    def _mtscomp(path, nc, fs=30000):
        """path.cbin / path.ch written by the library itself (not by the code under test)"""
        import mtscomp
        path = Path(path)
        mtscomp.compress(path, out=path.with_suffix(".cbin"), outmeta=path.with_suffix(".ch"), sample_rate=fs, n_channels=nc,
                         dtype=np.int16, chunk_duration=0.02)

    def reset(self):
        n2.rm(self.root)
        shutil.copytree(self.pristine, self.root)

    def remove(self):
        for p in (self.root, self.pristine, self.froot):
            n2.rm(p)

    check_meta = False     # C04 sets it: the original counts as complete only with its metadata file unchanged (parsed content)

    @staticmethod
    def _meta_dict(txt):
        return {ln.split("=", 1)[0].lstrip("~"): ln.split("=", 1)[1].strip() for ln in txt.splitlines() if "=" in ln}

    def _meta_ok(self):
        if not self.check_meta:
            return True
        try:
            return self._meta_dict(self.binf.with_suffix(".meta").read_text()) == self._meta_dict(self.meta_text)
        except Exception:
            return False

    @staticmethod
    def _bytes(p):
        """content of a path that exists (None: it is not a readable file, e.g. a directory)"""
        try:
            return Path(p).read_bytes()
        except OSError:
            return None

    def _complete(self, p, cbin):
        if not p.exists() or not self._meta_ok():
            return False
        if not cbin:
            return self._bytes(p) == self.orig_bytes
        a = self._load(p, True)
        return a is not None and a.tobytes() == self.orig_bytes

    @property
    def ap_file(self):
        """the file a user hands to the converter when a run does not say which: the world's own form when that file is there
        (and is this recording), else the other form (an earlier run compressed the original in place / removed one of two)"""
        b, c = self.binf, self.binf.with_suffix(".cbin")
        first, second = ((c, b) if self.form in ("cbin", "cbinS") else (b, c))
        if first.exists() or not self._complete(second, second is c):
            return first
        return second

    def hand(self, which=None):
        return {"bin": self.binf, "cbin": self.binf.with_suffix(".cbin")}.get(which) or self.ap_file

    def shanks(self):
        return range(NSH) if self.kind == "NP24" else range(1)

    def paths(self, s, extra=None):
        if self.kind == "NP24":
            f = self.raw / f"probe00{chr(97 + self.shids[s])}{self.extra if extra is None else extra}"
            return {"dir": f, "ap": f / f"{STEM}.ap.bin", "apc": f / f"{STEM}.ap.cbin", "apm": f / f"{STEM}.ap.meta",
                    "lf": f / f"{STEM}.lf.bin", "lfc": f / f"{STEM}.lf.cbin", "lfm": f / f"{STEM}.lf.meta"}
        f = self.folder
        return {"dir": f, "ap": f / "none.x", "apc": f / "none.y", "apm": f / "none.z",
                "lf": f / f"{STEM}.lf.bin", "lfc": f / f"{STEM}.lf.cbin", "lfm": f / f"{STEM}.lf.meta"}

    def apply_found(self, found):
        """what the history finds in the shank folders (after reset): files the conversion did not write (`dirs`), or output
        of a conversion of the other recording under the very names this conversion uses - uncompressed (`bins`), compressed
        (`cbins`), both with damaged metadata (`mixed`) -, or output of a conversion with another `extra` (`otherextra`: folders
        this conversion never names). All written directly, not by the code under test."""
        if not found or found == "none" or self.kind not in ("NP24", "NP21"):
            return
        nap = self.fd.shape[1] - 1
        for s in self.shanks():
            p = self.paths(s, extra="_old" if found == "otherextra" else None)
            if self.kind == "NP24":
                p["dir"].mkdir(parents=True, exist_ok=True)
                chns = np.r_[np.flatnonzero(self.shank_of == self.shids[s]), nap]
            else:
                chns = np.arange(nap + 1)
            if found == "dirs":
                if self.kind == "NP24":
                    (p["dir"] / "notes.txt").write_text("channel notes\n")
                    self.fd[:50, chns].tofile(p["dir"] / "_spikeglx_ephysData_g1_t0.imec0.ap.bin")
                continue
            meta = "\n".join(f"nSavedChans={len(chns)}" if ln.startswith("nSavedChans=") else ln for ln in self.fmeta_text.splitlines()) + "\n"
            if found == "mixed":
                meta = meta[: len(meta) // 3]
            lfmeta = meta.replace("imSampRate=30000", "imSampRate=2500")
            todo = [("lf", "lfm", self.fd[::n2.RATIO, chns], lfmeta, 2500)]
            if self.kind == "NP24":
                todo.append(("ap", "apm", self.fd[:, chns], meta, 30000))
            for key, mkey, data, mtxt, fs in todo:
                np.ascontiguousarray(data).tofile(p[key])
                p[mkey].write_text(mtxt)
                if found in ("cbins", "mixed"):
                    self._mtscomp(p[key], nc=len(chns), fs=fs)
                if found == "cbins":
                    p[key].unlink()

    def _load(self, p, cbin):
        """int16 content of a .bin or .cbin (None if unreadable)"""
        try:
            if not cbin:
                return np.fromfile(p, dtype=np.int16)
            import mtscomp
            r = mtscomp.decompress(p, p.with_suffix(".ch"))
            a = r[:]
            r.close()
            return np.ascontiguousarray(a).reshape(-1)
        except Exception:
            return None

    def project(self):
        fs = {}
        mok = self._meta_ok()     # the original = its samples and its metadata file (observed: binary and metadata after every step)
        fs["orig"] = "A" if not self.binf.exists() else "C" if mok and self._bytes(self.binf) == self.orig_bytes else "P"
        oc = self.binf.with_suffix(".cbin")
        a = self._load(oc, True) if oc.exists() else None
        fs["origc"] = "A" if not oc.exists() else "C" if mok and a is not None and a.tobytes() == self.orig_bytes else "P"
        nap = self.d.shape[1] - 1
        for s in range(NSH):
            if s not in self.shanks():
                for p in ("dir", "ap", "apc", "apm", "lf", "lfc", "lfm"):
                    fs[f"{p}{s}"] = "A"
                continue
            p = self.paths(s)
            chns = np.r_[np.flatnonzero(self.shank_of == self.shids[s]), nap] if self.kind == "NP24" else np.arange(nap + 1)
            want_ap = self.d[:, chns].reshape(-1)
            part_ap = self.d[:PART, chns].reshape(-1)
            nlf = -(-NS // n2.RATIO)
            nlfq = -(-PART // n2.RATIO)
            fs[f"dir{s}"] = "C" if p["dir"].exists() else "A"
            for key, cb in (("ap", False), ("apc", True)):
                f = p[key]
                if not f.exists():
                    fs[f"{key}{s}"] = "A"
                else:
                    a = self._load(f, cb)
                    fs[f"{key}{s}"] = ("C" if a is not None and a.shape == want_ap.shape and np.array_equal(a, want_ap) else
                                       "Q" if a is not None and a.shape == part_ap.shape and np.array_equal(a, part_ap) else "P")
            for key, cb in (("lf", False), ("lfc", True)):
                f = p[key]
                if not f.exists():
                    fs[f"{key}{s}"] = "A"
                else:
                    a = self._load(f, cb)
                    ok = a is not None and a.size == nlf * len(chns) and np.array_equal(
                        a.reshape(nlf, len(chns))[:, -1], self.d[::n2.RATIO, -1])
                    okq = a is not None and a.size == nlfq * len(chns) and np.array_equal(
                        a.reshape(nlfq, len(chns))[:, -1], self.d[:PART:n2.RATIO, -1])
                    fs[f"{key}{s}"] = "C" if ok else "Q" if okq else "P"
            for key in ("apm", "lfm"):
                f = p[key]
                if not f.exists():
                    fs[f"{key}{s}"] = "A"
                else:
                    try:
                        import spikeglx
                        md = spikeglx.read_meta_data(f)
                        ok = int(md["nSavedChans"]) == len(chns) and (key == "apm" or md["imSampRate"] == 2500)
                        if self.kind == "NP24":     # a valid shank file says which shank of the probe it holds
                            ok = ok and int(md.get("NP2.4_shank", -1)) == self.shids[s]
                    except Exception:
                        ok = False
                    fs[f"{key}{s}"] = "C" if ok else "P"
        return fs


@contextlib.contextmanager
def instrumented(world, conv, steps, fail_at):
    import spikeglx
    state = {"n": 0, "reads": 0, "closes": 0, "in_check": False, "verified": False, "in_check_raised": False}
    conv._verif_state = state
    the_sr = lambda: getattr(conv, "sr", None)     # noqa: E731 - the attribute may be gone (a run that deleted the original)

    def point(label):
        if state["n"] >= MAXPOINTS:
            # far more steps than any run of these recordings has (a window loop that does not end): no further records, the run
            # is stopped and ends 'raised'
            raise Runaway(f"process() passed {state['n']} steps (last: {label}) without coming to an end")
        steps.append({"pt": label, "fs": world.project(), "cd": cdone(conv), "vr": state["verified"]})
        i = state["n"]
        state["n"] += 1
        if fail_at is not None and i == fail_at:
            steps[-1]["pt"] = "crash"
            raise Injected(label)

    wrapped_names = []

    def wrap(name, label, first_only=False, cond=None):
        if not hasattr(conv, name):
            # a private method that this code does not have (renamed / inlined): the step is not observed under its own label; the
            # generic file-operation points below take over as interruption points, every clause is still judged on every recorded state
            UNBOUND.add(f"NP2Converter.{name}")
            return
        orig = getattr(conv, name)
        wrapped_names.append(name)
        seen = {"n": 0}

        def w(*a, **k):
            if (cond is None or cond(*a, **k)) and not (first_only and seen["n"]):
                seen["n"] += 1
                point(label)
            return orig(*a, **k)
        setattr(conv, name, w)

    wrap("_prepare_files_NP24", "prepare")
    wrap("_prepare_files_NP21", "prepare")
    wrap("_ind2save", "window", cond=lambda *a, **k: k.get("etype", a[4] if len(a) > 4 else "ap") == ("ap" if world.kind == "NP24" else "lf"))
    wrap("_closefiles", "close", first_only=True)
    wrap("_writemetadata_ap", "meta_ap")
    wrap("_writemetadata_lf", "meta_lf")
    wrap("delete_NP24", "delete")
    orig_check = getattr(conv, "check_NP24", None)
    if orig_check is None:
        # the verification pass is not there under its name: its begin and its end are not observed, `verified` stays false -
        # a run that removes the original is then judged (DeleteGuard) as one that did not verify
        UNBOUND.add("NP2Converter.check_NP24")

    def w_check(*a, **k):
        if fail_at == "D" and not state.get("damaged"):
            # the other kind of fault (spec Damage): one sample of a shank AP file changes between the conversion and its
            # verification, in the FIRST verification window (the verification has to look at every window)
            steps.append({"pt": "damage", "fs": world.project(), "cd": cdone(conv), "vr": state["verified"]})
            f = world.paths(max(world.shanks()))["ap"]
            with open(f, "r+b") as fid:
                fid.seek(7 * 2)
                b = fid.read(2)
                fid.seek(7 * 2)
                fid.write(bytes([b[0] ^ 0x55, b[1]]))
            state["damaged"] = True
        point("check")
        state["in_check"] = True
        try:
            r = orig_check(*a, **k)
            state["verified"] = True       # the comparison of this run's output with the original ran to its end
            return r
        except AssertionError:
            state["in_check_raised"] = True
            raise
        finally:
            state["in_check"] = False
    if orig_check is not None:
        conv.check_NP24 = w_check
        wrapped_names.append("check_NP24")

    o_close, o_comp, o_unlink = spikeglx.Reader.close, spikeglx.Reader.compress_file, pathlib.Path.unlink

    def w_close(self):
        if state["in_check"] and self is not the_sr() and state["closes"] == 0:
            state["closes"] += 1
            point("check_closing")
        return o_close(self)

    import mtscomp
    o_chunk, o_rename = mtscomp.Writer._compress_chunk, pathlib.Path.rename

    def w_comp(self, *a, **k):
        # compress_file = temporary file, chunks, header, check, rename (spec/sys/System.tla refines the converter's atomic
        # CompressFile step into these): entry and first chunk are stuttering points, the rename is the step itself
        state["comp_label"] = "compress_orig" if self is the_sr() else "comp"
        state["chunk_seen"] = False
        point("comp_begin")
        k.setdefault("chunk_duration", 0.02)
        return o_comp(self, *a, **k)

    def w_chunk(self, idx):
        if not state.get("chunk_seen") and state.get("comp_label"):
            state["chunk_seen"] = True
            point("cchunk")
        return o_chunk(self, idx)

    def w_rename(self, target):
        if str(self).startswith(str(world.root)) and str(target).endswith(".cbin") and state.get("comp_label"):
            point(state["comp_label"])
            state["comp_label"] = None
        return o_rename(self, target)

    def w_unlink(self, *a, **k):
        s = str(self)
        if s.startswith(str(world.root)):
            if s.endswith(".cbin") and Path(s).parent != world.folder:
                point("stale")
            elif s.endswith(".lf.cbin"):
                point("stale")
            elif s.endswith(".bin") and (Path(s).parent != world.folder or s.endswith(".lf.bin")):
                point("rmbin")
            elif s.endswith(".ap.bin") and world.kind == "NP21":
                point("unlink_orig")
        return o_unlink(self, *a, **k)

    o_wmd = spikeglx.write_meta_data
    generic = bool(UNBOUND)

    o_getitem = spikeglx.Reader.__getitem__

    def w_getitem(self, item):
        # a new row range read from the original = the next window of the conversion (or of the verification pass): the generic
        # stand-in for the per-window point. Points *inside* the preparation of the shank folders are not generated: the
        # quantifier of the property interrupts at windows, metadata writing, verification and compression.
        if self is the_sr():
            state["reads"] += 1
            if state["reads"] > MAXREADS:
                raise Runaway(f"process() read {state['reads']} row ranges from the original without coming to an end")
            if generic:
                rows = item[0] if isinstance(item, tuple) else item
                key = (_text(getattr(rows, "start", rows)), _text(getattr(rows, "stop", None)), state["in_check"])
                if key != state.get("last_rows"):
                    state["last_rows"] = key
                    point("io_read")
        return o_getitem(self, item)

    def w_wmd(md, md_file):
        if str(md_file).startswith(str(world.root)):
            point("io_meta")
        return o_wmd(md, md_file)

    spikeglx.Reader.__getitem__ = w_getitem       # always: it also bounds the reads of a run that does not end
    if generic:
        spikeglx.write_meta_data = w_wmd
    spikeglx.Reader.close = w_close
    spikeglx.Reader.compress_file = w_comp
    pathlib.Path.unlink = w_unlink
    pathlib.Path.rename = w_rename
    mtscomp.Writer._compress_chunk = w_chunk
    try:
        yield
    finally:
        if generic:
            spikeglx.write_meta_data = o_wmd
        spikeglx.Reader.__getitem__ = o_getitem
        spikeglx.Reader.close = o_close
        spikeglx.Reader.compress_file = o_comp
        pathlib.Path.unlink = o_unlink
        pathlib.Path.rename = o_rename
        mtscomp.Writer._compress_chunk = o_chunk
        for name in wrapped_names:          # back to the class methods (the object may be used for another run)
            try:
                delattr(conv, name)
            except AttributeError:
                pass


NOOPTS = {"ow": False, "chk": False, "cmp": False, "del": False, "part": False, "cb": False, "sub": False}


def construct(world, o):
    """NP2Converter(<the file this run hands over>, options) ; init_params(...)"""
    import neuropixel
    f = world.hand(o.get("hand"))
    if o["chk"] != o["cmp"]:
        f = str(f)          # the file name as a string (half of the option vectors), else as a Path
    conv = lib("NP2Converter()", neuropixel.NP2Converter, f, post_check=o["chk"], compress=o["cmp"], delete_original=o["del"])
    init_params(world, conv, o)
    return conv


def init_params(world, conv, o):
    kw = {"nwindow": W, "nsamples": PART if o.get("part") else None}
    if world.extra:
        kw["extra"] = world.extra
    if o.get("sub"):
        kw["nshank"] = [world.shids[0]]
    lib("init_params()", lambda: conv.init_params(**kw))


@contextlib.contextmanager
def time_limit(seconds):
    """a process() call that does not return is stopped (Runaway raised into it; the run ends 'raised'): only from the main
    thread, where the check runs"""
    if threading.current_thread() is not threading.main_thread():
        yield
        return

    def on_alarm(signum, frame):
        RUNAWAYS["alarm"] += 1
        raise Runaway(f"process() did not return within {seconds} s")
    old = signal.signal(signal.SIGALRM, on_alarm)
    signal.setitimer(signal.ITIMER_REAL, seconds)
    try:
        yield
    finally:
        signal.setitimer(signal.ITIMER_REAL, 0)
        signal.signal(signal.SIGALRM, old)


def one_process(world, o, fail_at, steps, conv=None, mode=None, ctor_err=None):
    """one run by a fresh converter or, with `conv`: mode True = by the same object again, "reinit" = by the same object after
    another init_params (the run's `part` / `sub`; check_completed starts anew: a fresh run for the model), "early" = by an
    object constructed earlier in the history. Appends records; returns (status string, converter), status None if fail_at is
    beyond the last step of this run"""
    reuse = conv is not None and mode not in ("early", "reinit")
    handed = world.hand(o.get("hand"))
    try:
        if isinstance(ctor_err, LibRaised):
            raise ctor_err
        if conv is None:
            conv = construct(world, o)
        elif mode == "reinit":
            init_params(world, conv, o)
    except LibRaised as e:
        # the constructor / init_params of this run raised: the run is over before process() was entered, status 'raised'
        if fail_at is not None:
            return None, conv           # no interruption point was reached
        fs = world.project()
        o = dict(o, cb=(ap_path(conv, handed) if conv is not None else handed).suffix == ".cbin", sub=bool(o.get("sub")))
        steps.append({"pt": "begin", "fs": fs, "cd": False, "opts": dict(o), "status": "none", "reuse": False})
        steps.append({"pt": "raise", "fs": fs, "cd": False, "vr": False, "exc": str(e)})
        steps.append({"pt": "end", "fs": world.project(), "cd": False, "vr": False, "status": "raised"})
        return "raised", (conv if mode == "reinit" else None)
    o = dict(o, cb=ap_path(conv, handed).suffix == ".cbin", sub=bool(o.get("sub")))
    if mode == "reinit":      # the options given to the constructor belong to the object
        o.update(chk=obs_bool(conv, "post_check"), cmp=obs_bool(conv, "compress"), **{"del": obs_bool(conv, "delete_original")})
    steps.append({"pt": "begin", "fs": world.project(), "cd": cdone(conv) if reuse else False, "opts": dict(o),
                  "status": "none", "reuse": reuse})
    n0 = len(steps)
    status = None
    fired = False
    with instrumented(world, conv, steps, fail_at):
        try:
            with time_limit(RUN_SECONDS):
                st = conv.process(overwrite=o["ow"])
            status = status_of(st)
        except Injected:
            status = "crashed"
            fired = True
        except Exception as e:  # noqa - nobody injected this
            if isinstance(e, AssertionError) and conv._verif_state.get("in_check_raised"):
                # the verification pass found a difference and stopped the run (before anything is compressed or deleted):
                # the model's "refused"; whether it had to is a clause of Outcome
                status = "refused"
            else:
                status = "raised"
                steps.append({"pt": "raise", "fs": world.project(), "cd": cdone(conv), "vr": vr(conv),
                              "exc": f"{type(e).__name__}: {_text(e, 140)}"})
        finally:
            close_files(conv)
    if fail_at == "D":
        fired = bool(getattr(conv, "_verif_state", {}).get("damaged"))
    if fail_at is not None and not fired:
        return None, conv
    if len(steps) == n0 and status != "raised":
        # process() returned before any instrumented step (not an NP2 probe / already split): the model's Prepare
        steps.append({"pt": "prepare", "fs": steps[-1]["fs"], "cd": False, "vr": False})
    if status == "1":
        steps.append({"pt": "return", "fs": world.project(), "cd": cdone(conv), "vr": vr(conv)})
    steps.append({"pt": "end", "fs": world.project(), "cd": cdone(conv), "vr": vr(conv), "status": status})
    return status, conv


OBSERVED = set()
UNBOUND = set()     # instrumentation points that the code under test does not have (any more)


def sr_closed(conv):
    raw = getattr(getattr(conv, "sr", None), "_raw", None)
    mm = getattr(raw, "_mmap", None)
    if mm is not None:
        return bool(mm.closed)
    cd = getattr(raw, "cdata", None)          # mtscomp reader
    return bool(getattr(cd, "closed", False))


def vr(conv):
    return bool(getattr(conv, "_verif_state", {}).get("verified", False))


def close_files(conv):
    """flush what the interrupted / finished run had open (the OS would do it at process exit)"""
    info = getattr(conv, "shank_info", None)      # whatever the preparation step left there
    for si in (list(info.values()) if isinstance(info, dict) else list(info) if isinstance(info, (list, tuple)) else []):
        if not isinstance(si, dict):
            continue
        for k in ("ap_open_file", "lf_open_file"):
            f = si.get(k)
            try:
                if f is not None:
                    f.close()
            except Exception:
                pass
        try:
            if "sr" in si:
                si.pop("sr").close()
        except Exception:
            pass


def close_all(conv):
    close_files(conv)
    try:
        conv.sr.close()
    except Exception:
        pass


def uneven(world):
    """NP2.4: some shank folders exist and others do not (left by a one-shank run)"""
    if world.kind != "NP24":
        return False
    ex = [world.paths(s)["dir"].exists() for s in world.shanks()]
    return any(ex) and not all(ex)


def history(world, runs, setup=None):
    """runs: list of (opts, fail_at[, mode]); mode True = the object of the previous run again, "reinit" = that object after another
    init_params, "early" = an object constructed before the first run of the history. setup: {"found": ...} = leftovers the history
    finds. Returns the trace record, or None if some fail_at does not exist"""
    world.reset()
    world.apply_found((setup or {}).get("found"))
    steps = []
    conv = None
    early = {}
    try:
        for i, run in enumerate(runs):
            if len(run) > 2 and run[2] == "early":
                try:
                    early[i] = construct(world, run[0])
                except LibRaised as e:      # the run this object was made for ends 'raised' when its turn comes
                    early[i] = e
        for i, run in enumerate(runs):
            o, fa = run[0], run[1]
            mode = run[2] if len(run) > 2 and run[2] else None
            same = mode in (True, "reinit")
            if same and conv is None:
                break
            cur = conv if same else early.get(i)
            err = None
            if isinstance(cur, LibRaised):
                err, cur = cur, None
            f = ap_path(cur, world.hand(o.get("hand"))) if cur is not None else world.hand(o.get("hand"))
            if not world._complete(f, f.suffix == ".cbin"):
                break                    # the file to hand over (or the one the object holds) is gone: no further run by it
            if same and sr_closed(conv):
                # the interrupted run had already closed its reader (compress_NP21 / delete_NP24 close it before unlinking):
                # calling process() again on this object would read a closed memory map, which crashes the interpreter.
                # Outside the listed properties (a retry by a fresh object works): recorded as an observation, not executed.
                OBSERVED.add(f"{world.kind}: process() on the same object after an interruption that left its reader closed "
                             f"(first run {', '.join(k for k in OPT_KEYS if runs[0][0].get(k))} interrupted at step {runs[0][1]}) "
                             "would read a closed memmap")
                break
            if not o["ow"] and not o.get("sub") and uneven(world):
                # outside the property (DESIGN.md 9.6; NP2Convert!FoldersUneven): only some of the shank folders exist (an earlier
                # run was restricted to one shank) - a full run without overwrite declines but first creates the missing folders
                OBSERVED.add("NP24: process() without overwrite when only some shank folders exist (after init_params(nshank=[0])) "
                             "returns 0 but creates the missing folders with empty files: not executed")
                break
            if not same and conv is not None:
                close_all(conv)
            st, conv = one_process(world, o, fa, steps, conv=cur, mode=mode, ctor_err=err)
            early.pop(i, None)
            if st is None:
                return None
    finally:
        for c in [conv] + list(early.values()):
            if c is not None and not isinstance(c, LibRaised):
                close_all(c)
    for s in steps:
        s.setdefault("opts", NOOPTS)
        s.setdefault("status", "none")
        s.setdefault("reuse", False)
        s.setdefault("vr", False)
    return {"kind": world.kind, "form": world.form, "extra": world.extra, "setup": dict(setup or {}), "runs": [list(r) for r in runs],
            "steps": steps}


def nstates(t):
    return len(t["steps"]) + 2


def all_opts():
    """the 16 vectors of (overwrite, post_check, compress, delete_original) for whole-recording conversions"""
    return [dict(NOOPTS, **dict(zip(OPT_KEYS[:4], v))) for v in itertools.product([False, True], repeat=4)]


def part_opts():
    """partial conversions (init_params(nsamples=PART)): the vectors under which the original could disappear, and two others"""
    o = lambda **k: dict(NOOPTS, part=True, **k)   # noqa: E731
    return [o(chk=True, **{"del": True}), o(chk=True, cmp=True, **{"del": True}), o(ow=True, chk=True, **{"del": True}),
            o(ow=True, chk=True, cmp=True, **{"del": True}), o(**{"del": True}), o(chk=True)]


def plan(ctx):
    """histories to execute: (kind, form, [(opts, fail_at) ...]); fail_at 'ALL' = enumerate every point"""
    rnd = random.Random(ctx.seed)
    opts = all_opts()
    out = []
    for kind, form in (("NP24", "bin"), ("NP21", "bin"), ("NP24", "cbin"), ("NP21", "cbin"), ("NP1", "bin"), ("split", "bin")):
        if kind in ("NP1", "split"):
            for o in opts[::5]:
                out.append((kind, form, [(o, None)]))
                out.append((kind, form, [(o, None), (opts[15], None)]))
            continue
        single = opts if (form == "bin" or not ctx.quick) else opts[3::4]
        for o in single:
            out.append((kind, form, [(o, "ALL")]))
        # two-run histories: first run complete or interrupted somewhere, second run any options
        firsts = [(o, None) for o in (opts if not ctx.quick else rnd.sample(opts, 6))]
        firsts += [(o, fa) for o in rnd.sample(opts, 4 if ctx.quick else 12) for fa in rnd.sample(range(0, 20), 3 if ctx.quick else 6)]
        for f in firsts:
            for o2 in (opts if not ctx.quick else rnd.sample(opts, 5)):
                out.append((kind, form, [f, (o2, None)]))
        # the same converter object used again: process(overwrite=True) after a complete or an interrupted first process()
        key_opts = [o for o in opts if o["chk"] and o["del"]]           # the vectors under which the original can disappear
        for o in key_opts + rnd.sample(opts, 2 if ctx.quick else 12):
            for fa in [None, 8, 10, 11, 13, 16] + rnd.sample(range(0, 20), 1 if ctx.quick else 5):
                out.append((kind, form, [(o, fa), (dict(o, ow=True), None, True)]))
                if not ctx.quick:
                    out.append((kind, form, [(o, fa), (dict(o, ow=False), None, True)]))
        # a shank file damaged before the verification (fault "D"): the run must refuse, whatever else is asked of it
        if kind == "NP24":
            for o in [x for x in opts if x["chk"]][:: (2 if ctx.quick else 1)]:
                out.append((kind, form, [(o, "D")]))
                out.append((kind, form, [(o, "D"), (dict(rnd.choice(opts), ow=True), None)]))
        # partial conversions: single runs with every interruption point, then followed by a whole-recording run / preceded by one
        for o in part_opts():
            out.append((kind, form, [(o, "ALL" if (form == "bin" or not ctx.quick) else None)]))
            out.append((kind, form, [(o, None), (rnd.choice(opts), None)]))
            out.append((kind, form, [(o, None), (dict(rnd.choice(opts), ow=True), None)]))
            out.append((kind, form, [(rnd.choice(opts), None), (dict(o, ow=True), None)]))
            out.append((kind, form, [(dict(o, ow=False), None), (dict(o, ow=True), None, True)]))
        # a converter that first declined ("output exists", status 0) and is then asked to force the re-run: an earlier
        # complete or interrupted run by another object left output; process() ; process(overwrite=True) on one object
        for o1 in rnd.sample(opts, 2 if ctx.quick else 8):
            for fa1 in ([None, 9] if ctx.quick else [None, 3, 9, 12, 15]):
                for o in rnd.sample(opts, 2 if ctx.quick else 6):
                    out.append((kind, form, [(o1, fa1), (dict(o, ow=False), None), (dict(o, ow=True), None, True)]))
                    if not ctx.quick:
                        out.append((kind, form, [(o1, fa1), (dict(o, ow=False), None), (dict(o, ow=False), None, True),
                                                 (dict(o, ow=True), None, True)]))
        if not ctx.quick:
            # second run interrupted as well, third run forced
            for f in rnd.sample(firsts, 10):
                for o2 in rnd.sample(opts, 4):
                    out.append((kind, form, [f, (o2, rnd.randint(0, 12)), (dict(opts[15], **{"del": False}), None)]))
    return out + plan_found(ctx)


def plan_found(ctx):
    """histories that do not start from a clean slate / whose runs are not by a fresh, fully parameterised object. Items carry a
    4th element: {"found": ..., "extra": ...}. (Own random stream: the histories of plan() stay what they were.)"""
    rnd = random.Random(ctx.seed * 7919 + 4)
    q = ctx.quick
    opts = all_opts()
    keyv = [o for o in opts if o["chk"] and o["del"]]       # the vectors under which the original can disappear
    ow = lambda o, v=True: dict(o, ow=v)                      # noqa: E731
    anyfa = lambda: rnd.choice([None, rnd.randrange(0, 18)])  # noqa: E731
    out = []
    for kind in ("NP24", "NP21"):
        # (a) the original in two forms / next to a stale file of the other form; which one is handed over
        for form in ("both", "binS", "cbinS"):
            for hand in (("bin", "cbin") if form == "both" else (None,)):
                h = {"hand": hand} if hand else {}
                # (quick: always a vector that verifies, compresses and deletes - the one under which every file of the original is touched)
                for o in ([rnd.choice([v for v in keyv if v["cmp"]])] + rnd.sample(opts, 1) if q else keyv + rnd.sample(opts, 6)):
                    o = dict(o, **h)
                    out.append((kind, form, [(o, "ALL" if not q and o in keyv else None)], {}))
                    o2 = dict(rnd.choice(opts), **rnd.choice([{}, {}, {"hand": "bin"}, {"hand": "cbin"}]))
                    out.append((kind, form, [(o, anyfa()), (o2, None)], {}))
                    if not q:
                        out.append((kind, form, [(o, anyfa()), (ow(o), None, True)], {}))
                        out.append((kind, form, [(o, anyfa()), (ow(o2), anyfa()), (ow(rnd.choice(keyv)), None)], {}))
        # (b) shank folders that already hold something: other files, output of another recording (longer, other samples) under
        # the names this conversion writes, output of a conversion with another `extra`
        for form in (("bin", "cbin") if not q else (rnd.choice(("bin", "cbin")),)):
            founds = ("dirs", "bins", "cbins", "mixed", "otherextra") if kind == "NP24" else ("bins", "cbins", "mixed")
            for found in (founds if not q else [f for f in founds if f != ("mixed", "bins")[ctx.seed % 2]]):
                su = {"found": found}
                noow = [ow(o, False) for o in (rnd.sample(keyv, 1) if q else rnd.sample(keyv, 2) + rnd.sample(opts, 3))]
                forced = [ow(o) for o in (rnd.sample(keyv, 1) + rnd.sample(opts, 1) if q else keyv[::2] + rnd.sample(opts, 3))]
                for o in noow:
                    out.append((kind, form, [(o, None)], su))
                    out.append((kind, form, [(o, None), (ow(o), None, True)], su))          # declines, then the same object is forced
                    if not q:
                        out.append((kind, form, [(o, None), (ow(rnd.choice(opts)), anyfa()), (ow(rnd.choice(opts)), None)], su))
                for o in forced:
                    out.append((kind, form, [(o, "ALL" if not q and o["chk"] and o["del"] else None)], su))
                    out.append((kind, form, [(o, rnd.randrange(0, 16)), (ow(rnd.choice(opts)), None)], su))
                    if not q:
                        out.append((kind, form, [(o, None), (rnd.choice(opts), None)], su))
                        out.append((kind, form, [(dict(o, part=True), None), (ow(rnd.choice(opts)), None)], su))
        # (c) a converter constructed before the earlier runs of the history (it holds the reader, the flags and the parameters of
        # that moment), used afterwards; then forced
        for _ in range(3 if q else 40):
            form = rnd.choice(("bin", "cbin", "both"))
            o1, o2 = rnd.choice(opts), rnd.choice(opts)
            out.append((kind, form, [(o1, anyfa()), (o2, None, "early")], {}))
            out.append((kind, form, [(o1, anyfa()), (ow(o2, False), None, "early"), (ow(o2), None, True)], {}))
        # (d) the same object parameterised again (init_params) between two runs: whole recording <-> part of it
        for _ in range(3 if q else 30):
            form = rnd.choice(("bin", "cbin"))
            o1 = dict(rnd.choice(keyv + opts), part=rnd.random() < 0.5)
            out.append((kind, form, [(o1, anyfa()), (dict(o1, ow=rnd.random() < 0.8, part=not o1["part"]), None, "reinit")], {}))
            if not q:
                out.append((kind, form, [(o1, None), (dict(o1, ow=True, part=not o1["part"]), anyfa(), "reinit"),
                                         (dict(o1, ow=True, part=not o1["part"]), None, True)], {}))
    # (e) init_params(extra=...): the shank folders carry a suffix (the repository's tests always use one)
    for form in (("bin",) if q else ("bin", "cbin")):
        su = {"extra": "_test"}
        for o in (rnd.sample(keyv, 2) + rnd.sample(opts, 1) if q else keyv + rnd.sample(opts, 6)):
            out.append(("NP24", form, [(o, "ALL" if not q and o in keyv else None)], su))
            out.append(("NP24", form, [(o, anyfa()), (rnd.choice(opts), None)], su))
            out.append(("NP24", form, [(o, anyfa()), (ow(o), None, True)], su))
        for found in ("bins", "cbins", "otherextra", "dirs"):
            for o in rnd.sample(opts, 1 if q else 4):
                out.append(("NP24", form, [(ow(o, False), None), (ow(o), None, True)], dict(su, found=found)))
                out.append(("NP24", form, [(ow(rnd.choice(keyv)), anyfa()), (ow(o), None)], dict(su, found=found)))
    # (f) init_params(nshank=[0]): only the first shank is split off; with post_check the verification refuses and the
    # original stays, whatever delete_original says
    sub = lambda o: dict(o, sub=True)    # noqa: E731
    for form in (("bin",) if q else ("bin", "cbin")):
        for o in (rnd.sample(keyv, 2) + rnd.sample(opts, 2) if q else opts):
            out.append(("NP24", form, [(sub(o), "ALL" if not q and (o in keyv or form == "bin") else None)], {}))
        for _ in range(2 if q else 16):
            o, o2 = rnd.choice(keyv + opts), rnd.choice(opts)
            out.append(("NP24", form, [(sub(o), anyfa()), (ow(o2), None)], {}))                      # one shank, then everything, forced
            out.append(("NP24", form, [(o2, anyfa()), (sub(ow(o)), None)], {}))                      # everything, then one shank, forced
            out.append(("NP24", form, [(sub(o), None), (sub(ow(o2, False)), None), (sub(ow(o2)), None, True)], {}))
            if not q:
                out.append(("NP24", form, [(sub(o), anyfa()), (sub(ow(o)), None, True)], {}))
                out.append(("NP24", form, [(sub(o), None), (ow(o2), None, "early")], {}))
    # (g) a 4-shank probe recorded on shanks other than 0..n-1 (seed round g: shank files labelled by position, not by shank):
    # first runs, forced re-runs, one shank only, interruptions - the same model, the probe's own shank numbers on disk
    for shids in (((1, 3),) if q else ((1, 3), (2, 3), (0, 2), (1, 2))):
        su = {"shids": list(shids)}
        for form in (("bin",) if q else ("bin", "cbin")):
            for o in (rnd.sample(keyv, 1) + rnd.sample(opts, 2) if q else keyv + rnd.sample(opts, 6)):
                out.append(("NP24", form, [(o, None)], su))
                out.append(("NP24", form, [(o, anyfa()), (ow(rnd.choice(opts)), None)], su))
                out.append(("NP24", form, [(sub(o), None), (ow(rnd.choice(opts)), None)], su))
            if not q:
                out.append(("NP24", form, [(rnd.choice(keyv), "ALL")], su))
    return out


def execute(ctx, items):
    traces = []
    worlds = {}
    rng = np.random.default_rng(ctx.seed)
    for item in items:
        if RUNAWAYS["alarm"] >= 3:
            # process() calls keep running into the time limit: the histories executed so far are judged (each of those runs
            # ended 'raised'), the rest of the plan would only repeat it for hours
            OBSERVED.add(f"process() did not return within {RUN_SECONDS} s in {RUNAWAYS['alarm']} runs: the remaining histories were not executed")
            break
        kind, form, runs = item[:3]
        setup = dict(item[3]) if len(item) > 3 and item[3] else {}
        extra = setup.get("extra", "")
        shids = tuple(setup.get("shids") or range(NSH))
        key = (kind, form, extra, shids)
        if key not in worlds:
            worlds[key] = World(Path(ctx.scratch) / f"c04_{kind}_{form}{extra}_{''.join(map(str, shids))}", kind, form, rng, extra=extra,
                                shids=shids)
            worlds[key].check_meta = True
        w = worlds[key]
        if any(r[1] == "ALL" for r in runs):
            base = [(r[0], None if r[1] == "ALL" else r[1]) + tuple(r[2:]) for r in runs]
            t = history(w, base, setup)
            if t:
                traces.append(t)
            j = 0
            while j < 60:
                t = history(w, [(r[0], j if r[1] == "ALL" else r[1]) + tuple(r[2:]) for r in runs], setup)
                if t is None:
                    break
                traces.append(t)
                j += 1
        else:
            t = history(w, runs, setup)
            if t is not None:
                traces.append(t)
    for w in worlds.values():
        w.remove()
    return traces


def strip(t):
    return {"kind": t["kind"], "steps": [{"pt": s["pt"], "fs": s["fs"], "cd": s["cd"], "opts": {k: bool(s["opts"].get(k)) for k in OPT_KEYS},
                                          "status": s["status"], "reuse": s["reuse"], "vr": s["vr"]} for s in t["steps"]]}


def validate(ctx, traces, label):
    return tracecheck.validate(ctx, "trace/NP2ConvertTrace.tla", "trace/NP2ConvertTrace.cfg", [strip(t) for t in traces],
                               label=label, nstates=nstates, jvms=6, workers=2, timeout=1500)


def describe(t):
    who = {True: "same-object.", "reinit": "same-object.init_params().", "early": "constructed-at-start."}
    su = t.get("setup") or {}
    return f"{t['kind']}/{t['form']} " + "".join(f"{k}={v} " for k, v in sorted(su.items())) + "history " + " ; ".join(
        (who.get(r[2], "") if len(r) > 2 else "") + "process(" + ",".join(k for k in OPT_KEYS if r[0].get(k))
        + (f",hand={r[0]['hand']}" if r[0].get("hand") else "") + ")"
        + ("@shank-file-damaged-before-verification" if r[1] == "D" else f"@crash{r[1]}" if r[1] is not None else "") for r in t["runs"])


def report(ctx, traces, verdicts):
    for v in verdicts:
        t = traces[v["index"]]
        if v["prop"]:
            exc = [s.get("exc") for s in t["steps"] if s.get("exc")]
            ctx.violation("convert:" + v["prop"], f"{describe(t)}: clause {v['prop']} false at record {v['pos']}"
                          + (f" [{exc[0]}]" if exc else ""), {"kind": t["kind"], "form": t["form"], "runs": t["runs"], "setup": t.get("setup") or {}})
        elif v["impl"] and UNBOUND:
            pass        # reported once, below: the private steps are not observed under their own labels
        elif v["impl"]:
            ctx.spec_drift(f"{describe(t)}: step '{v['impl']}' (record {v['pos']}) is not the implementation-layer action of "
                           f"spec/sys/NP2Convert.tla")


def report_unbound(ctx):
    for o in sorted(ODD):
        ctx.spec_drift(f"{o}: observed as false / as the file the run handed over")
    if UNBOUND:
        ctx.spec_drift(f"instrumentation points {sorted(UNBOUND)} do not exist in this code: those steps of spec/sys/NP2Convert.tla are not "
                       "bound; interruptions are injected at generic points (a new row range read from the original, metadata write, "
                       "unlink, rename, compression chunk) instead and Recoverable / DeleteGuard / Outcome are judged on every recorded state")


def run(ctx):
    import logging
    import mtscomp
    logging.getLogger("ibllib").setLevel(logging.CRITICAL)
    logging.getLogger("mtscomp").setLevel(logging.ERROR)
    mtscomp.tqdm = lambda it=None, **k: it
    ctx.level = "model_checking"
    cfg = "mc/NP2Convert_quick.cfg" if ctx.quick else "mc/NP2Convert_thorough.cfg"
    r = tlc.run("mc/MC_NP2Convert.tla", cfg, workers=8, timeout=3000, coverage=True, heap="8g")
    ctx.tlc(r, cfg)
    if not r.ok:
        raise tlc.TLCError(f"NP2Convert model of the current tree violates {r.invariant_violated}:\n{r.out[-2500:]}")
    zero = [a for a in tlc.coverage_zero_actions(r.out) if a != "UnlinkStaleRaises"]
    if zero:
        raise tlc.TLCError(f"vacuity: actions never taken {zero}")
    if not ctx.quick:
        # the thorough box has 3 runs over the main initial directories; every form of the original x every found state: 2 runs
        r = tlc.run("mc/MC_NP2Convert.tla", "mc/NP2Convert_wide.cfg", workers=8, timeout=3000, heap="8g")
        ctx.tlc(r, "mc/NP2Convert_wide.cfg")
        if not r.ok:
            raise tlc.TLCError(f"NP2Convert model (all initial directories) violates {r.invariant_violated}:\n{r.out[-2500:]}")
    # composition (spec/sys/System.tla): compress_file's own protocol (C02) refines the converter's atomic CompressFile step
    scfg = "mc/System_quick.cfg" if ctx.quick else "mc/System_thorough.cfg"
    r = tlc.run("mc/MC_System.tla", scfg, workers=8, timeout=3000, heap="8g")
    ctx.tlc(r, scfg)
    if not r.ok:
        raise tlc.TLCError(f"System does not refine NP2Convert / violates {r.invariant_violated}:\n{r.out[-2500:]}")
    if not ctx.quick:
        r = tlc.run("mc/MC_System.tla", "mc/System_whatif.cfg", workers=4, timeout=600)
        if r.ok or r.invariant_violated != "FinalNeverPartial":
            raise tlc.TLCError("vacuity: the what-if variant (chunks written under the final name) was not rejected by the System model")
    items = plan(ctx)
    traces = execute(ctx, items)
    for t in traces:
        ctx.count(1, key=(t["kind"], t["form"], json.dumps(t["runs"], sort_keys=True), json.dumps(t.get("setup") or {}, sort_keys=True)))
    verdicts = validate(ctx, traces, "convert")
    report(ctx, traces, verdicts)
    report_unbound(ctx)
    for o in sorted(OBSERVED)[:5]:
        ctx.observe(o)
    ctx.cov["histories"] = len(traces)
    ctx.cov["interruptions_injected"] = sum(1 for t in traces for r in t["runs"] if r[1] is not None)
    ctx.cov["same_object_histories"] = sum(1 for t in traces if any(len(r) > 2 and r[2] for r in t["runs"]))
    ctx.cov["histories_from_a_found_state"] = sum(1 for t in traces if (t.get("setup") or {}).get("found") or t["form"] not in ("bin", "cbin"))
    ctx.cov["histories_with_extra"] = sum(1 for t in traces if t.get("extra"))
    ctx.cov["histories_early_or_reparameterised_object"] = sum(1 for t in traces if any(len(r) > 2 and r[2] in ("early", "reinit") for r in t["runs"]))
    ctx.cov["histories_one_shank_only"] = sum(1 for t in traces if any(r[0].get("sub") for r in t["runs"]))
    ctx.cov["runs_executed"] = sum(1 for t in traces for s in t["steps"] if s["pt"] == "begin")
    ctx.cov["distinct_observed_directories"] = len({json.dumps(s["fs"], sort_keys=True) for t in traces for s in t["steps"]})
    for t in traces[:1] + [x for x in traces if len(x["runs"]) > 1][:2]:
        ctx.sample({"history": describe(t), "records": [[s["pt"], "".join(f"{k}:{v} " for k, v in s["fs"].items() if v != "A"), s["status"]]
                                                       for s in t["steps"]][:40]})
    selftest(ctx, traces, {v["index"] for v in verdicts if v["prop"] or not UNBOUND}, {v["index"] for v in verdicts if v["prop"]})
    ctx.cov["rule"] = ("histories of 1-3 process() calls by fresh converter objects: every option vector x every interruption point "
                       "(single runs, enumerated until the run has no further step) + two/three-run histories (complete or "
                       "interrupted first run, any second run) + histories that start from a found state (original in two forms / next "
                       "to a stale file of the other form and either one handed over; shank folders holding other files or output of "
                       "another recording; init_params(extra)) + runs by an object constructed before the earlier runs / parameterised "
                       "again / restricted to one shank; distinct = distinct (kind, original form, found state, run list)")
    ctx.assumptions += ["interruptions are exceptions raised at step boundaries of process() (no torn writes, no power loss)",
                        "a fresh NP2Converter object per run, the same object called again (BeginReuse), the same object after another "
                        "init_params, or an object constructed before the earlier runs; a run is started only while the file its object "
                        "was given still exists; a full run without overwrite is not started when only some shank folders exist",
                        "projection: a file is complete iff its content equals the expected content (AP: bytes; .cbin: after "
                        "decompression; LF: shape and sync column)"]


def selftest(ctx, traces, bad, violating=None):
    cand = lambda excl: [i for i, t in enumerate(traces) if i not in excl and t["kind"] == "NP24" and len(t["runs"]) == 1     # noqa: E731
                         and t["form"] in ("bin", "cbin") and not t.get("setup") and not t["runs"][0][0].get("sub") and t["runs"][0][1] is None
                         and t["runs"][0][0]["del"] and t["runs"][0][0]["chk"] and t["steps"][-1]["status"] == "1"][:4]
    good = cand(bad)
    if len(good) < 2 and violating is not None:
        # every such run of this code drifts from the implementation layer (and no property-layer clause is false on it): the
        # property layer is evaluated on drifting traces as well, the corrupted copies have to be rejected all the same
        good = cand(violating)
    if len(good) < 2:
        raise tlc.TLCError("selftest: no accepted delete_original traces")
    mut = []
    for j, i in enumerate(good):
        t = copy.deepcopy(traces[i])
        labs = [s["pt"] for s in t["steps"]]
        if j % 2 == 0:
            # the original disappears before verification completed
            k = labs.index("check")
            for s in t["steps"][k:]:
                s["fs"]["orig"] = "A"
                s["fs"]["origc"] = "A"
        else:
            # a shank file is not complete although the run reports success
            t["steps"][-1]["fs"]["ap1"] = "P"
            t["steps"][-1]["fs"]["apc1"] = "A"
            t["steps"][-2]["fs"]["ap1"] = "P"
            t["steps"][-2]["fs"]["apc1"] = "A"
        mut.append(t)
    keep = ctx.cov["traces_validated_against_impl"]
    v = validate(ctx, mut, "selftest")
    ctx.cov["traces_validated_against_impl"] = keep
    flagged = {x["index"] for x in v if x["prop"]}
    if len(flagged) != len(mut):
        raise tlc.TLCError(f"binding self-test: only {len(flagged)}/{len(mut)} corrupted traces were rejected")
    ctx.cov["selftest_corrupted_traces_rejected"] = len(flagged)


def replay(ctx, sc):
    import logging
    logging.getLogger("ibllib").setLevel(logging.CRITICAL)
    runs = [tuple(r) for r in sc["runs"]]
    traces = execute(ctx, [(sc["kind"], sc["form"], runs, sc.get("setup") or {})])
    report(ctx, traces, validate(ctx, traces, "replay"))
    report_unbound(ctx)
