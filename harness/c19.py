"""C19 - clock synchronisation recovers the affine map and only true event pairs.

Honest scope (DESIGN 4/C19): the estimator is numeric.  TLA+ contributes
  * the ground-truth bookkeeping (spec/lib/ClockSync.tla): which (index in A, index in B) pairs are true
    correspondences when events are missing on either side; TLC checks it for consistency on all deletion patterns
    of a small train and exports the patterns (first / last / adjacent / same event on both sides ...) that the
    harness maps onto long trains;
  * the integer structure of the binning for the coarse cross-correlation (every event has a bin), checked for all
    spans in ms; the pre-fix variant of the model must fail (it does at every span that is a whole number of seconds).
Binding: every call of the real sync_timestamps is recorded (deletions, returned index vectors, classes) and validated
by spec/trace/ClockSyncTrace.tla, where Sound / Complete are evaluated against the truth recomputed by the spec.

Hand-over and history dimensions (audit after round e): the same clauses also judge calls whose arrays are read-only / strided /
windows of larger buffers / one object for both series, positional and default-omitting call styles, a non-default `tbin`,
clocks that start far from zero (negative, a day, Unix time), runs of up to five consecutive deletions exported by TLC, and calls
that have a *history*: an earlier call on the same array objects (repeated, reversed, against a third clock), an earlier call on
another recording with the same span (same internal buffer sizes), an earlier call that raised; the returned mapping is used only
after a later call on other data and after the caller has overwritten its arrays.

Decided by projection on the real output, NOT by TLC: Matched (max |f(t) - true map| at held-out events inside the
matched span <= 2 ms) and Drift (|reported - true| <= 5 ppm + 10 sigma of a straight-line fit with the given jitter).
"""
import contextlib
import copy
import json
import numbers
import random
import re
import signal
import threading
from concurrent.futures import ThreadPoolExecutor

import numpy as np

from vkit import tlc, tracecheck


FORMS = ("readonly", "column", "window", "negstride")
PRES = ("repeat", "reverse", "same-a", "same-b", "same-span", "fail")
T0S = (-4000.0, -1000.0, 86400.0, 1.0e6, 1.7e9)
# The scenarios added by the audit use trains of at least 60 events: on trains of 30..40 events with short or mixed gaps and
# several missing events the unchanged code now and then (1 in 10^3 .. 10^4) takes a wrong peak of the coarse correlation
# (reported as a finding of the audit; the boundary scenarios of the first version still go down to 30 events)
NMIN_NEW = 60
KNOWN_A_SEED = 28          # a seed on which the long-train finding shows with this generator (255 of 300 pairs)


def make_scenario(rng, pattern=None, N=None, linear=None, gapmode=None, special=None, nmiss=None, runs=None):
    """abstract scenario record (JSON-able); everything random is drawn here"""
    N = N or rng.randint(30, 300)
    sc = {"N": N, "gapmode": gapmode or rng.choice(["uniform", "short", "long", "mixed"]),
          "drift_ppm": rng.choice([rng.uniform(-100, 100), rng.choice([-100.0, 100.0, 0.0])]),
          "offset": rng.choice([rng.uniform(-300, 300), rng.uniform(-5, 5), rng.choice([-300.0, 300.0, 0.0])]),
          "jitter": rng.choice([0.0, 1e-4, rng.uniform(0, 1e-4)]), "linear": rng.random() < 0.5 if linear is None else linear,
          "indices": rng.random() < 0.85, "seed": rng.randint(0, 2 ** 31 - 1), "special": special or "", "t0": rng.uniform(0, 500)}
    if pattern is not None:
        # abstract positions 1..8 of TLC's pattern -> events of the long train (adjacency kept for 1-2-3, 4-5, 6-7-8)
        m = rng.randint(5, N - 6)
        pos = {1: 1, 2: 2, 3: 3, 4: m, 5: m + 1, 6: N - 2, 7: N - 1, 8: N}
        sc["missA"] = sorted(pos[p] for p in pattern["missA"])
        sc["missB"] = sorted(pos[p] for p in pattern["missB"])
        sc["pattern"] = [pattern["missA"], pattern["missB"]]
    elif runs is not None:
        # TLC's run pattern on 15 abstract events: 1..5 first five, 6..10 five consecutive interior events, 11..15 last five
        m = rng.randint(7, N - 11)
        pos = {**{i: i for i in range(1, 6)}, **{5 + i: m + i - 1 for i in range(1, 6)}, **{10 + i: N - 5 + i for i in range(1, 6)}}
        sc["missA"] = sorted(pos[p] for p in runs["missA"])
        sc["missB"] = sorted(pos[p] for p in runs["missB"])
        sc["runs"] = [runs["missA"], runs["missB"]]
    else:
        ka, kb = nmiss if nmiss else (rng.randint(0, 5), rng.randint(0, 5))
        sc["missA"] = sorted(rng.sample(range(1, N + 1), ka))
        sc["missB"] = sorted(rng.sample(range(1, N + 1), kb))
    return sc


def vary(sc, rng, i):
    """hand-over / history variant number i of a scenario (fields absent = the plain call of the first version)"""
    kinds = ["form", "call", "tbin", "t0", "pre", "post", "eval"]
    kind = kinds[i % len(kinds)]
    j = i // len(kinds)
    if kind == "form":
        sc["form"] = FORMS[j % len(FORMS)]
    elif kind == "call":
        sc["call"] = ("pos", "defaults")[j % 2]
        if sc["call"] == "defaults":
            sc["linear"] = bool(j // 2 % 2) and sc["linear"]
    elif kind == "tbin":
        sc["tbin"] = (0.08, 0.2)[j % 2]
        sc["call"] = ("kw", "pos")[j // 2 % 2]
    elif kind == "t0":
        sc["t0"], sc["t0_anchor"] = T0S[j % len(T0S)], True
    elif kind == "pre":
        sc["pre"] = PRES[j % len(PRES)]
        sc["indices"] = True
    elif kind == "post":
        sc["post"] = (["decoy", "scribble"], ["scribble"], ["decoy"])[j % 3]
        sc["form"] = ("", "window", "column")[j // 3 % 3]
    else:
        sc["eval"] = "scalar"
    # second, independent dimension on top (pairs of dimensions)
    if rng.random() < 0.5:
        k2 = rng.choice([k for k in kinds if k != kind])
        if k2 == "form" and "form" not in sc:
            sc["form"] = rng.choice(FORMS)
        elif k2 == "t0":
            sc["t0"], sc["t0_anchor"] = rng.choice(T0S), True
        elif k2 == "pre" and "pre" not in sc:
            sc["pre"] = rng.choice(PRES)
            sc["indices"] = True
        elif k2 == "post" and "post" not in sc:
            sc["post"] = ["decoy", "scribble"]
        elif k2 == "eval":
            sc["eval"] = "scalar"
        elif k2 == "call" and "call" not in sc:
            sc["call"] = "pos"
    sc["variant"] = kind
    return sc


# ---- defensive observation of what the real code hands back (robustness audit after round h) -------------------------------------
# Whatever sync_timestamps returns instead of (mapping, drift[, ia, ib]) as documented - None, a string, arrays of another shape or
# element type, an exception of any class, no return at all - is an observation of the clause `Returns` (recorded in rec["exc"], the
# trace spec turns it into "Returns:<what>"), never a failure of this harness's own arithmetic.
CALL_DEADLINE_S = 120      # one scenario (the judged call and the calls around it) takes milliseconds
MAX_HANGS = 3              # scenarios that may run into the deadline before the remaining ones are not started


class _Malformed(Exception):
    """a returned value is not of the kind the docstring promises"""
    def __init__(self, what):
        super().__init__(what)
        self.what = what


class _Hang(BaseException):
    """not an Exception: must pass through the `except Exception` clauses around the calls that are not judged"""


@contextlib.contextmanager
def _deadline(seconds):
    """bound the time the real code may take (a loop that never ends); only where signals can be delivered"""
    if not hasattr(signal, "setitimer") or threading.current_thread() is not threading.main_thread():
        yield
        return

    def on_alarm(signum, frame):
        raise _Hang()
    old = signal.signal(signal.SIGALRM, on_alarm)
    signal.setitimer(signal.ITIMER_REAL, seconds)
    try:
        yield
    finally:
        signal.setitimer(signal.ITIMER_REAL, 0)
        signal.signal(signal.SIGALRM, old)


def _real(x, what):
    """one real number (Python / NumPy real scalar, or an array holding exactly one); NaN and inf are numbers and are judged by the
    numeric clauses"""
    if x is None or isinstance(x, (bool, np.bool_, str, bytes)):
        raise _Malformed(what)
    if isinstance(x, numbers.Real):
        return float(x)
    try:
        a = np.asarray(x)
    except Exception:  # noqa
        raise _Malformed(what)
    if a.size != 1 or a.dtype.kind not in "fiu":
        raise _Malformed(what)
    return float(a.reshape(-1)[0])


def _index_vector(v, what):
    """a one-dimensional vector of integers (array, list or tuple)"""
    if v is None or isinstance(v, (str, bytes)):
        raise _Malformed(what)
    try:
        a = np.asarray(v)
    except Exception:  # noqa
        raise _Malformed(what)
    if a.ndim == 1 and a.size == 0:
        return []
    if a.ndim != 1 or a.dtype.kind not in "iu":
        raise _Malformed(what)
    return [int(x) for x in a]


def _eval_map(f, th, scalar):
    """the returned mapping at the held-out times: one real value per time"""
    if scalar:
        return np.array([_real(f(float(x)), "MalformedMapping") for x in th], dtype=float)
    r = f(th)
    try:
        out = np.asarray(r)
    except Exception as ex:  # noqa  ragged / unconvertible values
        raise _Malformed("MalformedMapping") from ex
    if out.shape != th.shape or out.dtype.kind not in "fiu":
        raise _Malformed("MalformedMapping")
    return out.astype(float)


def _hand_over(x, form, rng):
    """the series as the caller holds it: (array given to the function, buffer the caller owns)"""
    x = np.array(x, dtype=np.float64)
    if form == "readonly":
        x.flags.writeable = False
        return x, None
    if form == "column":          # first column of an events table (times, polarity): stride of two elements
        tab = np.column_stack([x, np.where(rng.random(x.size) < 0.5, -1.0, 1.0)])
        v = tab[:, 0]
        v.flags.writeable = False
        return v, tab
    if form == "window":          # a stretch of a longer buffer with other events before and after
        k0, k1 = int(rng.integers(1, 40)), int(rng.integers(1, 40))
        buf = np.concatenate([x[0] - np.cumsum(rng.uniform(0.5, 10, k0))[::-1], x, x[-1] + np.cumsum(rng.uniform(0.5, 10, k1))])
        return buf[k0:k0 + x.size], buf
    if form == "negstride":
        buf = x[::-1].copy()
        return buf[::-1], buf
    return x, x


def _call(fn, tsa, tsb, sc, indices, linear):
    style, tbin = sc.get("call", "kw"), sc.get("tbin")
    if style == "pos":
        return fn(tsa, tsb, 0.1 if tbin is None else tbin, indices, linear)
    kw = {} if tbin is None else {"tbin": tbin}
    if indices:
        kw["return_indices"] = True
    if not (style == "defaults" and not linear):
        kw["linear"] = linear
    return fn(tsa, tsb, **kw)


def _decoy(rng, na, nb, lo, hi):
    """another recording with the same series lengths and exactly the same overall first and last time (so every internal
    buffer of the call has the size it has for the judged call), other events, other clock map"""
    M = max(na, nb) + 2
    t = np.cumsum(rng.uniform(0.5, 10, M))
    da = np.sort(rng.choice(t, na, replace=False))
    db = np.sort(rng.choice(t, nb, replace=False)) * (1 + rng.uniform(-100, 100) * 1e-6) + rng.uniform(-3, 3)
    plo, phi = min(da[0], db[0]), max(da[-1], db[-1])
    da, db = lo + (da - plo) * (hi - lo) / (phi - plo), lo + (db - plo) * (hi - lo) / (phi - plo)
    (da if da[0] <= db[0] else db)[0] = lo
    (da if da[-1] >= db[-1] else db)[-1] = hi
    return da, db


def run_scenario(sc):
    """concretise and run the real code; returns the trace record"""
    from ibldsp.utils import sync_timestamps
    rng = np.random.default_rng(sc["seed"])
    N = sc["N"]
    nheld = max(3, N // 6)
    gm = sc["gapmode"]
    if gm == "uniform":
        gaps = rng.uniform(0.5, 10, N)
    elif gm == "short":
        gaps = rng.uniform(0.5, 1.0, N)
    elif gm == "long":
        gaps = rng.uniform(7, 10, N)
    elif gm == "rare-short":      # long gaps with an occasional short one (known finding: see KNOWN_FINDINGS.txt)
        gaps = np.where(rng.random(N) < 0.1, rng.uniform(0.5, 0.6, N), rng.uniform(9.5, 10, N))
    else:
        gaps = np.where(rng.random(N) < 0.5, rng.uniform(0.5, 0.7, N), rng.uniform(5, 10, N))
    for e in sc.get("plant", []):
        gaps[e] = 0.6               # event e + 1 (1-based) follows event e after 0.6 s: closer than a coarse tbin
    t = np.cumsum(gaps) + sc["t0"]
    # held-out events (shown to neither side): strictly inside gaps of the train
    k = rng.integers(0, N - 1, nheld)
    t_held = t[k] + (t[k + 1] - t[k]) * rng.uniform(0.2, 0.8, nheld)
    a, b = 1 + sc["drift_ppm"] * 1e-6, sc["offset"]
    if sc.get("t0_anchor"):
        # clocks that start far from zero: `offset` is the difference of the two clocks at the start of the recording (the
        # quantifier bounds it to minutes), not the intercept of the map at time zero
        b = sc["offset"] - sc["drift_ppm"] * 1e-6 * sc["t0"]
    jit = sc["jitter"]
    ja, jb = rng.uniform(-jit, jit, N), rng.uniform(-jit, jit, N)
    firsta, lasta = min(set(range(1, N + 1)) - set(sc["missA"])) - 1, max(set(range(1, N + 1)) - set(sc["missA"])) - 1
    firstb, lastb = min(set(range(1, N + 1)) - set(sc["missB"])) - 1, max(set(range(1, N + 1)) - set(sc["missB"])) - 1

    def series(tt):
        return tt + ja, tt * a + b + jb

    ta, tb = series(t)
    if sc["special"] == "integer-span":
        # the overall span tmax - tmin of what the function is given is a whole number of seconds (a multiple of the
        # model counterexample's span): the *true* last event is moved (the affine map and the jitter stay as they are)
        mult = sc.get("span_multiple_ms", 1000) / 1000.0
        for _ in range(3):
            lo = min(ta[firsta], tb[firstb])
            hi_b = tb[lastb] >= ta[lasta]
            span = (tb[lastb] if hi_b else ta[lasta]) - lo
            last = max(lasta, lastb) if lasta == lastb else (lastb if hi_b else lasta)
            t = t.copy()
            t[last:] += (np.ceil(span / mult) * mult - span) / (a if hi_b else 1.0)
            ta, tb = series(t)
        lo = min(ta[firsta], tb[firstb])
        hi_b = tb[lastb] >= ta[lasta]
        span = (tb[lastb] if hi_b else ta[lasta]) - lo
        fix = np.round(span / mult) * mult - span              # float residue, ~1e-13 s
        if hi_b:
            tb[lastb] += fix
        else:
            ta[lasta] += fix
    keepa = np.setdiff1d(np.arange(1, N + 1), sc["missA"]) - 1
    keepb = np.setdiff1d(np.arange(1, N + 1), sc["missB"]) - 1
    form, pre, post = sc.get("form", ""), sc.get("pre", ""), sc.get("post", [])
    if sc["special"] == "alias":
        # one array object for both series (drift 0, offset 0, nothing missing, no jitter)
        tsa, bufa = _hand_over(t, form, rng)
        tsb, bufb, a, b, jit = tsa, bufa, 1.0, 0.0, 0.0
    else:
        tsa, bufa = _hand_over(ta[keepa], form, rng)
        tsb, bufb = _hand_over(tb[keepb], form, rng)
    rec = {"n": N, "missA": list(sc["missA"]), "missB": list(sc["missB"]), "indices": bool(sc["indices"]), "ia": [], "ib": [],
           "matched": "bad", "drift": "bad", "exc": "", "scenario": sc, "map_err_ms": None, "drift_err_ppm": None}
    try:
        with _deadline(CALL_DEADLINE_S):
            # what the call finds: earlier calls in the same process (results dropped; whatever they do is not judged here)
            try:
                if pre == "repeat":
                    _call(sync_timestamps, tsa, tsb, sc, not sc["indices"], sc["linear"])
                elif pre == "reverse":
                    _call(sync_timestamps, tsb, tsa, sc, True, not sc["linear"])
                elif pre in ("same-a", "same-b"):
                    # a third clock C of the same events: other drift, other offset, other events missing
                    keepc = np.setdiff1d(np.arange(N), rng.choice(N, int(rng.integers(0, 6)), replace=False))
                    tc = (t * (1 + rng.uniform(-100, 100) * 1e-6) + rng.uniform(-300, 300) + rng.uniform(-jit, jit, N))[keepc]
                    if pre == "same-a":
                        _call(sync_timestamps, tsa, tc, sc, True, sc["linear"])
                    else:
                        _call(sync_timestamps, tc, tsb, sc, True, sc["linear"])
                elif pre == "same-span":
                    da, db = _decoy(rng, tsa.size, tsb.size, min(tsa.min(), tsb.min()), max(tsa.max(), tsb.max()))
                    _call(sync_timestamps, da, db, sc, True, sc["linear"])
                elif pre == "fail":
                    for bad in ((tsa, tsb[:0]), (tsa[:0], tsb), (tsa, np.full(tsb.size, np.nan))):
                        try:
                            _call(sync_timestamps, bad[0], bad[1], sc, True, sc["linear"])
                        except (Exception, SystemExit):  # noqa  outside the quantifier: only its after-effects matter
                            pass
            except (Exception, SystemExit):  # noqa  the earlier call is not the judged one
                pass
            # held-out events inside the span of the events both sides have
            both = np.intersect1d(keepa, keepb)
            lo, hi = t[both].min(), t[both].max()
            th = t_held[(t_held > lo) & (t_held < hi)]
            fth = None
            try:
                ret = _call(sync_timestamps, tsa, tsb, sc, bool(sc["indices"]), sc["linear"])
                try:
                    ret = tuple(ret)           # whatever unpacks like the documented tuple
                except TypeError as ex:
                    raise _Malformed("MalformedReturn") from ex
                if len(ret) != (4 if sc["indices"] else 2):
                    raise _Malformed("MalformedReturn")
                f, drift = ret[0], _real(ret[1], "MalformedDrift")
                if sc["indices"]:
                    ia, ib = ret[2], ret[3]
                    rec["ia"], rec["ib"] = _index_vector(ia, "MalformedIndices"), _index_vector(ib, "MalformedIndices")
                    _ = tsa[ia], tsb[ib]       # "indices for tsa and tsb": usable as such
                # what happens before the mapping is used: a later call on another recording, the caller reuses its arrays
                if "decoy" in post:
                    da, db = _decoy(rng, tsa.size, tsb.size, min(tsa.min(), tsb.min()), max(tsa.max(), tsb.max()))
                    try:
                        _call(sync_timestamps, da, db, sc, bool(sc["indices"]), sc["linear"])
                    except (Exception, SystemExit):  # noqa  the later call is not the judged one
                        pass
                if "scribble" in post:
                    for buf in (bufa, bufb):
                        if buf is not None and buf.flags.writeable:
                            buf[...] = rng.uniform(-1e3, 1e3, buf.shape)
                fth = _eval_map(f, th, sc.get("eval", "vector") == "scalar")
            except (Exception, SystemExit) as ex:  # noqa  the property says the call returns a mapping (a drift, index vectors)
                rec["exc"] = ex.what if isinstance(ex, _Malformed) else type(ex).__name__
            if not rec["exc"]:
                # the harness's own arithmetic, on values that are real numbers by now (NaN / inf fail the comparisons)
                err = float(np.max(np.abs(fth - (th * a + b)))) if th.size else 0.0
                rec["map_err_ms"] = round(err * 1e3, 4)
                rec["matched"] = "ok" if err <= 2e-3 else "bad"
                nb, T = both.size, hi - lo
                sig = np.sqrt(2) * (jit / np.sqrt(3)) * np.sqrt(12 / nb) / T * 1e6
                derr = abs(drift - (sc["drift_ppm"] if sc["special"] != "alias" else 0.0))
                rec["drift_err_ppm"] = round(derr, 4)
                rec["drift"] = "ok" if derr <= 5 + 10 * sig else "bad"
    except _Hang:
        # no return within the deadline (the judged call, or a call of the same function around it, does not end)
        rec["exc"], rec["matched"], rec["drift"] = "Timeout", "bad", "bad"
    return rec


def nstates(t):
    return 3


def _strip(t):
    return {k: v for k, v in t.items() if k not in ("scenario", "map_err_ms", "drift_err_ppm")}


def _validate(ctx, recs, label, jvms=3):
    # index vectors of different lengths: the first conjunct of WellFormedP (Len(ia) = Len(ib)) is false.  The trace spec pairs the
    # vectors element by element before it gets there (TLC stops with "out of bounds" when ia is the longer one), so this conjunct is
    # decided here and TLC is given the common prefix
    uneven = {i for i, t in enumerate(recs) if not t["exc"] and len(t["ia"]) != len(t["ib"])}
    traces = []
    for i, t in enumerate(recs):
        t = _strip(t)
        # TLC's integers have 32 bits: an index beyond them is clipped (it stays outside every series, as wrong as it was)
        t["ia"], t["ib"] = [max(-10 ** 9, min(10 ** 9, v)) for v in t["ia"]], [max(-10 ** 9, min(10 ** 9, v)) for v in t["ib"]]
        if i in uneven:
            m = min(len(t["ia"]), len(t["ib"]))
            t["ia"], t["ib"] = t["ia"][:m], t["ib"][:m]
        traces.append(t)
    out = tracecheck.validate(ctx, "trace/ClockSyncTrace.tla", "trace/ClockSyncTrace.cfg", traces,
                              label=label, jvms=jvms, workers=2, nstates=nstates, timeout=900)
    out = [v for v in out if v["index"] not in uneven] + [{"index": i, "prop": "WellFormed", "impl": "", "pos": 0} for i in uneven]
    return sorted(out, key=lambda v: v["index"])


def _describe(t):
    s = t["scenario"]
    return (f"sync_timestamps(N={s['N']}, missing A={s['missA']} B={s['missB']}, gaps={s['gapmode']}, drift={s['drift_ppm']:.1f} ppm, "
            f"offset={s['offset']:.2f} s, jitter={s['jitter']:.1e}, linear={s['linear']}, {s['special'] or 'plain'}, t0={s['t0']:.6g}, "
            f"{_handover(s)}seed={s['seed']}): "
            f"{len(t['ia'])} pairs, map error {t['map_err_ms']} ms, drift error {t['drift_err_ppm']} ppm {t['exc']}")


def _handover(s):
    """the non-default ways of handing over / calling / ordering calls of a scenario, for the report line"""
    bits = [f"{k}={s[k]}" for k in ("form", "call", "tbin", "pre", "post", "eval") if s.get(k)]
    return (", ".join(bits) + ", ") if bits else ""


def _key(prop, t):
    head = prop.split(":")[0].lower()
    sc = t["scenario"]
    if head == "returns":
        return "sync:raises" + (":" + sc["special"] if sc["special"] else "")
    # scenario classes in which the unchanged estimator is known to fail now and then (KNOWN_FINDINGS.txt): the coarse
    # correlation of a short train that lost a third of its events can peak at a wrong offset; in interpolating mode a long
    # train of long gaps with an occasional short one loses its last events
    if sc["N"] < 45 and len(sc["missA"]) + len(sc["missB"]) >= 6:
        return "sync:" + head + ":short-train-many-missing"
    if sc["gapmode"] == "rare-short" and not sc["linear"] and sc["N"] >= 250:
        return "sync:" + head + ":long-train-rare-short-gaps"
    return "sync:" + head


def run_model(ctx):
    out = ctx.scratch / "clock_cases.json"
    tier = "quick" if ctx.quick else "thorough"
    jobs = [(f"mc/ClockSync_{tier}.cfg", {"OUT_FILE": str(out)}), ("mc/ClockSyncBins_fixed.cfg", {}), ("mc/ClockSyncBins_orig.cfg", {})]
    with ThreadPoolExecutor(3) as ex:
        res = list(ex.map(lambda j: tlc.run("mc/MC_ClockSync.tla", j[0], workers=2, timeout=1200, env=j[1]), jobs))
    cex_span = None
    for (cfg, _), r in zip(jobs, res):
        ctx.tlc(r, cfg)
        if cfg.endswith("_orig.cfg"):
            m = re.search(r"span = (\d+)", r.out)
            if r.ok or r.invariant_violated != "Binned" or not m:
                raise tlc.TLCError(f"{cfg}: the pre-fix model is expected to violate Binned, TLC says {r.invariant_violated}")
            cex_span = int(m.group(1))
            continue
        if not r.ok:
            raise tlc.TLCError(f"{cfg}: TLC reports {r.invariant_violated or 'an error'}\n{r.out[-2500:]}")
    return json.loads(out.read_text()), cex_span


def plan(ctx, patterns, runs=()):
    rng = random.Random(ctx.seed)
    pats = sorted(patterns, key=lambda p: (len(p["missA"]) + len(p["missB"]), p["missA"], p["missB"]))
    if ctx.quick:
        small = [p for p in pats if len(p["missA"]) + len(p["missB"]) <= 1]
        rest = [p for p in pats if p not in small]
        pats = small + rng.sample(rest, 700)
    scs = []
    for i, p in enumerate(pats):
        scs.append(make_scenario(rng, pattern=p, linear=bool(i % 2)))
    nrand = 600 if ctx.quick else 12000
    for i in range(nrand):
        scs.append(make_scenario(rng))
    # boundaries of the quantifier: shortest / longest trains, 5 missing on each side, extreme drift and offset
    for N in (30, 31, 300):
        for lin in (False, True):
            for gm in ("short", "long"):
                scs.append(make_scenario(rng, N=N, linear=lin, gapmode=gm, nmiss=(5, 5)))
    # trains whose overall span is a whole number of seconds
    nspec = 12 if ctx.quick else 120
    for i in range(nspec):
        scs.append(make_scenario(rng, special="integer-span", N=rng.randint(30, 80)))
    # --- audit after round e: own random stream, so that the scenarios above are those of the first version
    rng = random.Random(ctx.seed * 7919 + 19)
    # runs of up to five consecutive deletions at the start / inside / at the end (TLC's run patterns)
    runs = sorted(runs, key=lambda p: (p["missA"], p["missB"]))
    full = [p for p in runs if {len(p["missA"]), len(p["missB"])} <= {0, 5} and (p["missA"] or p["missB"])]
    if ctx.quick:
        runs = full + rng.sample([p for p in runs if p not in full], 30)
    for i, p in enumerate(runs):
        scs.append(make_scenario(rng, runs=p, linear=bool(i % 2), N=rng.choice([NMIN_NEW, NMIN_NEW + 1, rng.randint(NMIN_NEW, 300)])))
        scs[-1]["indices"] = True
    # how the series are handed over, how the function is called, and what happened before / happens after the call
    nvar = 147 if ctx.quick else 2520
    for i in range(nvar):
        sc = make_scenario(rng, N=rng.randint(NMIN_NEW, 300)) if i % 3 else \
            make_scenario(rng, N=rng.randint(200, 300), gapmode=rng.choice(["long", "uniform"]))
        if i % 3 == 0:
            sc["drift_ppm"] = rng.choice([-100.0, 100.0, rng.uniform(-100, 100)])
        scs.append(vary(sc, rng, i))
    # a coarse tbin (1 s, longer than a gap of the train): an event missing from A whose successor follows after 0.6 s - two
    # candidates of B lie within one bin of it, the nearer one is the true partner
    for i in range(14 if ctx.quick else 300):
        N = rng.randint(NMIN_NEW, 300)
        es = sorted(rng.sample(range(5, N - 5), 3))
        sc = make_scenario(rng, N=N, linear=bool(i % 2), gapmode="long")
        sc.update({"drift_ppm": rng.uniform(-50, 50), "offset": rng.uniform(-60, 60), "missA": es, "missB": [], "tbin": 1.0,
                   "plant": [es[i % 3]], "indices": True})
        scs.append(sc)
    # one array object given as both series, in every storage form
    for i, form in enumerate(("",) + FORMS if ctx.quick else (("",) + FORMS) * 4):
        sc = make_scenario(rng, special="alias", nmiss=(0, 0), linear=bool(i % 2), N=rng.randint(NMIN_NEW, 300))
        sc.update({"form": form, "drift_ppm": 0.0, "offset": 0.0, "jitter": 0.0, "indices": True})
        scs.append(sc)
    return scs


def report(ctx, recs, verdicts):
    for v in verdicts:
        t = recs[v["index"]]
        if v["prop"]:
            ctx.violation(_key(v["prop"], t), f"property-layer clause {v['prop']} false: {_describe(t)}", {"scenario": t["scenario"]})
        elif v["impl"]:
            ctx.spec_drift(f"{v['impl']}: {_describe(t)}")


def run(ctx):
    ctx.level = "exploration"   # TLA+ decides bookkeeping + bin arithmetic only (DESIGN §4 C19)
    cases, cex_span = run_model(ctx)
    scs = plan(ctx, cases["patterns"], cases["runs"])
    # the counterexample of the pre-fix binning model, on the real code: a train whose span is cex_span ms
    cex = make_scenario(random.Random(ctx.seed + 7), special="integer-span", N=30, gapmode="short")
    cex["span_multiple_ms"] = cex_span
    scs.append(cex)
    # the two known findings, each on the input it was found with (printed as KNOWN-FINDING, see KNOWN_FINDINGS.txt)
    scs.append({"N": 30, "gapmode": "short", "drift_ppm": 100.0, "offset": -4.282438818823914, "jitter": 0.0, "linear": False,
                "indices": True, "seed": 960557044, "special": "", "t0": 239.05073449693666, "missA": [7, 12, 21, 27, 28],
                "missB": [2, 5, 11, 16, 28]})
    scs.append({"N": 300, "gapmode": "rare-short", "drift_ppm": -100.0, "offset": -3.5, "jitter": 1e-4, "linear": False,
                "indices": True, "seed": KNOWN_A_SEED, "special": "", "t0": 100.0, "missA": [], "missB": []})
    recs, hangs = [], 0
    for sc in scs:
        recs.append(run_scenario(sc))
        hangs += recs[-1]["exc"] == "Timeout"
        if hangs >= MAX_HANGS:
            ctx.log(f"[C19] {hangs} scenarios ran into the deadline of {CALL_DEADLINE_S} s: the remaining {len(scs) - len(recs)} are not started")
            break
    for t in recs:
        s = t["scenario"]
        ctx.count(1, key=(s["N"], tuple(s["missA"]), tuple(s["missB"]), s["seed"], s.get("form", ""), s.get("pre", ""),
                          s.get("call", ""), s.get("tbin"), tuple(s.get("post", [])), s.get("eval", "")))
    verdicts = _validate(ctx, recs, "clocksync")
    report(ctx, recs, verdicts)
    ok = [t for t in recs if not t["exc"]]
    ctx.cov["map_error_ms_worst"] = max(t["map_err_ms"] for t in ok) if ok else None
    ctx.cov["drift_error_ppm_worst"] = max(t["drift_err_ppm"] for t in ok) if ok else None
    ctx.cov["patterns_from_tlc"] = len(cases["patterns"])
    ctx.cov["run_patterns_from_tlc"] = len(cases["runs"])
    for dim in ("form", "call", "tbin", "pre", "eval"):
        ctx.cov["calls_by_" + dim] = {str(v): sum(1 for t in recs if t["scenario"].get(dim) == v)
                                      for v in sorted({t["scenario"].get(dim) for t in recs if t["scenario"].get(dim)}, key=str)}
    ctx.cov["calls_mapping_used_late"] = sum(1 for t in recs if t["scenario"].get("post"))
    ctx.cov["calls_clock_origin_far"] = sum(1 for t in recs if t["scenario"]["t0"] in T0S)
    for t in recs[:2] + recs[-2:]:
        ctx.sample({k: v for k, v in t.items() if k not in ("ia", "ib")})
    selftest(ctx, recs, {v["index"] for v in verdicts})
    ctx.cov["rule"] = ("model: all (MissA, MissB) with <= MaxMiss deletions per side on trains of <= MaxN events; all spans 1..30000 ms; "
                       "experiments: one sync_timestamps call per (deletion pattern mapped onto a 30..300-event train | random 0..5 "
                       "deletions per side | TLC's runs of <= 5 consecutive deletions at the start / inside / at the end) x gap class x drift "
                       "x offset x jitter x mode x seed; variants: storage form of the arrays x call style x tbin x clock origin x "
                       "earlier calls (same objects / third clock / same span / raising) x later call and overwritten caller arrays "
                       "before the mapping is used x scalar evaluation")
    ctx.cov["exhaustive"] = False
    ctx.cov["numeric_postconditions"] = ("Matched (<= 2 ms at held-out events inside the matched span) and Drift (<= 5 ppm + 10 sigma): "
                                         "measured on the returned mapping, not decided by TLC")
    ctx.assumptions += ["the estimator itself is not modelled: TLA+ provides the bookkeeping oracle, the deletion patterns and the "
                        "binning arithmetic only", "held-out events are evaluated inside the span of the events both series contain"]


def selftest(ctx, recs, bad):
    keep = ctx.cov["traces_validated_against_impl"]
    cands = [copy.deepcopy(t) for i, t in enumerate(recs) if i not in bad and t["indices"] and len(t["ia"]) > 20 and not t["exc"]]
    if len(cands) < 6:
        if not ctx.violations:
            raise tlc.TLCError("selftest: not enough accepted records")
        return
    mut = []
    t = cands[0]; t["ib"][3], t["ib"][4] = t["ib"][4], t["ib"][3]; mut.append(t)            # two partners swapped
    t = cands[1]; t["ib"][5] = t["ib"][5] + 1 if t["ib"][5] + 1 not in t["ib"] else t["ib"][5] - 1; mut.append(t)   # off by one
    t = cands[2]; k = len(t["ia"]) // 10 + 2; t["ia"], t["ib"] = t["ia"][k:], t["ib"][k:]; mut.append(t)          # > 5 % dropped
    t = cands[3]; t["matched"] = "bad"; mut.append(t)
    t = cands[4]; t["drift"] = "bad"; mut.append(t)
    t = cands[5]; t["missA"] = sorted(set(t["missA"]) ^ {t["n"] // 2}); t["ia"] = t["ia"][:len(t["ia"])]; mut.append(t)  # a deletion not recorded
    v = _validate(ctx, mut, "selftest", jvms=1)
    ctx.cov["traces_validated_against_impl"] = keep
    flagged = {x["index"] for x in v if x["prop"]}
    if len(flagged) != len(mut):
        raise tlc.TLCError(f"binding self-test: corrupted records not rejected: {sorted(set(range(len(mut))) - flagged)}")
    ctx.cov["selftest_corrupted_records_rejected"] = len(flagged)


def replay(ctx, sc):
    recs = [run_scenario(sc["scenario"])]
    report(ctx, recs, _validate(ctx, recs, "replay", jvms=1))
