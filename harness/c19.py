"""C19 - clock synchronisation recovers the affine map and only true event pairs.

Honest scope (DESIGN 4/C19): the estimator is numeric.  TLA+ contributes
  * the ground-truth bookkeeping (spec/lib/ClockSync.tla): which (index in A, index in B) pairs are true
    correspondences when events are missing on either side; TLC checks it for consistency on all deletion patterns
    of a small train and exports the patterns (first / last / adjacent / same event on both sides ...) that the
    harness maps onto long trains;
  * the integer structure of the binning for the coarse cross-correlation (every event has a bin), checked for all
    spans in ms; the pre-fix variant of the model must fail (it does at every span that is a whole number of seconds).
Binding: every call of the real sync_timestamps is recorded (deletions, returned index vectors, classes) and validated
by spec/trace/ClockSyncTrace.tla, where Sound / Complete are evaluated against the truth recomputed by the spec.

Decided by projection on the real output, NOT by TLC: Matched (max |f(t) - true map| at held-out events inside the
matched span <= 2 ms) and Drift (|reported - true| <= 5 ppm + 10 sigma of a straight-line fit with the given jitter).
"""
import copy
import json
import random
import re
from concurrent.futures import ThreadPoolExecutor

import numpy as np

from vkit import tlc, tracecheck


def make_scenario(rng, pattern=None, N=None, linear=None, gapmode=None, special=None, nmiss=None):
    """abstract scenario record (JSON-able); everything random is drawn here"""
    N = N or rng.randint(30, 300)
    sc = {"N": N, "gapmode": gapmode or rng.choice(["uniform", "short", "long", "mixed"]),
          "drift_ppm": rng.choice([rng.uniform(-100, 100), rng.choice([-100.0, 100.0, 0.0])]),
          "offset": rng.choice([rng.uniform(-300, 300), rng.uniform(-5, 5), rng.choice([-300.0, 300.0, 0.0])]),
          "jitter": rng.choice([0.0, 1e-4, rng.uniform(0, 1e-4)]), "linear": rng.random() < 0.5 if linear is None else linear,
          "indices": rng.random() < 0.85, "seed": rng.randint(0, 2 ** 31 - 1), "special": special or "", "t0": rng.uniform(0, 500)}
    if pattern is not None:
        # abstract positions 1..8 of TLC's pattern -> events of the long train (adjacency kept for 1-2-3, 4-5, 6-7-8)
        m = rng.randint(5, N - 6)
        pos = {1: 1, 2: 2, 3: 3, 4: m, 5: m + 1, 6: N - 2, 7: N - 1, 8: N}
        sc["missA"] = sorted(pos[p] for p in pattern["missA"])
        sc["missB"] = sorted(pos[p] for p in pattern["missB"])
        sc["pattern"] = [pattern["missA"], pattern["missB"]]
    else:
        ka, kb = nmiss if nmiss else (rng.randint(0, 5), rng.randint(0, 5))
        sc["missA"] = sorted(rng.sample(range(1, N + 1), ka))
        sc["missB"] = sorted(rng.sample(range(1, N + 1), kb))
    return sc


def run_scenario(sc):
    """concretise and run the real code; returns the trace record"""
    from ibldsp.utils import sync_timestamps
    rng = np.random.default_rng(sc["seed"])
    N = sc["N"]
    nheld = max(3, N // 6)
    gm = sc["gapmode"]
    if gm == "uniform":
        gaps = rng.uniform(0.5, 10, N)
    elif gm == "short":
        gaps = rng.uniform(0.5, 1.0, N)
    elif gm == "long":
        gaps = rng.uniform(7, 10, N)
    else:
        gaps = np.where(rng.random(N) < 0.5, rng.uniform(0.5, 0.7, N), rng.uniform(5, 10, N))
    t = np.cumsum(gaps) + sc["t0"]
    # held-out events (shown to neither side): strictly inside gaps of the train
    k = rng.integers(0, N - 1, nheld)
    t_held = t[k] + (t[k + 1] - t[k]) * rng.uniform(0.2, 0.8, nheld)
    a, b = 1 + sc["drift_ppm"] * 1e-6, sc["offset"]
    jit = sc["jitter"]
    ja, jb = rng.uniform(-jit, jit, N), rng.uniform(-jit, jit, N)
    firsta, lasta = min(set(range(1, N + 1)) - set(sc["missA"])) - 1, max(set(range(1, N + 1)) - set(sc["missA"])) - 1
    firstb, lastb = min(set(range(1, N + 1)) - set(sc["missB"])) - 1, max(set(range(1, N + 1)) - set(sc["missB"])) - 1

    def series(tt):
        return tt + ja, tt * a + b + jb

    ta, tb = series(t)
    if sc["special"] == "integer-span":
        # the overall span tmax - tmin of what the function is given is a whole number of seconds (a multiple of the
        # model counterexample's span): the *true* last event is moved (the affine map and the jitter stay as they are)
        mult = sc.get("span_multiple_ms", 1000) / 1000.0
        for _ in range(3):
            lo = min(ta[firsta], tb[firstb])
            hi_b = tb[lastb] >= ta[lasta]
            span = (tb[lastb] if hi_b else ta[lasta]) - lo
            last = max(lasta, lastb) if lasta == lastb else (lastb if hi_b else lasta)
            t = t.copy()
            t[last:] += (np.ceil(span / mult) * mult - span) / (a if hi_b else 1.0)
            ta, tb = series(t)
        lo = min(ta[firsta], tb[firstb])
        hi_b = tb[lastb] >= ta[lasta]
        span = (tb[lastb] if hi_b else ta[lasta]) - lo
        fix = np.round(span / mult) * mult - span              # float residue, ~1e-13 s
        if hi_b:
            tb[lastb] += fix
        else:
            ta[lasta] += fix
    keepa = np.setdiff1d(np.arange(1, N + 1), sc["missA"]) - 1
    keepb = np.setdiff1d(np.arange(1, N + 1), sc["missB"]) - 1
    tsa, tsb = ta[keepa], tb[keepb]
    rec = {"n": N, "missA": list(sc["missA"]), "missB": list(sc["missB"]), "indices": bool(sc["indices"]), "ia": [], "ib": [],
           "matched": "bad", "drift": "bad", "exc": "", "scenario": sc, "map_err_ms": None, "drift_err_ppm": None}
    try:
        if sc["indices"]:
            f, drift, ia, ib = sync_timestamps(tsa, tsb, return_indices=True, linear=sc["linear"])
            rec["ia"], rec["ib"] = [int(x) for x in ia], [int(x) for x in ib]
        else:
            f, drift = sync_timestamps(tsa, tsb, linear=sc["linear"])
        # held-out events inside the span of the events both sides have
        both = np.intersect1d(keepa, keepb)
        lo, hi = t[both].min(), t[both].max()
        th = t_held[(t_held > lo) & (t_held < hi)]
        err = float(np.max(np.abs(np.asarray(f(th)) - (th * a + b)))) if th.size else 0.0
        rec["map_err_ms"] = round(err * 1e3, 4)
        rec["matched"] = "ok" if err <= 2e-3 else "bad"
        nb, T = both.size, hi - lo
        sig = np.sqrt(2) * (jit / np.sqrt(3)) * np.sqrt(12 / nb) / T * 1e6
        derr = abs(float(drift) - sc["drift_ppm"])
        rec["drift_err_ppm"] = round(derr, 4)
        rec["drift"] = "ok" if derr <= 5 + 10 * sig else "bad"
    except Exception as ex:  # noqa  the property says the call returns a mapping
        rec["exc"] = type(ex).__name__
    return rec


def nstates(t):
    return 3


def _strip(t):
    return {k: v for k, v in t.items() if k not in ("scenario", "map_err_ms", "drift_err_ppm")}


def _validate(ctx, recs, label, jvms=3):
    return tracecheck.validate(ctx, "trace/ClockSyncTrace.tla", "trace/ClockSyncTrace.cfg", [_strip(t) for t in recs],
                               label=label, jvms=jvms, workers=2, nstates=nstates, timeout=900)


def _describe(t):
    s = t["scenario"]
    return (f"sync_timestamps(N={s['N']}, missing A={s['missA']} B={s['missB']}, gaps={s['gapmode']}, drift={s['drift_ppm']:.1f} ppm, "
            f"offset={s['offset']:.2f} s, jitter={s['jitter']:.1e}, linear={s['linear']}, {s['special'] or 'plain'}, seed={s['seed']}): "
            f"{len(t['ia'])} pairs, map error {t['map_err_ms']} ms, drift error {t['drift_err_ppm']} ppm {t['exc']}")


def _key(prop, t):
    head = prop.split(":")[0].lower()
    if head == "returns":
        return "sync:raises" + (":" + t["scenario"]["special"] if t["scenario"]["special"] else "")
    return "sync:" + head


def run_model(ctx):
    out = ctx.scratch / "clock_cases.json"
    tier = "quick" if ctx.quick else "thorough"
    jobs = [(f"mc/ClockSync_{tier}.cfg", {"OUT_FILE": str(out)}), ("mc/ClockSyncBins_fixed.cfg", {}), ("mc/ClockSyncBins_orig.cfg", {})]
    with ThreadPoolExecutor(3) as ex:
        res = list(ex.map(lambda j: tlc.run("mc/MC_ClockSync.tla", j[0], workers=2, timeout=1200, env=j[1]), jobs))
    cex_span = None
    for (cfg, _), r in zip(jobs, res):
        ctx.tlc(r, cfg)
        if cfg.endswith("_orig.cfg"):
            m = re.search(r"span = (\d+)", r.out)
            if r.ok or r.invariant_violated != "Binned" or not m:
                raise tlc.TLCError(f"{cfg}: the pre-fix model is expected to violate Binned, TLC says {r.invariant_violated}")
            cex_span = int(m.group(1))
            continue
        if not r.ok:
            raise tlc.TLCError(f"{cfg}: TLC reports {r.invariant_violated or 'an error'}\n{r.out[-2500:]}")
    return json.loads(out.read_text()), cex_span


def plan(ctx, patterns):
    rng = random.Random(ctx.seed)
    pats = sorted(patterns, key=lambda p: (len(p["missA"]) + len(p["missB"]), p["missA"], p["missB"]))
    if ctx.quick:
        small = [p for p in pats if len(p["missA"]) + len(p["missB"]) <= 1]
        rest = [p for p in pats if p not in small]
        pats = small + rng.sample(rest, 700)
    scs = []
    for i, p in enumerate(pats):
        scs.append(make_scenario(rng, pattern=p, linear=bool(i % 2)))
    nrand = 600 if ctx.quick else 12000
    for i in range(nrand):
        scs.append(make_scenario(rng))
    # boundaries of the quantifier: shortest / longest trains, 5 missing on each side, extreme drift and offset
    for N in (30, 31, 300):
        for lin in (False, True):
            for gm in ("short", "long"):
                scs.append(make_scenario(rng, N=N, linear=lin, gapmode=gm, nmiss=(5, 5)))
    # trains whose overall span is a whole number of seconds
    nspec = 12 if ctx.quick else 120
    for i in range(nspec):
        scs.append(make_scenario(rng, special="integer-span", N=rng.randint(30, 80)))
    return scs


def report(ctx, recs, verdicts):
    for v in verdicts:
        t = recs[v["index"]]
        if v["prop"]:
            ctx.violation(_key(v["prop"], t), f"property-layer clause {v['prop']} false: {_describe(t)}", {"scenario": t["scenario"]})
        elif v["impl"]:
            ctx.spec_drift(f"{v['impl']}: {_describe(t)}")


def run(ctx):
    ctx.level = "exploration"   # TLA+ decides bookkeeping + bin arithmetic only (DESIGN §4 C19)
    cases, cex_span = run_model(ctx)
    scs = plan(ctx, cases["patterns"])
    # the counterexample of the pre-fix binning model, on the real code: a train whose span is cex_span ms
    cex = make_scenario(random.Random(ctx.seed + 7), special="integer-span", N=30, gapmode="short")
    cex["span_multiple_ms"] = cex_span
    scs.append(cex)
    recs = [run_scenario(sc) for sc in scs]
    for t in recs:
        s = t["scenario"]
        ctx.count(1, key=(s["N"], tuple(s["missA"]), tuple(s["missB"]), s["seed"]))
    verdicts = _validate(ctx, recs, "clocksync")
    report(ctx, recs, verdicts)
    ok = [t for t in recs if not t["exc"]]
    ctx.cov["map_error_ms_worst"] = max(t["map_err_ms"] for t in ok) if ok else None
    ctx.cov["drift_error_ppm_worst"] = max(t["drift_err_ppm"] for t in ok) if ok else None
    ctx.cov["patterns_from_tlc"] = len(cases["patterns"])
    for t in recs[:2] + recs[-2:]:
        ctx.sample({k: v for k, v in t.items() if k not in ("ia", "ib")})
    selftest(ctx, recs, {v["index"] for v in verdicts})
    ctx.cov["rule"] = ("model: all (MissA, MissB) with <= MaxMiss deletions per side on trains of <= MaxN events; all spans 1..30000 ms; "
                       "experiments: one sync_timestamps call per (deletion pattern mapped onto a 30..300-event train | random 0..5 "
                       "deletions per side) x gap class x drift x offset x jitter x mode x seed")
    ctx.cov["exhaustive"] = False
    ctx.cov["numeric_postconditions"] = ("Matched (<= 2 ms at held-out events inside the matched span) and Drift (<= 5 ppm + 10 sigma): "
                                         "measured on the returned mapping, not decided by TLC")
    ctx.assumptions += ["the estimator itself is not modelled: TLA+ provides the bookkeeping oracle, the deletion patterns and the "
                        "binning arithmetic only", "held-out events are evaluated inside the span of the events both series contain"]


def selftest(ctx, recs, bad):
    keep = ctx.cov["traces_validated_against_impl"]
    cands = [copy.deepcopy(t) for i, t in enumerate(recs) if i not in bad and t["indices"] and len(t["ia"]) > 20 and not t["exc"]]
    if len(cands) < 6:
        if not ctx.violations:
            raise tlc.TLCError("selftest: not enough accepted records")
        return
    mut = []
    t = cands[0]; t["ib"][3], t["ib"][4] = t["ib"][4], t["ib"][3]; mut.append(t)            # two partners swapped
    t = cands[1]; t["ib"][5] = t["ib"][5] + 1 if t["ib"][5] + 1 not in t["ib"] else t["ib"][5] - 1; mut.append(t)   # off by one
    t = cands[2]; k = len(t["ia"]) // 10 + 2; t["ia"], t["ib"] = t["ia"][k:], t["ib"][k:]; mut.append(t)          # > 5 % dropped
    t = cands[3]; t["matched"] = "bad"; mut.append(t)
    t = cands[4]; t["drift"] = "bad"; mut.append(t)
    t = cands[5]; t["missA"] = sorted(set(t["missA"]) ^ {t["n"] // 2}); t["ia"] = t["ia"][:len(t["ia"])]; mut.append(t)  # a deletion not recorded
    v = _validate(ctx, mut, "selftest", jvms=1)
    ctx.cov["traces_validated_against_impl"] = keep
    flagged = {x["index"] for x in v if x["prop"]}
    if len(flagged) != len(mut):
        raise tlc.TLCError(f"binding self-test: corrupted records not rejected: {sorted(set(range(len(mut))) - flagged)}")
    ctx.cov["selftest_corrupted_records_rejected"] = len(flagged)


def replay(ctx, sc):
    recs = [run_scenario(sc["scenario"])]
    report(ctx, recs, _validate(ctx, recs, "replay", jvms=1))
