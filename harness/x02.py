"""X02 - resample_denoise_lfp_cbin (ibldsp.voltage): the LFP down-sampling loop, a third client of the window generator.

Not one of the listed properties (DESIGN.md section 6 / 9.5): there is no given property, the property layer of
spec/sys/LfpResample.tla is taken from the function's docstring.  Verdict roles as in X01:
  * the real code differs from what the implementation layer (a transcription of the code) expects  -> VIOLATION
    (the code changed);
  * a docstring clause (Uniform grid / Monotone time / Complete) that the *unchanged* code contradicts is a deviation
    class of the model (`Clause \\/ DevSeam`), confirmed on the real code and printed as an OBSERVATION, never failed.

1. TLC: the state machine (Windows + the code's first_valid / last_valid arithmetic) over the code's hard-wired window
   65536 / overlap 1024, lengths around 1-4 windows and whole strides, resampling factors 1..1000 (quick 21, thorough 82
   factors), and a scaled-down family (window = 64 x overlap) over every length 1..700; invariants: the generator's own
   (InRange / Cover / Overlap / Count), Counter, ClosedForm, and Monotone / Uniform / Complete up to the deviation class;
   vacuity: the deviation must occur (NoSeamJump, NoBackward violated).
2. spec -> code: TLC exports, per (length, factor), the segments of input-sample indices the output file must hold; the
   real function is run on synthetic LF recordings whose data encode the sample index, with the three numeric stages
   (band-pass, destriping, FIR decimation) replaced by their index skeleton "keep every F-th row" (identity filters);
   the tokens are read off the real output file.  One run with the real numeric stages checks the row count only.
3. code -> spec: the tuple the function prints per window + the rows it wrote, validated by spec/trace/LfpResampleTrace.tla.
"""
import contextlib
import io
import json
import random
from pathlib import Path

import numpy as np

from vkit import metagen, tlc, tracecheck

W, OV = 65536, 1024
TRACE = ("trace/LfpResampleTrace.tla", "trace/LfpResampleTrace.cfg")


def make_lf(folder, ns, nc_data=3, rng=None, real=False):
    """LF recording whose first three channels spell the sample index in base 256 (int16 holds 0..255 exactly)"""
    sites = metagen.dense_sites("3B2", n=nc_data)
    txt, info = metagen.make_meta("3B2", sites, stream="lf", ns=ns, gains=[(500, 250)] * nc_data)
    idx = np.arange(ns)
    d = np.zeros((ns, nc_data + 1), dtype=np.int16)
    if real:
        d[:, :nc_data] = rng.integers(-400, 400, (ns, nc_data))
    else:
        d[:, 0], d[:, 1], d[:, 2] = idx % 256, (idx // 256) % 256, idx // 65536
    d[:, -1] = (idx % 2) * 64
    b = metagen.write_recording(folder, "rec_g0_t0.imec0", txt, d, suffix=".lf")
    return Path(b)


@contextlib.contextmanager
def skeleton():
    """the numeric stages replaced by identities / plain subsampling (module attributes, restored afterwards)"""
    import scipy.signal
    import ibldsp.voltage as V
    saved = (scipy.signal.sosfiltfilt, scipy.signal.decimate, V.destripe_lfp, V.detect_bad_channels_cbin)
    scipy.signal.sosfiltfilt = lambda sos, x, axis=-1, **k: np.asarray(x)
    scipy.signal.decimate = lambda x, q, n=None, ftype="iir", axis=-1, zero_phase=True: np.take(x, np.arange(0, x.shape[axis], q), axis=axis)
    V.destripe_lfp = lambda x, fs, **k: np.asarray(x)
    V.detect_bad_channels_cbin = lambda f, **k: np.zeros(3)
    try:
        yield
    finally:
        scipy.signal.sosfiltfilt, scipy.signal.decimate, V.destripe_lfp, V.detect_bad_channels_cbin = saved


def segments(tok, F):
    """token list -> [[first token, rows]] with stride F inside a segment"""
    segs = []
    for t in tok:
        if segs and t == segs[-1][0] + F * segs[-1][1]:
            segs[-1][1] += 1
        else:
            segs.append([int(t), 1])
    return segs


def real_run(folder, ns, F, skel=True, rng=None):
    """-> trace record of one real call"""
    import spikeglx
    import ibldsp.voltage as V
    lf = make_lf(folder, ns, rng=rng, real=not skel, nc_data=3 if skel else 384)
    out = Path(folder) / "lf_resampled.bin"
    buf = io.StringIO()
    exc = ""
    try:
        with contextlib.redirect_stdout(buf):
            if skel:
                with skeleton():
                    V.resample_denoise_lfp_cbin(lf, RESAMPLE_FACTOR=F, output=out)
            else:
                V.resample_denoise_lfp_cbin(lf, RESAMPLE_FACTOR=F, output=out)
    except Exception as e:  # noqa
        exc = f"{type(e).__name__}: {e}"
    rec = {"ns": ns, "w": W, "ov": OV, "f": F, "exc": exc, "wins": [], "file": [], "nwin": 0, "rows_in_file": -1}
    if exc:
        return rec
    sr = spikeglx.Reader(lf)
    s2v = np.asarray(sr.sample2volts[:3], dtype=np.float64)
    sr.close()
    ncd = 3 if skel else 384
    a = np.fromfile(out, dtype=np.float32)
    rec["rows_in_file"] = int(a.size // ncd) if a.size % ncd == 0 else -2
    lines = [[int(float(x)) for x in ln.split()] for ln in buf.getvalue().splitlines() if ln.strip()]
    if skel and rec["rows_in_file"] >= 0:
        dig = np.rint(a.reshape(-1, 3).astype(np.float64) / s2v).astype(np.int64)
        tok = dig[:, 0] + 256 * dig[:, 1] + 65536 * dig[:, 2]
        c0 = 0
        for ln in lines:
            first, last, _, fv, lv, c = ln
            rows = tok[c0:c].tolist()
            seg = segments(rows, F)
            rec["wins"].append({"first": first, "last": last, "fv": fv, "lv": lv, "c": c,
                                "seg": seg[0] if len(seg) == 1 else ([first + F * fv, 0] if not seg else [-1, len(rows)])})
            c0 = c
        # the file as a whole, cut at the same places (a seam that happens to continue the grid is still a seam)
        rec["file"] = [x["seg"] for x in rec["wins"]]
    else:
        rec["wins"] = [{"first": ln[0], "last": ln[1], "fv": ln[3], "lv": ln[4], "c": ln[5], "seg": [0, 0]} for ln in lines]
    # the generator's own count
    from ibldsp.utils import WindowGenerator
    rec["nwin"] = int(WindowGenerator(ns=ns, nswin=W, overlap=OV).nwin)
    Path(out).unlink(missing_ok=True)
    for p in Path(folder).glob("rec_g0_t0*"):
        p.unlink()
    return rec


def nstates(t):
    return len(t["wins"]) + 4


def run_model(ctx, cfg, out=None, expect_violation=None):
    env = {"OUT_FILE": str(out if out else Path(ctx.scratch) / "unused.json")}
    r = tlc.run("mc/MC_LfpResample.tla", cfg, workers=4, timeout=1800, env=env)
    ctx.tlc(r, cfg)
    if expect_violation:
        if r.ok or r.invariant_violated != expect_violation:
            raise tlc.TLCError(f"vacuity: {cfg} should violate {expect_violation} (the deviation class must occur in the box)")
        return None
    if not r.ok:
        raise tlc.TLCError(f"LfpResample model violates {r.invariant_violated} ({cfg}):\n{r.out[-2000:]}")
    return json.loads(Path(out).read_text()) if out else None


def run(ctx):
    import logging
    logging.getLogger("ibllib").setLevel(logging.CRITICAL)
    ctx.level = "model_checking"
    rnd = random.Random(ctx.seed)
    tier = "quick" if ctx.quick else "thorough"
    cases = run_model(ctx, f"mc/LfpResample_{tier}.cfg", Path(ctx.scratch) / "lfp_cases.json")
    run_model(ctx, "mc/LfpResample_scaled.cfg", Path(ctx.scratch) / "lfp_scaled.json")
    run_model(ctx, "mc/LfpResample_vac1.cfg", expect_violation="NoSeamJump")
    run_model(ctx, "mc/LfpResample_vac2.cfg", expect_violation="NoBackward")
    by = {(c["ns"], c["f"]): c for c in cases}
    # ---- spec -> code ---------------------------------------------------------------------------
    fs_all = sorted({c["f"] for c in cases})
    pick_f = [10, 3, 5, 16, 512] + rnd.sample([f for f in fs_all if f not in (10, 3, 5, 16, 512)], 2 if ctx.quick else 12)
    pick_n = [70000, 140000, 65537, 130049, 258049, 1024, 65536] if ctx.quick else sorted({c["ns"] for c in cases})
    folder = Path(ctx.scratch) / "x02"
    traces, devs = [], {}
    for F in pick_f:
        for ns in (pick_n if F in (10, 3) or not ctx.quick else rnd.sample(pick_n, 3)):
            c = by.get((ns, F))
            if c is None:
                continue
            folder.mkdir(parents=True, exist_ok=True)
            t = real_run(folder, ns, F)
            ctx.count(1, key=(ns, F))
            what = f"resample_denoise_lfp_cbin(ns={ns}, RESAMPLE_FACTOR={F})"
            if t["exc"]:
                ctx.violation("lfp:Raised", f"{what} raised {t['exc']}", {"ns": ns, "f": F})
                continue
            if t["file"] != [list(s) for s in c["segs"]]:
                ctx.violation("lfp:Segments", f"{what}: the output file holds input samples {t['file'][:4]} (first token, rows per window), "
                              f"spec/sys/LfpResample.tla expects {c['segs'][:4]}", {"ns": ns, "f": F})
            traces.append(t)
            for cl in ("uniform", "monotone", "complete"):
                if not c[cl]:
                    devs.setdefault((cl, F), []).append(ns)
    for t in traces[:3]:
        ctx.sample({"ns": t["ns"], "factor": t["f"], "segments_in_file": t["file"][:4], "windows": len(t["wins"])})
    # ---- code -> spec ---------------------------------------------------------------------------
    verdicts = tracecheck.validate(ctx, *TRACE, traces, label="lfp", nstates=nstates, jvms=4, workers=2)
    seen = {}
    for v in verdicts:
        t = traces[v["index"]]
        what = f"resample_denoise_lfp_cbin(ns={t['ns']}, RESAMPLE_FACTOR={t['f']})"
        cl = [x for x in v["prop"].split("|") if x]
        if "Counter" in cl:
            ctx.violation("lfp:Counter", f"{what}: the row counter the function prints is not the number of rows in its file", {"ns": t["ns"], "f": t["f"]})
        if v["impl"]:
            ctx.violation("lfp:Step", f"{what}: step '{v['impl']}' at window {v['pos']} is not a step of spec/sys/LfpResample.tla "
                          f"(observed {t['wins'][max(0, v['pos'] - 1)] if t['wins'] else None})", {"ns": t["ns"], "f": t["f"]})
        for x in cl:
            if x != "Counter":
                seen.setdefault((x.lower(), t["f"]), []).append(t["ns"])
    # the deviations TLC predicts are exactly the ones the real code shows
    for k in sorted(set(devs) | set(seen)):
        if sorted(devs.get(k, [])) != sorted(seen.get(k, [])):
            ctx.violation("lfp:Deviation", f"docstring clause {k[0]} with RESAMPLE_FACTOR={k[1]}: the model predicts a deviation for lengths "
                          f"{sorted(devs.get(k, []))}, the real code shows it for {sorted(seen.get(k, []))}", {"f": k[1]})
    d10 = by.get((140000, 10))
    if d10 and not d10["uniform"]:
        s = d10["segs"]
        ctx.observe(f"resample_denoise_lfp_cbin, default factor 10: the output is not a uniform grid - at every window seam the step is "
                    f"{s[1][0] - (s[0][0] + 10 * (s[0][1] - 1))} input samples instead of 10 (first_valid skips int(51.2) = 51 rows, last_valid drops "
                    f"52; the stride 64512 is not a multiple of 10): {s[:3]} for 140000 samples")
    if any(k[0] == "monotone" for k in devs):
        ctx.observe(f"resample_denoise_lfp_cbin: for RESAMPLE_FACTOR in {sorted({k[1] for k in devs if k[0] == 'monotone'})} an input sample is written "
                    f"twice (or time runs backwards) at window seams")
    if any(k[0] == "complete" for k in devs):
        ctx.observe(f"resample_denoise_lfp_cbin: for RESAMPLE_FACTOR in {sorted({k[1] for k in devs if k[0] == 'complete'})[:8]} the file has "
                    f"fewer rows than ceil(ns / factor) for multi-window recordings")
    # ---- the real numeric stages: row count only ---------------------------------------------------
    nrng = np.random.default_rng(ctx.seed)
    for ns, F in ([(70000, 10)] if ctx.quick else [(70000, 10), (140000, 10), (66000, 4)]):
        folder.mkdir(parents=True, exist_ok=True)
        t = real_run(folder, ns, F, skel=False, rng=nrng)
        ctx.count(1, key=("real", ns, F))
        want = sum(s[1] for s in by[(ns, F)]["segs"]) if (ns, F) in by else None
        if t["exc"]:
            ctx.violation("lfp:Raised", f"resample_denoise_lfp_cbin(ns={ns}, RESAMPLE_FACTOR={F}) with the real filters raised {t['exc']}", {"ns": ns, "f": F, "real": True})
        elif want is not None and t["rows_in_file"] != want:
            ctx.violation("lfp:Rows", f"resample_denoise_lfp_cbin(ns={ns}, RESAMPLE_FACTOR={F}) with the real filters wrote {t['rows_in_file']} rows, "
                          f"the model expects {want}", {"ns": ns, "f": F, "real": True})
    # ---- binding self-test ---------------------------------------------------------------------
    good = [t for t in traces if len(t["wins"]) >= 2][:3]
    if len(good) < 2:
        raise tlc.TLCError("selftest: no multi-window traces")
    mut = json.loads(json.dumps(good))
    mut[0]["wins"][1]["seg"][0] += 1
    mut[0]["file"][1][0] += 1
    mut[1]["wins"][1]["lv"] += 1
    keep = ctx.cov["traces_validated_against_impl"]
    v = tracecheck.validate(ctx, *TRACE, mut[:2], label="selftest", nstates=nstates, jvms=1)
    ctx.cov["traces_validated_against_impl"] = keep
    if len({x["index"] for x in v if x["impl"]}) != 2:
        raise tlc.TLCError("binding self-test: corrupted traces were not rejected")
    ctx.cov["rule"] = ("model: code constants (window 65536, overlap 1024) x lengths around 1-4 windows x factors; scaled family over every "
                       "length; real runs: (length, factor) pairs of the export with the index skeleton of the numeric stages")
    ctx.assumptions += ["the numeric stages are replaced by identity / subsampling for the token runs (scipy.signal.decimate keeps rows "
                        "0, F, 2F, .. of its input: checked by the row count of runs with the real filters)",
                        "window and overlap are hard-wired in the function; RESAMPLE_FACTOR is its only parameter"]


def replay(ctx, sc):
    folder = Path(ctx.scratch) / "x02"
    folder.mkdir(parents=True, exist_ok=True)
    cases = run_model(ctx, "mc/LfpResample_thorough.cfg", Path(ctx.scratch) / "lfp_cases.json")
    by = {(c["ns"], c["f"]): c for c in cases}
    t = real_run(folder, sc["ns"], sc["f"], skel=not sc.get("real"), rng=np.random.default_rng(0))
    c = by.get((sc["ns"], sc["f"]))
    if t["exc"]:
        ctx.violation("lfp:Raised", t["exc"], sc)
    elif c and not sc.get("real") and t["file"] != [list(s) for s in c["segs"]]:
        ctx.violation("lfp:Segments", f"file {t['file'][:4]} expected {c['segs'][:4]}", sc)
