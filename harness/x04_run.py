"""Executed as a subprocess by x04.py: one real call (or an append pair) of decompress_destripe_cbin on a synthesised
recording whose only saturation events are *planted jumps*: a one-sample excursion of all channels at sample p + 1, which
`saturation()` flags at p (jump up into p + 1) and at p + 1 (jump back).  Jumps are planted at the last sample E(c) of every
canonical batch c (the seam samples of spec/sys/DestripeQC.tla) and at a few interior positions.

argv[1] = JSON scenario {dir, ns, nbatch, nproc, seed, append}
stdout  = 'RESULT ' + JSON {runs: [{events, exc}], flags_at: {...}, ...}
"""
import json
import os
import sys
import traceback
from pathlib import Path

import numpy as np

T = 1024
JUMP = 250          # counts: 250 * 2.34 uV = 586 uV per sample > the 300 uV / sample slew limit, far below full scale (512)


def plan_jumps(ns, nb):
    """seam samples E(c) = LastS(c) - 1 for the canonical batches c < LastB, and interior positions"""
    s = nb - 2 * T
    lastb = 0 if ns <= nb else -(-(ns - nb) // s)
    seams = [min(c * s + nb, ns) - 1 for c in range(lastb)]
    interior = []
    for c in range(lastb + 1):
        lo, hi = c * s, min(c * s + nb, ns)
        for p in (lo + T + 17, (lo + hi) // 2, lo + 5):
            if 3 <= p < ns - 3 and all(abs(p - q) > 4 for q in seams + interior):
                interior.append(p)
    return lastb, seams, sorted(set(interior))


def synth(sc, jumps):
    from vkit import metagen
    rng = np.random.default_rng(sc["seed"])
    ns = sc["ns"]
    t = np.arange(ns)
    bg = sum(a * np.sin(2 * np.pi * f * t / 30000 + p) for a, f, p in
             zip(rng.uniform(2, 8, 4), rng.uniform(300, 3000, 4), rng.uniform(0, 6.28, 4)))
    d = bg[:, None] * rng.uniform(0.8, 1.2, 384)[None, :] + rng.normal(0, 3, (ns, 384))
    d = np.clip(np.round(d), -100, 100)
    for p in jumps:
        d[p + 1, :] += JUMP
    data = np.zeros((ns, 385), dtype=np.int16)
    data[:, :384] = d.astype(np.int16)
    data[:, 384] = (t % 32000).astype(np.int16)
    txt, info = metagen.make_meta("3B2", ns=ns)
    b = metagen.write_recording(Path(sc["dir"]) / "in", "rec_g0_t0.imec0", txt, data)
    return b, data


def main():
    sc = json.loads(sys.argv[1])
    res = {"exc": "", "runs": []}
    try:
        from ibldsp import voltage
        import spikeglx
        ns, nb = sc["ns"], sc["nbatch"]
        lastb, seams, interior = plan_jumps(ns, nb)
        jumps = sorted(seams + interior)
        binf, data = synth(sc, jumps)
        outdir = Path(sc["dir"]) / "out"
        outdir.mkdir(parents=True, exist_ok=True)
        out = outdir / "destriped.bin"
        tracedir = Path(os.environ["IBL_NEUROPIXEL_VERIF_TRACE"])
        sr = spikeglx.Reader(binf)
        # the flags of the whole recording (no batching): the docstring's "nsamples vector of booleans"
        whole, _ = voltage.saturation(data=sr[:, :384].T, max_voltage=sr.range_volts[:384], fs=sr.fs)
        fs = float(sr.fs)
        sr.close()
        want = sorted(set(jumps) | {p + 1 for p in jumps if p + 1 < ns - 1})
        res["whole_ok"] = bool(np.array_equal(np.flatnonzero(whole), np.array(want)))
        nruns = 2 if sc.get("append") else 1
        for k in range(nruns):
            for f in tracedir.glob("*.ndjson"):
                f.unlink()
            r = {"exc": ""}
            try:
                voltage.decompress_destripe_cbin(binf, output_file=out, nbatch=nb, nprocesses=sc["nproc"], append=(k > 0),
                                                 reject_channels=False, k_filter=False)
            except BaseException as e:  # noqa
                r["exc"] = f"{type(e).__name__}: {str(e)[:200]}"
            evs = []
            for f in sorted(tracedir.glob("*.ndjson")):
                evs += [json.loads(line) for line in f.read_text().splitlines()]
            r["events"] = evs
            sat = np.load(outdir / "_iblqc_ephysSaturation.samples.npy")
            tms = np.load(outdir / "_iblqc_ephysTimeRmsAP.timestamps.npy")
            rms = np.load(outdir / "_iblqc_ephysTimeRmsAP.rms.npy")
            r["sat_len"] = int(sat.shape[0])
            r["kept"] = [bool(sat[p]) for p in seams] if sat.shape[0] == ns else []
            # every other flag of the file against the flags of the whole recording
            mask = np.ones(min(ns, sat.shape[0]), dtype=bool)
            mask[[p for p in seams if p < mask.size]] = False
            r["other_bad"] = [int(x) for x in np.flatnonzero(sat[:mask.size][mask] != whole[:mask.size][mask])[:8]]
            r["times2"] = [int(round(2 * float(v) * fs)) for v in tms]
            r["times_exact"] = bool(np.all(np.abs(2 * tms.astype(np.float64) * fs - np.round(2 * tms.astype(np.float64) * fs)) < 0.05))
            r["rms_rows"] = int(rms.shape[0])
            r["rms_finite"] = bool(np.all(np.isfinite(rms)) and np.all(rms > 0))
            res["runs"].append(r)
            if r["exc"]:
                break
        res.update({"lastb": lastb, "seams": seams, "interior": interior})
    except BaseException as e:  # noqa
        res["exc"] = f"{type(e).__name__}: {e}\n{traceback.format_exc()[-1500:]}"
    print("RESULT " + json.dumps(res))


if __name__ == "__main__":
    main()
