"""C12 - LFP extraction equals low-pass plus decimation, independent of windowing.

Same specification (spec/sys/NP2Split.tla) and engine as C03; this check judges the LF clauses:
LFTokens / LFComplete / LFEdges (TLC, exhaustive box + real constants) and, on real NP2Converter runs over broadband,
non-constant data (NP2.4 and NP2.1 layouts, lengths not multiples of 12 or of the window, windows 1200..60000):
row count ceil(n/12), LF sync = every 12th AP sync word (the token sequence read off the real file), LF metadata
(2500 Hz, channel counts, opens with a shape matching its content), and two numeric projections (not decided by TLC):
pairwise window-size comparison <= 1 LSB and interior vs whole-trace zero-phase low-pass + decimation <= 1 LSB.
`variants`: the same clauses (and the same pairwise comparison, inside the group of the plain conversions of the same recording)
with the recording handed in as .cbin, compress=True (LF read back from .cbin; NP2.1: the original is compressed on the way),
nwindow as float / NumPy integer / default, windows 588 / 600 / 1152, snsGeomMap and imDatPrb_type 2013 / 1030, longer LF
leftovers of another recording (overwrite on a fresh or on a declined converter), init_params(nsamples), and the arguments of the
NP2.1 path that process() does not forward: offset (LF of a sub-range, incl. one that ends at the end of the file) and
assert_shanks=False (LF of a whole NP2.4 file); that entry point is private: without it the scenarios are skipped with a drift line.
"""
import numpy as np

import c03
import np2common as n2


def scenarios(ctx):
    scs = []
    seed = ctx.seed * 100000 + 5000
    lens = [2999, 4037, 7229, 3606, 1825] if ctx.quick else [1201, 2999, 3613, 4037, 5003, 7229, 9001]
    if not ctx.quick:
        lens += [3600 + r for r in range(12)]                                  # every residue of the length modulo 12
        lens += sorted({w + k * (w - 576) + d for w in (1200, 2400) for k in (1, 2, 3) for d in (-1, 0, 1)})   # around whole strides
        lens += [1199 - r for r in range(0, 24, 5)] + [60001, 61237, 120011]     # shorter than every window; beyond the default window
        lens += [7200 + r for r in range(1, 12)] + [301, 577, 1153, 2305]    # short recordings (the taper needs 144 samples, the filter padding more); one overlap + 1
        lens = sorted(set(lens))
    ws = [1200, 2400, 3612, 60000] if ctx.quick else [1200, 1812, 2400, 3612, 6000, 60000]
    k = 0
    for ns in lens:
        for w in ws:
            k += 1
            # same seed for every window size of a length: the recordings are identical -> window independence
            scs.append({"n": 8, "nshank": 2, "map": "blocks", "gain": list(n2.GAINSETS[(ns // 7) % 4]), "w": w, "ns": ns,
                        "seed": seed + ns, "content": "broadband", "lf_numeric": True, "recon": False, "group": f"len{ns}"})
    for j, (ns, w) in enumerate([(3613, 1200), (3613, 3612)] if ctx.quick else [(3613, 1200), (3613, 3612), (5003, 2400), (5003, 60000)]):
        scs.append({"n": 384, "nshank": 4, "map": "dense4", "gain": [0.5, 8192], "w": w, "ns": ns, "seed": seed + 77 + ns,
                    "content": "broadband", "lf_numeric": True, "recon": False, "group": f"big{ns}"})
    for ns in lens[:2] if ctx.quick else lens:
        for w in ws[:3]:
            scs.append({"kind": "NP2.1", "n": 8 if ns != lens[0] else 384, "nshank": 1, "map": "dense", "gain": [0.5, 8192], "w": w,
                        "ns": ns, "seed": seed + 31 + ns, "content": "broadband", "lf_numeric": True, "recon": False,
                        "group": f"np21_{ns}"})
    # the same converter object re-parameterised (init_params(nwindow=...)) and re-run with overwrite: must give the same LF
    # as a fresh conversion of the same recording (same group => compared by `post`)
    for base in [x for x in scs if x["w"] == 1200][:3 if ctx.quick else 8]:
        scs.append(dict(base, w=2400, reuse_first_w=3612))
        scs.append(dict(base, w=1200, reuse_first_w=2400, reuse_first_ns=(base["ns"] * 5 // 8) | 1))
    return scs + variants(ctx, scs, lens)


def variants(ctx, scs, lens):
    """options of the constructor / of init_params, forms of the input, metadata variants, leftovers of earlier runs and the
    arguments of the NP2.1 path (c03.run_variant). A variant keeps the seed and the group of the plain conversions of the same
    recording, so `post` compares its LF with theirs; a variant that converts another range gets a group of its own."""
    out = []
    pick = [1825, 4037] if ctx.quick else [1825, 2999, 4037, 5003, 7229, 3606, 3611]
    for j, ns in enumerate(pick):
        b24 = next(x for x in scs if x["ns"] == ns and x.get("kind") is None and x["n"] == 8)
        b21 = dict(next(x for x in scs if x.get("kind") == "NP2.1"), n=8, ns=ns, seed=b24["seed"] + 31, group=f"np21v_{ns}")
        rot = lambda lst, i=0: lst[(j + i) % len(lst)]       # noqa: E731
        v24 = [dict(w=2400, input="cbin", path_type="str"), dict(w=1200, compress=True),
               dict(w=3612, w_type="float", encoding="geom", ptype=2013), dict(w=60000, w_type="default"),
               dict(w=rot([2400, 1200]), pre="stale_force", extra="_x1"), dict(w=rot([1200, 3612]), pre="decline_force", sibling=True),
               dict(w=rot([588, 600, 1152]), w_type=rot(["np32", "np64", "int"])), dict(w=rot([1200, 2400]), pre="twice_force", compress=rot([True, False])),
               dict(w=1200, nsamples=(ns * 5 // 8) | 1, group=f"len{ns}part"), dict(w=2400, nsamples=(ns * 5 // 8) | 1, w_type="float", group=f"len{ns}part"),
               dict(w=1200, lf_whole=True, group=f"whole{ns}"), dict(w=rot([2400, 3612]), lf_whole=True, input="cbin", group=f"whole{ns}")]
        off = 145 + 7 * j
        v21 = [dict(w=1200), dict(w=3612, ptype=1030, encoding="geom"), dict(w=2400, input="cbin"), dict(w=rot([3612, 1200]), compress=True),
               dict(w=2400, pre="stale_force", w_type="np64"), dict(w=1200, pre="decline_force", path_type="str"),
               dict(w=rot([1200, 2400]), pre="twice_force", compress=True), dict(w=3612, pre="twice_force"),
               dict(w=1200, offset=off, nsamples=ns - 2 * off + 1, group=f"np21v_{ns}off"),
               dict(w=2400, offset=off, nsamples=ns - 2 * off + 1, compress=True, group=f"np21v_{ns}off"),
               dict(w=1200, offset=off, nsamples=ns - off, group=f"np21v_{ns}end"), dict(w=rot([3612, 2400]), offset=off, nsamples=ns - off, group=f"np21v_{ns}end")]
        if ctx.quick:           # quick: every variant once, spread over the two lengths (pairs of a new group stay together)
            v24 = [v24[i] for i in ([0, 2, 4, 6, 8, 9, 10, 11] if j == 0 else [1, 3, 5, 7])]
            v21 = [v21[i] for i in ([0, 1, 3, 5, 6, 8, 9] if j == 0 else [0, 2, 4, 7, 10, 11])]
        out += [dict(b24, **v) for v in v24] + [dict(b21, **v) for v in v21]
    return out


def post(ctx, scs, traces):
    """pairwise comparison of the LF files of identical recordings converted with different window sizes"""
    groups = {}
    for sc, t in zip(scs, traces):
        if "_lf" in t and t["status"] == 1:
            groups.setdefault(sc["group"], []).append(t)
    worst_all = 0.0
    for g, ts in groups.items():
        worst = 0.0
        for a in ts:
            for b in ts:
                for sh in a["_lf"]:
                    if sh in b["_lf"] and a["_lf"][sh].shape == b["_lf"][sh].shape:
                        worst = max(worst, float(np.abs(a["_lf"][sh].astype(np.int64) - b["_lf"][sh].astype(np.int64)).max()))
                    else:
                        worst = max(worst, 99.0)
        for t in ts:
            t["final"]["lf_window_lsb"] = int(worst)
        worst_all = max(worst_all, worst)
    ctx.cov["numeric_postconditions"] = {
        "window_independence_max_lsb": worst_all,
        "interior_vs_whole_trace_max_dev_lsb": max([t["final"].get("lf_interior_dev", 0.0) for t in traces] or [0.0]),
        "groups": len(groups)}


def run(ctx):
    c03.run(ctx, clauses=c03.C12_CLAUSES, pid="C12", extra_scenarios=scenarios, post=post)
    ctx.assumptions += ["the two '<= 1 LSB' clauses are numeric projections on the real output (IIR filtering is not modelled)"]


def replay(ctx, sc):
    c03.quiet(ctx)
    s = dict(sc["scenario"])
    scs = [dict(s, w=w, w_type=s.get("w_type") if w == s["w"] else "int") for w in sorted({s["w"], 1200, 3612})]
    traces = [c03.one_run(ctx, x, i, keep_lf=True) for i, x in enumerate(scs)]
    scs, traces = [x for x, t in zip(scs, traces) if t is not None], [t for t in traces if t is not None]
    if not traces:
        c03.report_unbound(ctx)
        return
    post(ctx, scs, traces)
    for t in traces:
        t.pop("_lf", None)
    c03.report(ctx, scs, traces, c03.validate(ctx, traces, "replay"), c03.C12_CLAUSES, "C12")
