"""KNOWN_FINDINGS.txt: read-only at run time.

  known: property=<id> key=<scenario-class key> <what fails>
  fixed: property=<id> <commit> <what failed>

A `known` key denotes a class of scenarios; `*` is a wildcard (fnmatch). `fixed` lines suppress nothing.
"""
import fnmatch
from pathlib import Path

FILE = Path(__file__).resolve().parents[2] / "KNOWN_FINDINGS.txt"


def load(pid):
    out = []
    if not FILE.exists():
        return out
    for line in FILE.read_text().splitlines():
        line = line.strip()
        if not line.startswith("known:"):
            continue
        parts = line[len("known:"):].split()
        kv = dict(p.split("=", 1) for p in parts[:2])
        if kv.get("property") != pid:
            continue
        out.append({"key": kv["key"], "text": " ".join(parts[2:])})
    return out


def match(known, key):
    for k in known:
        if fnmatch.fnmatchcase(key, k["key"]):
            return k
    return None
