"""Synthesises SpikeGLX .meta files (and matching .bin files) from an abstract probe record.

The shipped fixtures are templates, not the input space: this writes the same keys SpikeGLX writes,
for any site table, encoding, gain table, stream, channel subset, full-scale range and length.

Abstract site = (shank, row, col) in the *IBL convention* used by neuropixel.py:
   NP1   : 4 staggered columns, col in 0..3 with col % 2 == row % 2, x = 11 + 16 col, y = 20 + 20 row
   NP2   : 2 columns, x = 27 + 32 col, y = 20 + 15 row, shank 0..3
   ultra : 8 columns, x = 6 col, y = 6 row
Encodings of the site table in the metadata:
   shank : snsShankMap (s:c:r:flag)   NP1: c = (2 + row % 2 - col) / 2, NP2/ultra: c = col
   geom  : snsGeomMap  (s:x:y:flag)   NP1: x = 70 - (11 + 16 col), y = 20 row ; NP2: x = 27 + 32 col, y = 15 row
"""
from pathlib import Path

import numpy as np

KINDS = {
    # kind: (major, imDatPrb_type or None, default range, default maxint, has LF stream)
    "3A": (1, None, 0.6, 512, True),
    "3B1": (1, 0, 0.6, 512, True),
    "3B2": (1, 0, 0.6, 512, True),
    "NP2.1": (2, 21, 0.5, 8192, False),
    "NP2.4": (2, 24, 0.5, 8192, False),
    "NPultra": ("NPultra", 1100, 0.6, 512, True),
}


def dense_sites(kind, n=384, nshank=1):
    """canonical dense layouts, as (shank, row, col) in on-disk channel order"""
    major = KINDS[kind][0]
    if major == 1:
        return [(0, c // 2, [2, 0, 3, 1][c % 4]) for c in range(n)]
    if major == "NPultra":
        return [(0, c // 8, c % 8) for c in range(n)]
    if nshank == 1:
        return [(0, c // 2, c % 2) for c in range(n)]
    # four shank default of SpikeGLX: blocks of 48 channels alternate between shank pairs
    out = []
    for c in range(n):
        block = c // 48
        sh = [0, 1, 0, 1, 2, 3, 2, 3][block % 8]
        row = (c % 48) // 2 + 24 * [0, 0, 1, 1, 0, 0, 1, 1][block % 8]
        out.append((sh, row, c % 2))
    return out


def shank_entry(kind, site):
    s, r, c = site
    if KINDS[kind][0] == 1:
        return f"({s}:{(2 + r % 2 - c) // 2}:{r}:1)"
    return f"({s}:{c}:{r}:1)"


def geom_entry(kind, site):
    s, r, c = site
    major = KINDS[kind][0]
    if major == 1:
        return f"({s}:{70 - (11 + 16 * c)}:{20 * r}:1)"
    if major == 2:
        return f"({s}:{27 + 32 * c}:{15 * r}:1)"
    raise ValueError("NPultra has no geom-map encoding here")


def _subset_string(chans):
    chans = list(chans)
    runs, i = [], 0
    while i < len(chans):
        j = i
        while j + 1 < len(chans) and chans[j + 1] == chans[j] + 1:
            j += 1
        runs.append(f"{chans[i]}:{chans[j]}" if j > i else f"{chans[i]}")
        i = j + 1
    return ",".join(runs)


def make_meta(kind, sites=None, *, encoding="shank", stream="ap", ns=100, fs=None, nsync=1, gains=None,
              range_max=None, maxint=None, write_maxint=None, orig_channels=None, extra=None, tilde=True,
              file_time_secs=None, file_size_bytes=None):
    """returns (text, info). `sites`: list of (shank,row,col) per saved data channel in on-disk order.
    `gains`: list of (ap_gain, lf_gain) per *saved* channel for NP1-type probes (imroTbl is written with
    one entry per saved channel followed by filler entries up to 384, as the reader takes the first n).
    `orig_channels`: original channel numbers of the saved channels (snsSaveChanSubset)."""
    major, ptype, drange, dmaxint, _ = KINDS[kind]
    if sites is None:
        sites = dense_sites(kind)
    n = len(sites)
    range_max = drange if range_max is None else range_max
    maxint = dmaxint if maxint is None else maxint
    if write_maxint is None:
        write_maxint = kind not in ("3A", "3B1")  # old files have no imMaxInt
    if fs is None:
        fs = 30000 if stream == "ap" else 2500
    nc = n + nsync
    if gains is None:
        gains = [(500, 250)] * n
    if orig_channels is None:
        orig_channels = list(range(n))
    L = []
    ap_n, lf_n = (n, 0) if stream == "ap" else (0, n)
    L.append(f"acqApLfSy=384,{384 if KINDS[kind][4] else 0},1")
    L.append("appVersion=20201103")
    L.append(f"fileSizeBytes={nc * ns * 2 if file_size_bytes is None else file_size_bytes}")
    L.append(f"fileTimeSecs={np.format_float_positional(ns / fs) if file_time_secs is None else file_time_secs}")
    L.append("firstSample=0")
    L.append(f"imAiRangeMax={range_max}")
    L.append(f"imAiRangeMin=-{range_max}")
    if kind == "3A":
        L.append("imProbeOpt=3")
        L.append("imProbeSN=641251510")
    else:
        L.append("imDatPrb_pn=PRB_X")
        if kind != "3B1":
            L.append("imDatPrb_port=1")
            L.append("imDatPrb_slot=2")
        L.append("imDatPrb_sn=18005116811")
        L.append(f"imDatPrb_type={ptype}")
    if write_maxint:
        L.append(f"imMaxInt={maxint}")
    L.append(f"imSampRate={fs}")
    L.append(f"nSavedChans={nc}")
    L.append(f"snsApLfSy={ap_n},{lf_n},{nsync}")
    sub = list(orig_channels) + ([768] if (nsync and KINDS[kind][4]) else ([384] if nsync else []))
    L.append(f"snsSaveChanSubset={_subset_string(sub)}")
    if kind == "3A":
        L.append("typeEnabled=imec")
    L.append("typeThis=imec")
    t = "~" if tilde else ""
    if major == 2:
        hdr = f"({ptype},384)"
        body = "".join(f"({c} 0 0 0 {c})" for c in range(384))
    elif kind == "3A":
        hdr = "(641251510,3,384)"
        body = "".join(f"({orig_channels[i] if i < n else i} 0 0 {gains[i][0] if i < n else 500} {gains[i][1] if i < n else 250})"
                       for i in range(max(384, n)))
    else:
        hdr = f"({ptype},384)"
        body = "".join(f"({orig_channels[i] if i < n else i} 0 0 {gains[i][0] if i < n else 500} {gains[i][1] if i < n else 250} 1)"
                       for i in range(max(384, n)))
    L.append(f"{t}imroTbl={hdr}{body}")
    pre = "AP" if stream == "ap" else "LF"
    L.append(f"{t}snsChanMap=({ap_n},{lf_n},{nsync})" + "".join(f"({pre}{i};{i}:{i})" for i in range(n))
             + "".join(f"(SY{j};{n + j}:{n + j})" for j in range(nsync)))
    if encoding == "shank":
        L.append(f"{t}snsShankMap=(4,2,640)" + "".join(shank_entry(kind, s) for s in sites))
    elif encoding == "geom":
        L.append(f"{t}snsGeomMap=(PRBX,4,250,70)" + "".join(geom_entry(kind, s) for s in sites))
    elif encoding == "both":        # a geometry map added to metadata that kept its shank map
        L.append(f"{t}snsShankMap=(4,2,640)" + "".join(shank_entry(kind, s) for s in sites))
        L.append(f"{t}snsGeomMap=(PRBX,4,250,70)" + "".join(geom_entry(kind, s) for s in sites))
    elif encoding == "none":
        pass
    else:
        raise ValueError(encoding)
    for k, v in (extra or {}).items():
        L.append(f"{k}={v}")
    info = {"kind": kind, "n": n, "nc": nc, "ns": ns, "fs": fs, "nsync": nsync, "sites": list(sites), "stream": stream,
            "range_max": range_max, "maxint": maxint, "gains": gains, "encoding": encoding}
    return "\n".join(L) + "\n", info


def make_nidq_meta(mn=0, ma=0, xa=1, dw=1, *, ns=100, fs=30003.0003, mn_gain=200, ma_gain=1, range_max=5,
                   file_time_secs=None, extra=None):
    nc = mn + ma + xa + dw
    L = [f"acqMnMaXaDw={mn},{ma},{xa},{dw}", f"fileSizeBytes={nc * ns * 2}",
         f"fileTimeSecs={np.format_float_positional(ns / fs) if file_time_secs is None else file_time_secs}", "firstSample=0",
         f"nSavedChans={nc}", f"niAiRangeMax={range_max}", f"niAiRangeMin=-{range_max}", f"niMAGain={ma_gain}",
         f"niMNGain={mn_gain}", f"niSampRate={fs}", f"snsMnMaXaDw={mn},{ma},{xa},{dw}", "snsSaveChanSubset=all",
         "typeThis=nidq", "~snsShankMap=(1,2,0)"]
    for k, v in (extra or {}).items():
        L.append(f"{k}={v}")
    return "\n".join(L) + "\n", {"kind": "nidq", "nc": nc, "ns": ns, "fs": fs, "mn": mn, "ma": ma, "xa": xa, "dw": dw,
                                 "mn_gain": mn_gain, "ma_gain": ma_gain, "range_max": range_max}


def write_recording(folder, stem, meta_text, data, suffix=".ap"):
    """writes <stem><suffix>.bin/.meta ; data int16 [ns, nc]. returns path of the .bin"""
    folder = Path(folder)
    folder.mkdir(parents=True, exist_ok=True)
    b = folder / f"{stem}{suffix}.bin"
    np.ascontiguousarray(data, dtype=np.int16).tofile(b)
    b.with_suffix(".meta").write_text(meta_text)
    return b


def random_int16(rng, ns, nc, all_values=False):
    """random int16 content; with all_values every one of the 65536 values occurs (needs ns*nc >= 65536)"""
    d = rng.integers(-32768, 32768, size=(ns, nc), dtype=np.int64).astype(np.int16)
    if all_values and ns * nc >= 65536:
        flat = d.reshape(-1)
        pos = rng.permutation(flat.size)[:65536]
        flat[pos] = np.arange(-32768, 32768, dtype=np.int64).astype(np.int16)
    return d
