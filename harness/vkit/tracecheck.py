"""Batch trace validation: thousands of recorded executions per JVM, several JVMs in parallel.

Trace specs follow one convention (see spec/trace/WindowsTrace.tla):
  * `Traces == JsonDeserialize(IOEnv.TRACE_FILE)`, `Init == tid \\in 1..Len(Traces) /\\ ...`
  * the observed state is installed step by step; `prop` = first false property-layer clause,
    `impl` = first step that is not an implementation-layer step
  * one line `<<"VERDICT", tid, prop, impl, pos>>` is printed per non-clean trace
  * every trace must be consumed to its end: `nstates(trace)` gives the number of states the trace
    spec reaches for a trace; a different total is a machinery error (exit 2), never a verdict
"""
import json
import re
from concurrent.futures import ThreadPoolExecutor
from pathlib import Path

from . import tlc


def _first_big_int(x, path="trace"):
    """(path, value) of the first integer of the JSON value x that does not fit 32 bits, else None"""
    stack = [(path, x)]
    while stack:
        p, v = stack.pop()
        if isinstance(v, bool):
            continue
        if isinstance(v, int):
            if not -2 ** 31 <= v < 2 ** 31:
                return p, v
        elif isinstance(v, dict):
            stack.extend((f"{p}.{k}", w) for k, w in v.items())
        elif isinstance(v, (list, tuple)):
            stack.extend((f"{p}[{i}]", w) for i, w in enumerate(v))
    return None


def validate(ctx, module, cfg, traces, *, label, nstates=None, jvms=8, workers=2, timeout=900, chunk=None):
    """Returns list of verdict dicts {index, prop, impl, pos} for the non-clean traces (index into
    `traces`). Raises tlc.TLCError if TLC could not consume every trace."""
    if not traces:
        return []
    # TLC's JsonDeserialize wraps integers beyond 32 bits without a word (2^40 + 1 is read as 1): a wrong observed value could
    # become the right one. Harnesses clamp what they observe; a trace that still carries such a number is a machinery failure.
    big = _first_big_int(traces)
    if big is not None:
        raise tlc.TLCError(f"trace for {module} carries the integer {big[1]} at {big[0]}: beyond 32 bits, TLC would wrap it")
    n = len(traces)
    if chunk is None:
        chunk = max(1, -(-n // jvms))
    parts = [(i, traces[i:i + chunk]) for i in range(0, n, chunk)]
    files = []
    for k, (off, part) in enumerate(parts):
        f = Path(ctx.scratch) / f"{label}_{k}.json"
        f.write_text(json.dumps(part))
        files.append((off, f, len(part)))

    def one(args):
        off, f, cnt = args
        r = tlc.run(module, cfg, workers=workers, timeout=timeout, env={"TRACE_FILE": str(f)})
        return off, cnt, r

    verdicts = []
    with ThreadPoolExecutor(max_workers=jvms) as ex:
        for off, cnt, r in ex.map(one, files):
            ctx.tlc(r, f"{label}[{off}:{off + cnt}]")
            expect = sum(nstates(t) for t in traces[off:off + cnt]) if nstates else None
            if r.ok and nstates and r.distinct != expect:
                raise tlc.TLCError(f"trace spec {module}: batch at {off} reached {r.distinct} states, {expect} expected "
                                   f"(a trace was not consumed to its end)")
            if not r.ok:
                raise tlc.TLCError(f"trace spec {module} did not consume batch at {off}: "
                                   f"{r.invariant_violated}\n{r.out[-3000:]}")
            # TLC wraps long tuples over several lines: match over the whole output
            for m in re.finditer(r'<<\s*"VERDICT",\s*(\d+),\s*"(.*?)",\s*"(.*?)",\s*(-?\d+)\s*>>', r.out, re.S):
                verdicts.append({"index": off + int(m.group(1)) - 1, "prop": "".join(m.group(2).split()) if "\n" in m.group(2) else m.group(2),
                                 "impl": m.group(3), "pos": int(m.group(4))})
    ctx.traces(n)
    # PrintT also fires while TLC evaluates ENABLED: keep one verdict per trace
    # (trace specs that explore several schedules of one trace print several: a property verdict wins)
    best = {}
    for v in verdicts:
        o = best.get(v["index"])
        if o is None or (v["prop"] and not o["prop"]):
            best[v["index"]] = v
    return [best[k] for k in sorted(best)]
