"""Apalache (symbolic) runs for inductive invariants: unbounded parameters, one step."""
import re
import shutil
import subprocess
import tempfile
from pathlib import Path

from .tlc import TLCError, SPEC


def check(module, init, inv, length, timeout=600):
    """True = no error, False = invariant violated; raises TLCError on tool failure"""
    out = tempfile.mkdtemp(prefix="apa_")
    try:
        p = subprocess.run(["apalache-mc", "check", f"--init={init}", f"--inv={inv}", f"--length={length}",
                            f"--out-dir={out}", str(SPEC / module)], capture_output=True, text=True, timeout=timeout,
                           cwd=str((SPEC / module).parent))
    except subprocess.TimeoutExpired as e:
        raise TLCError(f"apalache timed out on {module} {init}/{inv}") from e
    finally:
        shutil.rmtree(out, ignore_errors=True)
    txt = p.stdout + p.stderr
    if "The outcome is: NoError" in txt:
        return True
    if "The outcome is: Error" in txt and p.returncode == 12:
        return False
    raise TLCError(f"apalache failed on {module} {init}/{inv} rc={p.returncode}:\n{txt[-2000:]}")
