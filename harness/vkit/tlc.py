"""Thin, total wrapper around TLC: run a (module, cfg) pair, parse what TLC said.

Nothing here decides a property; it only reports what TLC reported.
"""
import os
import re
import shutil
import subprocess
import tempfile
import time
from pathlib import Path

JAR = "/opt/veriftools/tla/tla2tools.jar:/opt/veriftools/tla/CommunityModules-deps.jar"
SPEC = Path(__file__).resolve().parents[2] / "spec"


class TLCError(RuntimeError):
    """machinery failure (exit 2 of the check), never a property verdict"""


class TLCResult:
    def __init__(self, rc, out, wall):
        self.rc = rc
        self.out = out
        self.wall = wall
        m = re.findall(r"(\d+) states generated, (\d+) distinct states found", out)
        self.generated = int(m[-1][0]) if m else 0
        self.distinct = int(m[-1][1]) if m else 0
        m = re.search(r"The depth of the complete state graph search is (\d+)", out)
        self.depth = int(m.group(1)) if m else None
        self.invariant_violated = None
        m = re.search(r"Invariant (\S+) is violated", out)
        if m:
            self.invariant_violated = m.group(1)
        m = re.search(r"Action property (\S+) is violated", out)
        if m:
            self.invariant_violated = m.group(1)
        if "Temporal properties were violated" in out:
            self.invariant_violated = self.invariant_violated or "<temporal>"
        self.assumption_failed = "Assumption" in out and "is false" in out
        self.postcondition_failed = "POSTCONDITION" in out.upper() and "violated" in out
        self.deadlock = "Deadlock reached" in out
        self.finished = "Model checking completed. No error has been found" in out
        self.error_trace = self._trace(out)

    @property
    def ok(self):
        return self.finished and self.rc == 0

    @staticmethod
    def _trace(out):
        """Parse 'State n: <action ...>' blocks of a counterexample into a list of dicts of
        raw TLA+ value strings."""
        states = []
        cur = None
        for line in out.splitlines():
            m = re.match(r"State (\d+): (.*)", line)
            if m:
                cur = {"_n": int(m.group(1)), "_action": m.group(2).strip(), "_text": ""}
                states.append(cur)
                continue
            if cur is not None:
                if line.strip() == "" or line.startswith("Error:") or re.match(r"\d+ states generated", line):
                    cur = None
                    continue
                cur["_text"] += line + "\n"
        for s in states:
            for m in re.finditer(r"^/\\ (\w+) = (.*?)(?=^/\\ |\Z)", s["_text"], re.S | re.M):
                s[m.group(1)] = " ".join(m.group(2).split())
            if not any(k for k in s if not k.startswith("_")):
                m = re.match(r"\s*(\w+) = (.*)", s["_text"], re.S)
                if m:
                    s[m.group(1)] = " ".join(m.group(2).split())
        return states

    def prints(self, tag=None):
        """PrintT lines. With 16 workers lines may interleave; callers that need structure should
        run with -workers 1 or print one self-delimited record per line."""
        res = []
        for line in self.out.splitlines():
            if tag is None or line.startswith(tag) or line.startswith('"' + tag):
                res.append(line)
        return res


def run(module, cfg=None, *, workers=4, timeout=600, env=None, simulate=None, depth=None,
        extra=(), cwd=None, deadlock=True, coverage=False, dfs=False, seed=None, heap="4g",
        keep_meta=False):
    """Run TLC on spec/<module>.tla with spec/<cfg>. `module` and `cfg` are paths relative to
    /verif/spec or absolute. Returns TLCResult; raises TLCError on time-out / JVM failure."""
    module = Path(module)
    if not module.is_absolute():
        module = SPEC / module
    if cfg is None:
        cfg = module.with_suffix(".cfg")
    cfg = Path(cfg)
    if not cfg.is_absolute():
        cfg = SPEC / cfg
    meta = tempfile.mkdtemp(prefix="tlcmeta_")
    # TLC resolves EXTENDS/INSTANCE relative to the module's directory; we add the others
    libs = os.pathsep.join(str(SPEC / d) for d in ("lib", "sys", "trace", "mc"))
    # java.io.tmpdir: TLC unpacks its standard modules into a tlc-* directory there; keep it inside the metadir
    cmd = ["java", "-XX:+UseParallelGC", "-Xss16m", f"-Xmx{heap}", f"-DTLA-Library={libs}", f"-Djava.io.tmpdir={meta}"]
    if dfs:
        cmd.append("-Dtlc2.tool.queue.IStateQueue=StateDeque")
    cmd += ["-cp", JAR, "tlc2.TLC", "-metadir", meta, "-noGenerateSpecTE",
            "-workers", str(workers), "-config", str(cfg)]
    if not deadlock:
        cmd += ["-deadlock"]
    if coverage:
        cmd += ["-coverage", "1"]
    if simulate:
        cmd += ["-simulate", simulate]
    if depth:
        cmd += ["-depth", str(depth)]
    if seed is not None:
        cmd += ["-seed", str(seed)]
    cmd += list(extra)
    cmd.append(str(module))
    e = dict(os.environ)
    e.pop("JAVA_TOOL_OPTIONS", None)
    if env:
        e.update({k: str(v) for k, v in env.items()})
    t0 = time.time()
    try:
        for attempt in range(3):
            os.makedirs(meta, exist_ok=True)
            try:
                p = subprocess.run(cmd, cwd=cwd or str(module.parent), env=e, capture_output=True,
                                   text=True, timeout=timeout)
            except subprocess.TimeoutExpired as ex:
                subprocess.run(["pkill", "-f", meta], check=False)
                raise TLCError(f"TLC timed out after {timeout}s on {module.name}/{cfg.name}") from ex
            out = p.stdout + p.stderr
            # rc 0 fine; 10..13 = violation classes (assumption 10, deadlock 11, safety 12, liveness 13); anything else is
            # a failure of the tool itself. A spec error is deterministic, resource exhaustion on a busy machine (JVM could
            # not start / was killed) is not: retry those twice before giving up.
            if p.returncode in (0, 10, 11, 12, 13):
                break
            deterministic = ("Parsing or semantic analysis failed" in out or "was evaluating the nested" in out
                             or "Attempted to" in out or "is not completely specified" in out)
            if deterministic or attempt == 2:
                raise TLCError(f"TLC failed rc={p.returncode} on {module.name}/{cfg.name} (attempt {attempt + 1}):\n{out[-4000:]}")
            shutil.rmtree(meta, ignore_errors=True)
            time.sleep(5 * (attempt + 1))
    finally:
        if not keep_meta:
            shutil.rmtree(meta, ignore_errors=True)
    return TLCResult(p.returncode, out, time.time() - t0)


def require_all_actions_taken(res, allow=()):
    """vacuity control (DESIGN §6): with -coverage 1, an action of the next-state relation that was never taken means the
    invariants were not exercised on it: machinery failure, not a verdict"""
    # TLC prints an interim coverage report every minute of a long run (actions not taken *yet* show as 0 there): judge the
    # last, cumulative report only
    i = res.out.rfind("The coverage statistics at")
    final = res.out[i:] if i >= 0 else res.out
    zero = [a for a in coverage_zero_actions(final) if a not in allow and not a.startswith("Init") and not a.endswith("Init")]
    if zero:
        raise TLCError(f"vacuity: actions never taken in the model run: {zero}")


def coverage_zero_actions(out):
    """Names of actions that -coverage 1 reports as never taken (vacuity control)."""
    zero = []
    for m in re.finditer(r"<(\w+) line \d+, col \d+ to line \d+, col \d+ of module (\w+)>: (\d+):(\d+)", out):
        if int(m.group(3)) == 0 and int(m.group(4)) == 0:
            zero.append(m.group(1))
    return sorted(set(zero))


# ------------------------------------------------------------------------------------------
# TLA+ value (as printed by TLC) -> Python.  Handles ints, strings, booleans, sequences <<>>,
# sets {}, records [a |-> 1], functions (a :> 1 @@ b :> 2), model values / identifiers.
# ------------------------------------------------------------------------------------------

def parse_value(s):
    v, i = _pv(s, _skip(s, 0))
    return v


def _skip(s, i):
    while i < len(s) and s[i].isspace():
        i += 1
    return i


def _pv(s, i):
    i = _skip(s, i)
    c = s[i]
    if s.startswith("<<", i):
        i += 2
        items = []
        i = _skip(s, i)
        if s.startswith(">>", i):
            return items, i + 2
        while True:
            v, i = _pv(s, i)
            items.append(v)
            i = _skip(s, i)
            if s.startswith(">>", i):
                return items, i + 2
            assert s[i] == ",", (s[i - 20:i + 20])
            i += 1
    if c == "{":
        i += 1
        items = []
        i = _skip(s, i)
        if s[i] == "}":
            return frozenset(), i + 1
        while True:
            v, i = _pv(s, i)
            items.append(_hashable(v))
            i = _skip(s, i)
            if s[i] == "}":
                return frozenset(items), i + 1
            assert s[i] == ","
            i += 1
    if c == "[":
        i += 1
        rec = {}
        while True:
            i = _skip(s, i)
            m = re.match(r"(\w+)\s*\|->", s[i:])
            assert m, s[i:i + 40]
            i += m.end()
            v, i = _pv(s, i)
            rec[m.group(1)] = v
            i = _skip(s, i)
            if s[i] == "]":
                return rec, i + 1
            assert s[i] == ","
            i += 1
    if c == "(":
        i += 1
        fn = {}
        while True:
            k, i = _pv(s, i)
            i = _skip(s, i)
            assert s.startswith(":>", i), s[i:i + 20]
            i += 2
            v, i = _pv(s, i)
            fn[_hashable(k)] = v
            i = _skip(s, i)
            if s[i] == ")":
                return fn, i + 1
            assert s.startswith("@@", i), s[i:i + 20]
            i += 2
    if c == '"':
        j = i + 1
        buf = []
        while s[j] != '"':
            if s[j] == "\\":
                j += 1
            buf.append(s[j])
            j += 1
        return "".join(buf), j + 1
    m = re.match(r"-?\d+", s[i:])
    if m:
        j = i + m.end()
        # ranges a..b
        m2 = re.match(r"\.\.(-?\d+)", s[j:])
        if m2:
            return list(range(int(m.group(0)), int(m2.group(1)) + 1)), j + m2.end()
        return int(m.group(0)), j
    m = re.match(r"\w+", s[i:])
    assert m, s[i:i + 40]
    w = m.group(0)
    if w == "TRUE":
        return True, i + 4
    if w == "FALSE":
        return False, i + 5
    return w, i + len(w)


def _hashable(v):
    if isinstance(v, list):
        return tuple(_hashable(x) for x in v)
    if isinstance(v, dict):
        return tuple(sorted((k, _hashable(x)) for k, x in v.items()))
    return v
