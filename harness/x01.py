"""X01 - growing the specification beyond the listed properties (DESIGN.md section 6): the *session* level.

Not registered in MANIFEST.json, no properties.jsonl entry: the property layer is written in spec/sys/Session.tla from the
docstrings / comments of the code (every clause names its source in the module header).  Four parts:

 1 glob    spikeglx.glob_ephys_files, get_probes_from_folder, get_neuropixel_version_from_files / _from_folder
 2 sync    spikeglx.get_hardware_config, _sync_map_from_hardware_config, get_sync_map
 3 recon   neuropixel.NP2Reconstructor.process (preconditions, kept metadata, compress)
 4 reader  spikeglx.Reader open / close / context manager / read / is_open, module function spikeglx.read

For each part
 a. TLC (spec/mc/MC_Session.tla + Session_*.cfg): implementation layer (transcription of the code) => property layer over a
    box, one JVM per box, all started together; the POSTCONDITION exports the expected result of every case and the
    vacuity facts (every branch / deviation class occurs in the box).
 b. spec -> code: every exported case is replayed on the real code (real temporary directories / wiring files / split
    recordings / readers).  real result != expected result  ->  ctx.violation  (the code changed; exit 1).
 c. code -> spec: a sample of those executions plus executions outside the boxes (larger random trees, the repository's
    wiring fixtures) are validated by spec/trace/SessionTrace.tla: `impl` verdict = not the transcription's value
    (violation), `prop` verdict = a property-layer clause is false on the observed values.  The unchanged code
    contradicts some of the clauses its own docstrings suggest: those are the documented deviation classes Dev* of
    Session.tla; they are confirmed here on the real code and reported with ctx.observe (never a failure).
 d. binding self-test: corrupted traces must get an `impl` verdict, perturbed expectations must be flagged by the
    replay comparison (else machinery failure, exit 2).

SAFETY: a closed numpy memmap must never be read (segmentation fault).  The reader replay refuses to call read() unless
the projected handle state is "live", and the model cuts every call sequence before a read through a closed handle.
"""
import copy
import json
import logging
import random
import shutil
import threading
from pathlib import Path

import numpy as np

from vkit import metagen, tlc, tracecheck

TRACE = ("trace/SessionTrace.tla", "trace/SessionTrace.cfg")
NOFILE = {"stem": "", "stream": "", "e": ""}


# ======================================================================================================================
# TLC runs (parallel JVMs)
# ======================================================================================================================
class Models:
    def __init__(self, ctx):
        self.ctx = ctx
        self.res = {}
        self.threads = {}
        self.lock = threading.Lock()

    def start(self, name, cfg, workers=2, coverage=False, timeout=2400):
        out = Path(self.ctx.scratch) / f"export_{name}.json"

        def job():
            try:
                r = tlc.run("mc/MC_Session.tla", f"mc/{cfg}", workers=workers, timeout=timeout, env={"OUT_FILE": str(out)},
                            coverage=coverage, heap="6g")
                self.res[name] = (r, out, cfg)
            except Exception as e:   # reported by get()
                self.res[name] = (e, out, cfg)
        th = threading.Thread(target=job, daemon=True)
        th.start()
        self.threads[name] = th

    def get(self, name, actions=None):
        self.threads[name].join()
        r, out, cfg = self.res[name]
        if isinstance(r, Exception):
            raise r if isinstance(r, tlc.TLCError) else tlc.TLCError(f"TLC run {cfg}: {r!r}")
        self.ctx.tlc(r, cfg)
        if not r.ok:
            raise tlc.TLCError(f"Session model ({cfg}): {r.invariant_violated or 'postcondition / error'}: the implementation layer "
                               f"contradicts the property layer outside the documented deviation classes\n{r.out[-2500:]}")
        if actions is not None:   # vacuity: the actions of this part must all have been taken (-coverage 1 action counts)
            import re
            taken = {m.group(1) for m in re.finditer(r"<(\w+) line \d+, col \d+ to line \d+, col \d+ of module Session>: (\d+):(\d+)", r.out)
                     if int(m.group(3)) > 0}
            zero = sorted(set(actions) - taken)
            if zero:
                raise tlc.TLCError(f"vacuity: actions never taken in {cfg}: {zero}")
        return json.loads(out.read_text())


# ======================================================================================================================
# 1. glob
# ======================================================================================================================
def split_name(name):
    stem, stream, e = name.rsplit(".", 2)
    return {"stem": stem, "stream": stream, "e": e}


def build_tree(base, t):
    """creates the folders / empty files of the abstract tree t under base; returns the paths by folder index (1-based)"""
    paths = [None]
    for d, (nm, par) in enumerate(zip(t["name"], t["parent"]), start=1):
        p = (Path(base) if par == 0 else paths[par]) / nm
        p.mkdir(parents=True, exist_ok=True)
        for f in t["files"][d - 1]:
            (p / f).touch()
        paths.append(p)
    return paths


def conv_entries(res, paths):
    """real result -> abstract entries (the observables of the property layer)"""
    idx = {str(p): d for d, p in enumerate(paths) if p is not None}
    out = []
    for e in res:
        keys = set(e.keys())
        if keys == {"label", "ap", "lf", "path"}:
            kind, f, lf = "ap", e["ap"], e["lf"]
        elif keys == {"label", "nidq", "path"}:
            kind, f, lf = "nidq", e["nidq"], None
        else:
            kind, f, lf = "keys:" + ",".join(sorted(keys)), None, None
        d = idx.get(str(e.get("path")), 0)
        ent = {"kind": kind, "dir": d, "fdir": d, "label": e.get("label") if isinstance(e.get("label"), str) else repr(e.get("label")),
               "file": dict(NOFILE), "lf": dict(NOFILE), "lfdir": d}
        if f is not None:
            ent["file"], ent["fdir"] = split_name(Path(f).name), idx.get(str(Path(f).parent), 0)
        if lf is not None:
            ent["lf"], ent["lfdir"] = split_name(Path(lf).name), idx.get(str(Path(lf).parent), 0)
        out.append(ent)
    return out


def fname(f):
    return "" if f["e"] == "" and f["stem"] == "" else f"{f['stem']}.{f['stream']}.{f['e']}"


def flat(ent):
    if ent["fdir"] != ent["dir"] or ent["lfdir"] != ent["dir"]:
        return ["misplaced:" + ent["kind"], ent["dir"], ent["label"], fname(ent["file"]), fname(ent["lf"])]
    return [ent["kind"], ent["dir"], ent["label"], fname(ent["file"]), fname(ent["lf"])]


def glob_mismatch(drivers, got):
    """None if the real entries `got` (flat) are a choice of exactly one allowed entry per recording, else a description"""
    need = [d for d in drivers if d["allowed"]]
    if len(got) != len(need):
        return f"{len(got)} entries returned, {len(need)} expected"
    used = set()
    for g in got:
        hit = [i for i, d in enumerate(need) if i not in used and g in d["allowed"]]
        if not hit:
            return f"entry {g} is none of the expected ones"
        used.add(hit[0])
    return None


def glob_call(root, o):
    import spikeglx
    return spikeglx.glob_ephys_files(root, suffix=o["suffix"], ext=o["ext"], recursive=o["recursive"], bin_exists=o["binex"])


def glob_observe(case, base):
    """one real execution for an exported case (or an abstract tree + options): the trace record"""
    import spikeglx
    paths = build_tree(base, case["t"])
    try:
        return glob_observe_built(case, paths)
    finally:
        shutil.rmtree(base, ignore_errors=True)


def glob_observe_built(case, paths, folder_calls=True):
    import spikeglx
    t, o = case["t"], case["o"]
    res = glob_call(paths[1], o)
    ents = conv_entries(res, paths)
    rec = {"kind": "glob", "t": {"name": t["name"], "parent": t["parent"], "files": [[split_name(f) for f in fs] for fs in t["files"]]},
           "o": o, "out": ents, "vfiles": spikeglx.get_neuropixel_version_from_files(res)}
    if folder_calls:
        pr = spikeglx.get_probes_from_folder(paths[1])
        rec["probes"] = [[l, pr.count(l)] for l in sorted(set(pr))]
        rec["version"] = spikeglx.get_neuropixel_version_from_folder(paths[1])
    return rec


def glob_judge(ctx, case, rec, tree_level):
    """spec -> code comparison of one case; returns True if it agrees"""
    ok = True
    desc = f"tree {tree_str(case['t'])} options {case['o']}"
    got = [flat(e) for e in rec["out"]]
    m = glob_mismatch(case["drivers"], got)
    if m:
        ok = False
        ctx.violation("glob:entries", f"glob_ephys_files: {m}; {desc}; returned {got}", {"part": "glob", "case": case})
    if rec["vfiles"] != case["vfiles"]:
        ok = False
        ctx.violation("glob:version_from_files", f"get_neuropixel_version_from_files = {rec['vfiles']}, expected {case['vfiles']}; {desc}",
                      {"part": "glob", "case": case})
    if tree_level:
        if sorted(map(list, rec["probes"])) != sorted(map(list, case["probes"])):
            ok = False
            ctx.violation("glob:probes_from_folder", f"get_probes_from_folder = {rec['probes']}, expected {case['probes']}; {desc}",
                          {"part": "glob", "case": case})
        if rec["version"] != case["version"]:
            ok = False
            ctx.violation("glob:version_from_folder", f"get_neuropixel_version_from_folder = {rec['version']}, expected "
                          f"{case['version']}; {desc}", {"part": "glob", "case": case})
    return ok


def tree_str(t):
    parts = []
    for d, (nm, par, fs) in enumerate(zip(t["name"], t["parent"], t["files"]), start=1):
        parts.append(f"{d}:{nm}<{par}>[{' '.join(fs)}]")
    return " ".join(parts)


def glob_replay_all(ctx, cases):
    """every exported case on a real temporary directory; cases sharing a tree share the directory"""
    bytree = {}
    for c in cases:
        bytree.setdefault(json.dumps(c["t"], sort_keys=True), []).append(c)
    traces, n = [], 0
    base = Path(ctx.scratch) / "glob"
    for k, (key, cs) in enumerate(bytree.items()):
        root = base / f"t{k}"
        paths = build_tree(root, cs[0]["t"])
        try:
            for j, c in enumerate(cs):
                rec = glob_observe_built(c, paths, folder_calls=(j == 0))
                if j > 0:
                    rec["probes"], rec["version"] = first["probes"], first["version"]
                else:
                    first = rec
                glob_judge(ctx, c, rec, tree_level=(j == 0))
                n += 1
                ctx.count(1, key=("glob", key, json.dumps(c["o"], sort_keys=True)) if rec["out"] else None)
                if (n % 23) == 0:
                    traces.append(rec)
        finally:
            shutil.rmtree(root, ignore_errors=True)
    ctx.cov["glob_cases_replayed"] = ctx.cov.get("glob_cases_replayed", 0) + n
    ctx.cov["glob_trees"] = ctx.cov.get("glob_trees", 0) + len(bytree)
    return traces


def glob_random_traces(ctx, n):
    """executions outside the boxes: 4-6 folders, two stems, any file subset, every option incl. suffix .ch/.bin/.cbin"""
    rnd = random.Random(ctx.seed + 101)
    stems = ["r_g0_t0.imec0", "r_g1_t0.imec1"]
    names = ["raw_ephys_data", "probe00", "probe01", "sess", "3B", "imec0"]
    traces = []
    for i in range(n):
        nd = rnd.randint(2, 6)
        t = {"name": [], "parent": [], "files": []}
        for d in range(1, nd + 1):
            par = 0 if d == 1 else rnd.randint(1, d - 1)
            sibs = {t["name"][j] for j in range(d - 1) if t["parent"][j] == par}
            t["name"].append(rnd.choice([x for x in names if x not in sibs]))
            t["parent"].append(par)
            fs = []
            if rnd.random() < 0.75:
                for st in stems[: rnd.choice([1, 1, 2])]:
                    for stream in ("ap", "lf", "nidq"):
                        for e in ("meta", "bin", "cbin", "ch"):
                            if rnd.random() < (0.55 if stream != "nidq" else 0.3):
                                fs.append(f"{st}.{stream}.{e}")
            t["files"].append(fs)
        o = {"ext": rnd.choice(["bin", "bin", "ch", "meta", "cbin"]), "suffix": rnd.choice([".meta", ".meta", ".ch", ".bin", ".cbin"]),
             "recursive": rnd.random() < 0.6, "binex": rnd.random() < 0.6}
        traces.append(glob_observe({"t": t, "o": o}, Path(ctx.scratch) / "globr" / f"r{i}"))
        ctx.count(1, key=("globr", i))
    return traces


# ======================================================================================================================
# 2. sync map
# ======================================================================================================================
def sync_dict(c):
    hc = {}
    if c["sys"] != "none":
        hc["SYSTEM"] = c["sys"]
    if c["dig"]["present"]:
        hc["SYNC_WIRING_DIGITAL"] = {p: n for p, n in c["dig"]["w"]}
    if c["ana"]["present"]:
        hc["SYNC_WIRING_ANALOG"] = {p: n for p, n in c["ana"]["w"]}
    return hc


def sync_call(fn, *a):
    try:
        m = fn(*a)
        return "", m
    except Exception as e:   # the exception class is part of the expected result
        return type(e).__name__, {}


def sync_record(c, exc, m):
    def line(v):   # a line number; anything else the real code may put there is kept distinguishable
        return int(v) if isinstance(v, (int, np.integer)) and not isinstance(v, bool) else (-1 if v is None else -99)
    return {"kind": "sync", "c": c, "exc": exc, "map": sorted([[str(k), line(v)] for k, v in (m or {}).items()])}


def sync_replay_all(ctx, exp):
    import neuropixel
    import spikeglx
    # the transcribed tables against the code's table and against Python's own int() (the second is about the model, not the code)
    for sysname, key in (("3A", "pinout3A"), ("3B", "pinout3B")):
        mine = {p: (None if v == -1 else v) for p, v in exp[key]}
        if mine != neuropixel.SYNC_PIN_OUT[sysname]:
            diff = {p: (mine.get(p, "<absent>"), neuropixel.SYNC_PIN_OUT[sysname].get(p, "<absent>"))
                    for p in set(mine) | set(neuropixel.SYNC_PIN_OUT[sysname]) if mine.get(p, "<absent>") != neuropixel.SYNC_PIN_OUT[sysname].get(p, "<absent>")}
            ctx.violation("sync:pinout-table", f"neuropixel.SYNC_PIN_OUT['{sysname}'] differs from the documented pin-out "
                          f"(spec, real): {diff}", {"part": "sync-table", "system": sysname})
    for key, k in (("int3", 3), ("int2", 2)):
        for p, v in exp[key]:
            try:
                w = int(p[k:])
            except ValueError:
                w = -2
            if w != v:
                raise tlc.TLCError(f"Session.tla table {key}[{p}] = {v} but int('{p}'[{k}:]) gives {w}")
    traces, n = [], 0
    folder = Path(ctx.scratch) / "sync"
    folder.mkdir(exist_ok=True)
    for i, case in enumerate(exp["cases"]):
        c = case["c"]
        hc = sync_dict(c)
        exc, m = sync_call(spikeglx._sync_map_from_hardware_config, copy.deepcopy(hc))
        rec = sync_record(c, exc, m)
        sync_judge(ctx, case, rec, "_sync_map_from_hardware_config(dict)")
        n += 1
        if i % 4 == 0 or case["exc"]:
            # through the file system: get_sync_map(folder), get_sync_map(file), get_hardware_config
            f = folder / f"r_g0_t0.imec{i}.wiring.json"
            f.write_text(json.dumps(hc, indent=1))
            for arg in (folder, f):
                exc2, m2 = sync_call(spikeglx.get_sync_map, arg)
                if not hc:   # `if not hc` : an empty description is treated like a missing file
                    if (exc2, m2) != ("", None):
                        ctx.violation("sync:none", f"get_sync_map on an empty wiring description returned {exc2 or m2}, None expected",
                                      {"part": "sync", "case": case})
                else:
                    sync_judge(ctx, case, sync_record(c, exc2, m2), f"get_sync_map({'folder' if arg is folder else 'file'})")
            if spikeglx.get_hardware_config(folder) != hc or spikeglx.get_hardware_config(f) != hc:
                ctx.violation("sync:hardware_config", f"get_hardware_config does not return the content of the wiring file {hc}",
                              {"part": "sync", "case": case})
            f.unlink()
            n += 2
        ctx.count(1, key=("sync", i) if case["map"] else None)
        if i % 9 == 0:
            traces.append(rec)
    # SNone: "folder or json file -> dictionary or None"
    empty = folder / "empty"
    empty.mkdir()
    (empty / "settings.json").write_text("{}")
    for arg, what in ((empty, "a folder without wiring file"), (folder / "nothere.wiring.json", "a file that does not exist"),
                      (folder / "nothere", "a folder that does not exist")):
        try:
            got = (spikeglx.get_hardware_config(arg), spikeglx.get_sync_map(arg))
        except Exception as e:
            got = f"{type(e).__name__}: {e}"
        if got != (None, None):
            ctx.violation("sync:none", f"get_hardware_config / get_sync_map on {what} returned {got}, (None, None) expected",
                          {"part": "sync-none"})
    # the two wiring fixtures of the repository, judged by the trace spec (outside the box: all pins of the real files)
    import os
    fx = Path(os.environ.get("VERIF_REPO", "/repo")) / "src" / "tests" / "fixtures"
    for f in sorted(fx.glob("*.wiring.json")):
        hc = json.loads(f.read_text())
        c = {"sys": hc.get("SYSTEM", "none"),
             "dig": {"present": "SYNC_WIRING_DIGITAL" in hc, "w": [[p, nme] for p, nme in hc.get("SYNC_WIRING_DIGITAL", {}).items()]},
             "ana": {"present": "SYNC_WIRING_ANALOG" in hc, "w": [[p, nme] for p, nme in hc.get("SYNC_WIRING_ANALOG", {}).items()]}}
        d = folder / ("fx_" + f.stem)
        d.mkdir()
        shutil.copy(f, d / f.name)
        exc, m = sync_call(spikeglx.get_sync_map, d)
        traces.append(sync_record(c, exc, m))
        n += 1
    ctx.cov["sync_calls"] = n
    return traces


def sync_judge(ctx, case, rec, how):
    if rec["exc"] != case["exc"] or sorted(map(list, rec["map"])) != sorted(map(list, case["map"])):
        ctx.violation("sync:map", f"{how} on {sync_dict(case['c'])}: got {rec['exc'] or rec['map']}, expected {case['exc'] or case['map']}",
                      {"part": "sync", "case": case})
        return False
    return True


# ======================================================================================================================
# 3. NP2Reconstructor
# ======================================================================================================================
MARK = "x01Marker=1"
NS_RECON = 700


class ReconTemplates:
    """split recordings, made once: <tpl>/<tag>/raw_ephys_data/probe00a.. + orig/ (the recording that was split)"""
    count = 0

    def __init__(self, ctx):
        ReconTemplates.count += 1
        self.root = Path(ctx.scratch) / f"recon_tpl{ReconTemplates.count}"
        self.made = {}
        self.rng = np.random.default_rng(ctx.seed + 7)

    def get(self, kind, nsh):
        import np2common as n2
        tag = f"{kind}_{nsh}"
        if tag in self.made:
            return self.made[tag]
        root = self.root / tag
        raw = root / "raw_ephys_data"
        if kind == "NP2.4":
            sites = n2.shank_map("interleaved", 8, self.rng, nsh)
            binf, d, info = n2.make_recording(root, NS_RECON, self.rng, kind="NP2.4", n=8, sites=sites)
            status, events, conv, exc = n2.convert(binf, 1200)
            if status != 1 or exc:
                raise tlc.TLCError(f"could not split the template recording ({nsh} shanks): status {status} {exc}")
            shutil.move(str(raw / "probe00"), str(root / "orig"))
            folders = sorted(p for p in raw.glob("probe00*"))
            if len(folders) != nsh:
                raise tlc.TLCError(f"template: {len(folders)} shank folders for {nsh} shanks")
        else:
            folders = []
            for suffix in "ab":
                binf, d, info = n2.make_recording(root, NS_RECON, self.rng, kind=kind, n=8, label="probe00" + suffix)
                folders.append(binf.parent)
            (root / "orig").mkdir()
            shutil.copy(binf, root / "orig" / binf.name)
            shutil.copy(binf.with_suffix(".meta"), root / "orig" / binf.with_suffix(".meta").name)
        orig_bin = next((root / "orig").glob("*.ap.bin"))
        self.made[tag] = {"folders": folders, "orig_bin": orig_bin, "orig_meta": orig_bin.with_suffix(".meta")}
        return self.made[tag]


def recon_project(probe, pc, status=-1, exc=""):
    files = sorted({p.suffix[1:] for p in probe.iterdir()}) if probe.exists() else []
    meta = "none"
    mf = next(iter(probe.glob("*.meta")), None) if probe.exists() else None
    if mf is not None:
        meta = "pre" if MARK in mf.read_text() else "new"
    return {"pc": pc, "dir": probe.exists(), "files": files, "meta": meta, "status": status, "exc": exc}


def recon_run(ctx, c, tpl, idx):
    """one real run for the abstract case c; returns the trace record"""
    import neuropixel
    import spikeglx
    from c03 import meta_diff
    T = tpl.get(c["kind"], c["nsh"])
    work = Path(ctx.scratch) / "recon" / f"c{idx}"
    shutil.rmtree(work, ignore_errors=True)
    raw = work / "raw_ephys_data"
    raw.mkdir(parents=True)
    letters = "abcdefgh"
    for i in range(c["k"]):
        src = T["folders"][min(i, len(T["folders"]) - 1)]      # surplus folders are copies of the last shank folder
        shutil.copytree(src, raw / ("probe00" + letters[i]))
    probe = raw / "probe00"
    pre_text = None
    if c["pre"] != "none":
        probe.mkdir()
        size = T["orig_bin"].stat().st_size + (0 if c["pre"] == "match" else 2)
        lines = [(f"fileSizeBytes={size}" if ln.startswith("fileSizeBytes=") else ln) for ln in T["orig_meta"].read_text().splitlines()]
        pre_text = "\n".join(lines + [MARK]) + "\n"
        (probe / T["orig_meta"].name).write_text(pre_text)
    events = [recon_project(probe, "new")]
    rc = None
    try:
        rc = neuropixel.NP2Reconstructor(raw, "probe00", compress=c["compress"])
        events.append(recon_project(probe, "constructed"))
        names = {"_prepare_files": "prepared", "get_params": "params", "_reconstruct": "reconstructed", "write_metadata": "metadata",
                 "compress_file": "compressed"}
        for meth, pc in names.items():
            def make(orig, pc):
                def wrapped(*a, **kw):
                    r = orig(*a, **kw)
                    if not (pc == "prepared" and r is None):   # `return` without shank_info: process() returns 0 next
                        events.append(recon_project(probe, pc))
                    return r
                return wrapped
            setattr(rc, meth, make(getattr(rc, meth), pc))
        status = rc.process()
        events.append(recon_project(probe, "returned", status=int(status)))
    except Exception as e:
        events.append(recon_project(probe, "raised", exc=type(e).__name__))
    finally:
        for si in (getattr(rc, "shank_info", None) or {}).values():
            sr = si.get("sr")
            if sr is not None and sr.is_open:
                sr.close()
    data_ok, detail = True, ""
    last = events[-1]
    if last["status"] == 1:
        orig = np.fromfile(T["orig_bin"], dtype=np.int16)
        try:
            if "cbin" in last["files"]:
                sr = spikeglx.Reader(next(probe.glob("*.cbin")), sort=False)
                got = np.array(sr._raw[:, :]).reshape(-1)
                sr.close()
            else:
                got = np.fromfile(next(probe.glob("*.bin")), dtype=np.int16)
            if got.size != orig.size or not np.array_equal(got, orig):
                data_ok, detail = False, "the reconstructed samples differ from the recording that was split"
            mtxt = next(probe.glob("*.meta")).read_text()
            if last["meta"] == "pre" and mtxt != pre_text:
                data_ok, detail = False, "the metadata file that was to be kept has been modified"
            if last["meta"] == "new":
                diff = meta_diff(spikeglx.read_meta_data(T["orig_meta"]), spikeglx.read_meta_data(next(probe.glob("*.meta"))))
                if diff:
                    data_ok, detail = False, f"the rewritten metadata differ from the original: {diff[:4]}"
        except Exception as e:
            data_ok, detail = False, f"reading the result back: {type(e).__name__}: {e}"
    shutil.rmtree(work, ignore_errors=True)
    return {"kind": "recon", "c": c, "events": events, "data_ok": data_ok, "detail": detail}


def recon_judge(ctx, case, rec):
    exp = [dict(st, files=sorted(st["files"])) for st in case["path"]]
    got = rec["events"]
    if got != exp or not rec["data_ok"]:
        k = next((i for i in range(min(len(got), len(exp))) if got[i] != exp[i]), min(len(got), len(exp)))
        what = (f"step {k}: observed {got[k] if k < len(got) else '<none>'}, expected {exp[k] if k < len(exp) else '<none>'}"
                if got != exp else rec["detail"])
        ctx.violation("recon:" + ("steps" if got != exp else "data"), f"NP2Reconstructor {case['c']}: {what}", {"part": "recon", "case": case})
        return False
    return True


def recon_replay_all(ctx, cases):
    tpl = ReconTemplates(ctx)
    if ctx.quick:   # every failing precondition of every shank count; the successful / compressing runs of 1, 2 and 4 shanks
        cases = [c for c in cases if not (c["c"]["kind"] == "NP2.4" and c["c"]["nsh"] == 3 and c["c"]["k"] not in (2, 3, 4))
                 and not (c["c"]["kind"] == "3B2" and c["c"]["pre"] == "mismatch")]
    traces = []
    for i, case in enumerate(sorted(cases, key=lambda x: json.dumps(x["c"], sort_keys=True))):
        rec = recon_run(ctx, case["c"], tpl, i)
        recon_judge(ctx, case, rec)
        ctx.count(1, key=("recon", json.dumps(case["c"], sort_keys=True)))
        traces.append({k: v for k, v in rec.items() if k != "detail"})
    ctx.cov["recon_runs"] = len(traces)
    return traces


# ======================================================================================================================
# 4. Reader life-cycle
# ======================================================================================================================
class ReaderFiles:
    count = 0

    def __init__(self, ctx):
        import spikeglx
        ReaderFiles.count += 1
        root = Path(ctx.scratch) / f"reader{ReaderFiles.count}"
        rng = np.random.default_rng(ctx.seed + 3)
        txt, info = metagen.make_meta("3B2", metagen.dense_sites("3B2", n=8), ns=60)
        self.data = metagen.random_int16(rng, 60, 9)
        self.bin = metagen.write_recording(root / "bin", "r_g0_t0.imec0", txt, self.data)
        cb = metagen.write_recording(root / "cbin", "r_g0_t0.imec0", txt, self.data)
        sr = spikeglx.Reader(cb)
        self.cbin = sr.compress_file(keep_original=False)
        sr.close()
        (root / "flat").mkdir()
        self.flat = root / "flat" / "flat.bin"
        self.data.tofile(self.flat)
        sr = spikeglx.Reader(self.bin)
        self.volts = sr.read(slice(0, 5), sync=False)
        self.s2v = sr.channel_conversion_sample2v["ap"].copy()
        sr.close()

    def new(self, kind, open_):
        import spikeglx
        if kind == "flat":
            return spikeglx.Reader(self.flat, open=open_, nc=9, ns=60, fs=30000)
        return spikeglx.Reader(self.bin if kind == "bin" else self.cbin, open=open_)


def handle_state(sr):
    raw = sr.__dict__.get("_raw", None)
    if raw is None:
        return "none"
    if hasattr(raw, "_mmap"):
        return "closed" if raw._mmap.closed else "live"
    cd = getattr(raw, "cdata", None)
    return "closed" if (cd is None or cd.closed) else "live"


def isopen_val(sr):
    try:
        return str(bool(sr.is_open))
    except AttributeError:
        return "AttributeError"


def reader_run(files, kind, open_, seq):
    """executes the call sequence on a fresh Reader; NEVER reads unless the handle is live"""
    sr = files.new(kind, open_)
    rec = {"kind": "reader", "rkind": kind, "open": open_, "seq": list(seq), "new": ["ok", handle_state(sr), isopen_val(sr)], "obs": []}
    try:
        for a in seq:
            try:
                if a == "open":
                    sr.open()
                    obs = "ok"
                elif a == "close":
                    sr.close()
                    obs = "ok"
                elif a == "enter":
                    obs = "ok" if sr.__enter__() is sr else "not-self"
                elif a == "exit":
                    sr.__exit__(None, None, None)
                    obs = "ok"
                elif a == "isopen":
                    obs = isopen_val(sr)
                elif a == "read":
                    if handle_state(sr) == "closed":
                        obs = "REFUSED"      # the harness does not read through a closed handle (and the model never asks for it)
                    else:
                        d = sr.read(nsel=slice(0, 5), sync=False)
                        if kind == "flat":   # no metadata: every channel is scaled with the default NP1 AP factor
                            good = np.allclose(d, files.data[:5].astype(np.float64) * 2.34375e-06, rtol=1e-5, atol=0)
                        else:
                            good = np.array_equal(d, files.volts)
                        obs = "data" if (d.shape == (5, 9) and d.dtype == np.float32 and good) else "baddata"
                else:
                    raise ValueError(a)
            except AttributeError:
                obs = "AttributeError"
            except IOError:
                obs = "IOError"
            rec["obs"].append([obs, handle_state(sr), isopen_val(sr)])
            if obs == "REFUSED":
                break
    finally:
        if handle_state(sr) == "live":
            raw = sr.__dict__["_raw"]
            getattr(raw, "_mmap", raw).close()
    return rec


def reader_judge(ctx, case, rec):
    if rec["new"] != list(case["new"]) or rec["obs"] != [list(x) for x in case["exp"]]:
        k = next((i for i in range(min(len(rec["obs"]), len(case["exp"]))) if rec["obs"][i] != list(case["exp"][i])), len(rec["obs"]))
        ctx.violation("reader:lifecycle", f"Reader({case['kind']}, open={case['open']}) calls {case['seq']}: constructor "
                      f"{rec['new']} (expected {case['new']}), call {k}: {rec['obs'][k] if k < len(rec['obs']) else '<none>'} "
                      f"(expected {case['exp'][k] if k < len(case['exp']) else '<none>'}) as [result, handle, is_open]",
                      {"part": "reader", "case": case})
        return False
    return True


def reader_module_read(ctx, files):
    """spikeglx.read(file, a, b) = `with Reader(file) as sr: sr.read_samples(a, b)` + meta; the handle is released on return"""
    import spikeglx
    seen = []
    orig = spikeglx.Reader.close

    def close(self):
        orig(self)
        seen.append(handle_state(self))
    n = 0
    for kind, f in (("bin", files.bin), ("cbin", files.cbin)):
        for a, b in ((0, 10), (3, 10), (55, 60), (0, 60), (7, 8)):
            spikeglx.Reader.close = close
            try:
                del seen[:]
                D, sync, meta = spikeglx.read(f, a, b)
            finally:
                spikeglx.Reader.close = orig
            sr = spikeglx.Reader(f)
            D0, s0 = sr.read_samples(a, b)
            m0 = dict(sr.meta)
            sr.close()
            ok = (np.array_equal(D, D0) and np.array_equal(sync, s0) and D.dtype == np.float32 and D.shape == (b - a, 9)
                  and dict(meta) == m0 and seen and seen[-1] != "live")
            n += 1
            if not ok:
                ctx.violation("reader:module-read", f"spikeglx.read({kind}, {a}, {b}) does not equal Reader.read_samples + meta or left "
                              f"the handle open (handle after close: {seen})", {"part": "reader-module", "kind": kind, "a": a, "b": b})
    return n


def reader_readsync(ctx, files, table):
    """read_sync on a fresh reader for every (kind, open): expected result, and whether the promise of the warning text holds"""
    for row in table:
        sr = files.new(row["kind"], row["open"])
        try:
            if handle_state(sr) == "closed":
                obs = "REFUSED"
            else:
                s = sr.read_sync(slice(0, 5))
                obs = "data" if s.shape[0] == 5 and s.shape[1] >= 16 else "baddata"
        except AttributeError:
            obs = "AttributeError"
        except IOError:
            obs = "IOError"
        finally:
            if handle_state(sr) == "live":
                raw = sr.__dict__["_raw"]
                getattr(raw, "_mmap", raw).close()
        ctx.count(1, key=("readsync", row["kind"], row["open"]))
        if obs != row["exp"]:
            ctx.violation("reader:read_sync", f"Reader({row['kind']}, open={row['open']}).read_sync: {obs}, expected {row['exp']}",
                          {"part": "reader-sync", "row": row})
        elif row["open"] and not row["holds"]:
            ctx.observe("LSync: read_sync / read(sync=True) on an open flat-binary Reader (no metadata) logs 'Sync trace not labeled in "
                        "metadata. Assuming last trace' and then raises AttributeError (the column list is taken from the absent "
                        f"metadata) [{'documented deviation class' if row['dev'] else 'outside the documented classes'}]")


def reader_replay_all(ctx, exp):
    files = ReaderFiles(ctx)
    cases = exp["cases"]
    reader_readsync(ctx, files, exp["readsync"])
    traces = []
    for i, case in enumerate(cases):
        rec = reader_run(files, case["kind"], case["open"], case["seq"])
        reader_judge(ctx, case, rec)
        ctx.count(1, key=("reader", case["kind"], case["open"], tuple(case["seq"])) if case["seq"] else None)
        if i % 5 == 0:
            traces.append(rec)
    ctx.cov["reader_sequences"] = len(cases)
    ctx.cov["reader_module_read_calls"] = reader_module_read(ctx, files)
    return traces


# ======================================================================================================================
def nstates(t):
    return 3


OBS_TEXT = {
    "GRecursive": "glob_ephys_files(recursive=False) still returns nidq entries of sub-folders (the nidq loop uses rglob); "
                  "ap/lf entries honour the option",
    "GExists": "glob_ephys_files(bin_exists=True) returns an entry {nidq: None} for a .nidq.meta whose binary is missing, while an "
               ".ap.meta without binary is skipped",
    "GProbesAp": "get_probes_from_folder returns the folder name of a nidq file as a probe label when that folder is not "
                 "raw_ephys_data (true of the '3B' folder of the tree drawn in the docstring of glob_ephys_files), and then labels repeat",
    "LTruthful": "Reader.close() does not reset `_raw`: is_open stays True after close()/__exit__, so read() on a closed reader is "
                 "not answered by the documented IOError and `with sr:` on a closed reader does not re-open it",
    "LWith": "`with sr:` on a Reader that was closed before enters with a closed handle (is_open still True, open() not called)",
    "LFlat": "Reader(flat_binary, open=False, nc=, ns=, fs=): `_raw` is never initialised on the no-metadata branch: is_open, read() "
             "and close() raise AttributeError instead of False / IOError / no-op",
    "LNotOpen": "read() on a never-opened flat-binary Reader raises AttributeError, not the documented IOError('Reader not open')",
}


def traceable(ctx, t):
    """the trace spec indexes the tree with the folders an entry names: an entry outside the tree is reported here"""
    if t["kind"] == "glob" and any(e["dir"] == 0 or e["fdir"] == 0 or e["lfdir"] == 0 for e in t["out"]):
        ctx.violation("glob:path-outside-tree", f"glob_ephys_files returned a path outside the folders of the tree: {json.dumps(t)[:400]}",
                      {"part": "glob-tree", "t": {"name": t["t"]["name"], "parent": t["t"]["parent"],
                                                  "files": [[fname(f) for f in fs] for fs in t["t"]["files"]]}, "o": t["o"]})
        return False
    return True


def judge_traces(ctx, traces, label):
    verdicts = tracecheck.validate(ctx, *TRACE, traces, label=label, nstates=nstates, jvms=4, workers=2)
    seen = {}
    for v in verdicts:
        t = traces[v["index"]]
        if v["impl"]:
            ctx.violation(v["impl"], f"trace validation: {t['kind']} execution is not a behaviour of the implementation layer of "
                          f"Session.tla ({v['impl']} at {v['pos']}): {json.dumps(t)[:400]}", {"part": "trace", "trace": t})
        if v["prop"]:
            seen.setdefault(v["prop"], []).append(v["index"])
    return verdicts, seen


def report_observations(ctx, seen, traces):
    for clause, idx in sorted(seen.items()):
        name, dev = (clause.split(":") + [""])[:2]
        t = traces[idx[0]]
        ex = json.dumps({k: t[k] for k in t if k in ("t", "o", "out", "probes", "rkind", "open", "new", "seq", "obs", "c", "map")})[:260]
        if dev == "dev":
            ctx.observe(f"{name}: {OBS_TEXT.get(name, 'documented deviation')} [{len(idx)} real execution(s) in this run, e.g. {ex}]")
        else:
            ctx.observe(f"{name}: property-layer clause false outside the documented deviation classes on {len(idx)} real "
                        f"execution(s), e.g. {ex}")


def selftest(ctx, traces, bad):
    """corrupted copies of accepted traces must get an impl verdict; perturbed expectations must be flagged by the replay"""
    rnd = random.Random(ctx.seed)
    good = {}
    for i, t in enumerate(traces):
        if i not in bad:
            good.setdefault(t["kind"], []).append(t)
    mut = []
    gl = [t for t in good.get("glob", []) if len(t["out"]) >= 1][:40]
    for j, t in enumerate(gl[:12]):
        t = copy.deepcopy(t)
        k = j % 4
        if k == 0:
            del t["out"][0]
        elif k == 1:
            t["out"][0]["label"] += "x"
        elif k == 2:
            t["out"].append(copy.deepcopy(t["out"][0]))
        else:
            t["version"] = "3A" if t["version"] == "3B" else "3B"
        mut.append(t)
    for j, t in enumerate([t for t in good.get("sync", []) if t["map"]][:6]):
        t = copy.deepcopy(t)
        if j % 2:
            t["map"][0][1] += 1
        else:
            del t["map"][0]
        mut.append(t)
    for j, t in enumerate([t for t in good.get("recon", []) if len(t["events"]) >= 6][:6]):
        t = copy.deepcopy(t)
        if j % 3 == 0:
            del t["events"][3]
        elif j % 3 == 1:
            t["events"][-1]["files"] = sorted(set(t["events"][-1]["files"]) ^ {"bin"})
        else:
            t["events"][-1]["status"] = 0
        mut.append(t)
    for j, t in enumerate([t for t in good.get("reader", []) if len(t["obs"]) >= 3][:6]):
        t = copy.deepcopy(t)
        if j % 2:
            t["obs"][1][2] = "False" if t["obs"][1][2] == "True" else "True"
        else:
            t["obs"][2][1] = "live" if t["obs"][2][1] != "live" else "closed"
        mut.append(t)
    kinds = {t["kind"] for t in mut}
    if kinds != {"glob", "sync", "recon", "reader"}:
        raise tlc.TLCError(f"self-test: no accepted trace to corrupt for {sorted({'glob', 'sync', 'recon', 'reader'} - kinds)}")
    keep = ctx.cov["traces_validated_against_impl"]
    v = tracecheck.validate(ctx, *TRACE, mut, label="selftest", nstates=nstates, jvms=1)
    ctx.cov["traces_validated_against_impl"] = keep
    flagged = {x["index"] for x in v if x["impl"]}
    if len(flagged) != len(mut):
        miss = [mut[i]["kind"] for i in range(len(mut)) if i not in flagged]
        raise tlc.TLCError(f"binding self-test: only {len(flagged)}/{len(mut)} corrupted traces were rejected (missed: {miss})")
    ctx.cov["selftest_corrupted_traces_rejected"] = len(flagged)


def selftest_replay(ctx, exports):
    """the spec -> code comparisons must notice a perturbed expectation (run on a throw-away context so nothing is reported)"""
    class Probe:
        def __init__(self):
            self.n = 0

        def violation(self, *a, **k):
            self.n += 1
    p = Probe()
    want = 0
    # glob: an expectation with one allowed entry removed / a label changed
    gc = [c for c in exports["glob"] if any(d["allowed"] for d in c["drivers"])][:3]
    for j, c in enumerate(gc):
        rec = glob_observe(c, Path(ctx.scratch) / "st" / f"g{j}")
        c2 = copy.deepcopy(c)
        d = next(d for d in c2["drivers"] if d["allowed"])
        if j % 2:
            d["allowed"] = []
        else:
            d["allowed"] = [[a[0], a[1], a[2] + "x", a[3], a[4]] for a in d["allowed"]]
        glob_judge(p, c2, rec, tree_level=False)
        want += 1
    sc = [c for c in exports["sync"]["cases"] if c["map"]][:2]
    for c in sc:
        c2 = copy.deepcopy(c)
        c2["map"][0][1] += 1
        import spikeglx
        exc, m = sync_call(spikeglx._sync_map_from_hardware_config, sync_dict(c["c"]))
        sync_judge(p, c2, sync_record(c["c"], exc, m), "selftest")
        want += 1
    files = ReaderFiles(ctx)
    rc = [c for c in exports["reader"]["cases"] if len(c["seq"]) >= 2][:2]
    for c in rc:
        c2 = copy.deepcopy(c)
        c2["exp"][1][2] = "False" if c2["exp"][1][2] == "True" else "True"
        reader_judge(p, c2, reader_run(files, c["kind"], c["open"], c["seq"]))
        want += 1
    rcn = [c for c in exports["recon"] if c["path"][-1]["status"] == 0][:1]
    tpl = ReconTemplates(ctx)
    for c in rcn:
        c2 = copy.deepcopy(c)
        c2["path"][-1]["status"] = 1
        recon_judge(p, c2, recon_run(ctx, c["c"], tpl, 9000))
        want += 1
    if p.n != want:
        raise tlc.TLCError(f"replay self-test: {p.n}/{want} perturbed expectations were flagged")
    ctx.cov["selftest_perturbed_expectations_flagged"] = p.n


GLOB_ACTIONS = {"GlobApSkip", "GlobApAppend", "GlobApEnd", "GlobNidqAppend", "GlobEnd"}
SYNC_ACTIONS = {"SyncNoSystem", "SyncPinOut", "SyncOther"}
RECON_ACTIONS = {"ReconConstruct", "ReconPrepareRaise", "ReconPrepareNot24", "ReconPrepareCount", "ReconPrepareOk", "ReconParams",
                 "ReconWrite", "ReconMetaKeep", "ReconMetaWrite", "ReconCompress", "ReconReturnPlain", "ReconReturn"}
READER_ACTIONS = {"ReaderOpen", "ReaderClose", "ReaderEnter", "ReaderExit", "ReaderRead", "ReaderIsOpen"}


def quiet():
    import mtscomp
    logging.getLogger("ibllib").setLevel(logging.CRITICAL)
    logging.getLogger("mtscomp").setLevel(logging.CRITICAL)
    mtscomp.tqdm = lambda it=None, **k: it          # progress bars off (cosmetic)


def run(ctx):
    quiet()
    ctx.level = "model_checking"
    models = Models(ctx)
    try:
        _run(ctx, models)
    finally:
        # the JVMs write their exports into ctx.scratch: none may outlive this function (run.py removes the scratch on return)
        for th in models.threads.values():
            th.join()


def _run(ctx, models):
    boxes = ["q1", "q2", "q3"] if ctx.quick else ["t1", "t2", "t3", "t4", "t5"]
    tier = "quick" if ctx.quick else "thorough"
    # small models first (their exports are needed first), coverage on (vacuity by action counts); the glob boxes use the
    # exported vacuity facts instead (coverage is expensive on 1e5 initial states)
    models.start("recon", "Session_recon.cfg", coverage=True)
    models.start("reader", f"Session_reader_{tier}.cfg", coverage=True)
    models.start("sync", f"Session_sync_{tier}.cfg", coverage=True)
    for b in boxes:
        models.start(b, f"Session_glob_{b}.cfg")
    exports = {}
    traces = []
    exports["recon"] = models.get("recon", RECON_ACTIONS)
    traces += recon_replay_all(ctx, exports["recon"])
    exports["reader"] = models.get("reader", READER_ACTIONS)
    traces += reader_replay_all(ctx, exports["reader"])
    exports["sync"] = models.get("sync", SYNC_ACTIONS)
    traces += sync_replay_all(ctx, exports["sync"])
    exports["glob"] = []
    vac = {}
    for b in boxes:
        e = models.get(b)
        for k, v in e["vac"].items():
            vac[k] = vac.get(k, False) or v
        exports["glob"] += e["cases"]
        traces += glob_replay_all(ctx, e["cases"])
    missing = [k for k, v in vac.items() if not v]
    if missing:
        raise tlc.TLCError(f"vacuity: no glob box witnesses {missing}")
    ctx.cov["glob_vacuity_facts_witnessed"] = sorted(vac)
    traces += glob_random_traces(ctx, 300 if ctx.quick else 4000)
    # code -> spec
    traces = [t for t in traces if traceable(ctx, t)]
    verdicts, seen = judge_traces(ctx, traces, "session")
    report_observations(ctx, seen, traces)
    want = {"GRecursive:dev", "GExists:dev", "GProbesAp:dev", "LTruthful:dev", "LFlat:dev"}
    ctx.cov["deviation_classes_confirmed_on_real_code"] = sorted(set(seen) & want)
    by = {}
    for t in traces:
        by[t["kind"]] = by.get(t["kind"], 0) + 1
    ctx.cov["traces_by_kind"] = by
    for k in ("glob", "sync", "recon", "reader"):
        s = next((t for t in traces if t["kind"] == k and (t.get("out") or t.get("map") or t.get("events") or t.get("obs"))), None)
        if s and len(json.dumps(s)) < 3000:
            ctx.sample(s)
    selftest(ctx, traces, {v["index"] for v in verdicts if v["impl"]})
    selftest_replay(ctx, exports)
    ctx.cov["rule"] = ("glob: every (tree, options) of the boxes (all subsets of the ap/lf files x nidq profiles, all subsets of the nidq "
                       "files, folder depth 1-3, folder named raw_ephys_data or not; 4-folder trees with file profiles; two recordings "
                       "in one folder) replayed on real directories + random larger trees; sync: every wiring of the box; recon: every "
                       "(version, shanks, folders, pre-existing metadata, compress); reader: every call sequence of length MaxLen cut "
                       "before a read through a closed handle; distinct = distinct case with a non-empty result")
    ctx.cov["exhaustive"] = True
    ctx.assumptions += ["glob order of directory entries is arbitrary: results are compared as multisets, `next(glob)` is a free choice "
                        "among the matching files", "file names of the universe are stem.stream.ext; fnmatch is transcribed as two tables "
                        "(ExtTable, SufMatch)", "the property layer of X01 is derived from docstrings/comments (Session.tla header), not given",
                        "reads through a closed memmap are never executed"]


def replay(ctx, sc):
    quiet()
    part = sc.get("part")
    if part == "glob":
        c = sc["case"]
        glob_judge(ctx, c, glob_observe(c, Path(ctx.scratch) / "replay"), tree_level=True)
    elif part == "sync":
        import spikeglx
        c = sc["case"]
        exc, m = sync_call(spikeglx._sync_map_from_hardware_config, sync_dict(c["c"]))
        sync_judge(ctx, c, sync_record(c["c"], exc, m), "_sync_map_from_hardware_config(dict)")
    elif part == "recon":
        c = sc["case"]
        recon_judge(ctx, c, recon_run(ctx, c["c"], ReconTemplates(ctx), 0))
    elif part == "reader":
        c = sc["case"]
        reader_judge(ctx, c, reader_run(ReaderFiles(ctx), c["kind"], c["open"], c["seq"]))
    elif part == "reader-module":
        reader_module_read(ctx, ReaderFiles(ctx))
    elif part == "reader-sync":
        reader_readsync(ctx, ReaderFiles(ctx), [sc["row"]])
    elif part == "trace":
        judge_traces(ctx, [sc["trace"]], "replay")
    elif part == "glob-tree":
        traceable(ctx, glob_observe({"t": sc["t"], "o": sc["o"]}, Path(ctx.scratch) / "replay"))
    else:   # table comparisons: re-run the sync part
        m = Models(ctx)
        m.start("sync", "Session_sync_quick.cfg")
        sync_replay_all(ctx, m.get("sync"))
