"""Executed as a subprocess by c06.py: real calls of decompress_destripe_cbin on synthesised recordings.

argv[1] = JSON scenario {dir, ns, nbatch, nproc, ns2add, append, reject, k_filter, wrot, sat, seed, compare} plus the
          optional state / configuration dimensions (every one defaults to what the check did before they existed):
   form     "bin" | "cbin"      the input is the flat file or its mtscomp compression (chunks of 0.05 s = 1500 samples, so
                                every batch is read across several compressed chunks)
   paths    "path" | "str"      type of the sr_file / output_file arguments
   outdef   bool                output_file=None: the documented default (.bin next to the compressed input; form "cbin" only)
   qcdir    bool                output_qc_path = a separate folder
   stale    False | "longer" | "same" | "ragged" | "failed" | True (= "longer")
                                what an earlier run left under every name this call writes: nothing; a longer output and
                                longer quality files; files of exactly the right sizes holding another recording; an
                                interrupted run (sizes that are no whole number of rows, a cut .npy); the files a real
                                call leaves that failed inside its workers
   nc_out   null | int          number of leading columns kept in the output (384: without the sync column)
   odtype   "int16" | "float32" output sample format
   hexp     bool                a trace header passed explicitly (h=...), different from the one the file's metadata gives
   kind     probe kind of vkit.metagen ("3B2" default, "3A", "NP2.1", "NP2.4")
   rkw      dict                reader_kwargs handed to the call (e.g. {"sort": false}: channels in on-disk order)
   prev     null | {ns, nbatch, nproc, ns2add, seed}   append=True onto the output of an earlier call on ANOTHER recording
   nruns    number of calls when append is set without prev (default 2: the same recording appended to itself)
stdout  = one JSON line (result) prefixed by 'RESULT '
"""
import hashlib
import json
import os
import sys
import traceback
from pathlib import Path

import numpy as np

T = 1024
NCV = 384
FULL_SCALE = {"3A": 512, "3B1": 512, "3B2": 512, "NP2.1": 8192, "NP2.4": 8192}


def synth(sc, sub="in"):
    """NP recording, 384 + 1 channels. Counts stay far below full scale and below the slew limit except in the
    requested saturated stretches. Sync column = sample counter starting at a recording-specific value and running
    through the sign bit (bit-exact witness of 'every sample of THIS recording at its own position')."""
    from vkit import metagen
    rng = np.random.default_rng(sc["seed"])
    kind = sc.get("kind", "3B2")
    ns = sc["ns"]
    t = np.arange(ns)
    # coherent background (common to all channels) + smaller independent noise, low slew
    bg = sum(a * np.sin(2 * np.pi * f * t / 30000 + p) for a, f, p in
             zip(rng.uniform(5, 25, 6), rng.uniform(300, 4000, 6), rng.uniform(0, 6.28, 6)))
    d = bg[:, None] * rng.uniform(0.7, 1.3, 384)[None, :] + rng.normal(0, 6, (ns, 384))
    # a few local spikes
    for _ in range(max(1, ns // 700)):
        s = int(rng.integers(50, ns - 50))
        c = int(rng.integers(2, 380))
        d[s - 8:s + 8, c - 2:c + 3] -= (60 * np.hanning(16))[:, None] * np.array([0.3, 0.7, 1, 0.7, 0.3])[None, :]
    d = np.clip(np.round(d), -300, 300)
    for a, b in sc.get("sat", []):
        d[a:b, :] = (FULL_SCALE[kind] - 1) * np.where(np.arange(384) % 2 == 0, 1, -1)[None, :]
    data = np.zeros((ns, 385), dtype=np.int16)
    data[:, :384] = d.astype(np.int16)
    start = 32768 - ns // 2 + (int(sc["seed"]) * 7919) % 4001
    data[:, 384] = ((t + start) % 65536).astype(np.uint16).view(np.int16)
    nshank = 4 if kind == "NP2.4" else 1
    txt, info = metagen.make_meta(kind, sites=metagen.dense_sites(kind, 384, nshank), ns=ns)
    b = metagen.write_recording(Path(sc["dir"]) / sub, "rec_g0_t0.imec0", txt, data)
    if sc.get("form", "bin") == "cbin":
        import spikeglx
        sr = spikeglx.Reader(b)
        c = sr.compress_file(keep_original=False, chunk_duration=0.05)
        sr.close()
        b = Path(c)
    return b, data


def wrot_of(sc):
    """None, a scalar, or "matrix[32|F]:<seed>" = a full (non-symmetric) whitening matrix close to 0.7 * identity
    (float64 C-ordered; "32": float32; "F": a non-contiguous, read-only view into a larger Fortran-ordered array)"""
    w = sc.get("wrot")
    if isinstance(w, str) and w.startswith("matrix"):
        r = np.random.default_rng(int(w.split(":")[1]))
        m = 0.7 * np.eye(384) + 0.02 * r.standard_normal((384, 384))
        if w.startswith("matrix32:"):
            m = m.astype(np.float32)
        elif w.startswith("matrixF:"):
            big = np.zeros((2 * 384, 384 + 3), order="F")
            big[::2, 3:] = m
            m = big[::2, 3:]
            m.flags.writeable = False
        return m
    return w


def header_of(sc):
    """explicit trace header: the NP1 layout with the sampling order of the ADCs reversed - not what the file's own
    metadata gives, so the argument has to be the one that is used"""
    if not sc.get("hexp"):
        return None
    import neuropixel
    h = dict(neuropixel.trace_header(version=1))
    h["sample_shift"] = np.ascontiguousarray(h["sample_shift"][::-1])
    return h


def filter_kwargs(sc, fs):
    """non-default settings of the high-pass and of the spatial filter (scenario option `fkw`): {} when the defaults are used"""
    if not sc.get("fkw"):
        return {}
    kw = {"butter_kwargs": {"N": 2, "Wn": 600 / fs * 2, "btype": "highpass"}}
    if sc["k_filter"]:
        kw["k_kwargs"] = {"ntr_pad": 40, "ntr_tap": 0, "lagc": 2000, "butter_kwargs": {"N": 3, "Wn": 0.02, "btype": "highpass"}}
    return kw


def _snapshot(kw):
    import copy
    return copy.deepcopy({k: kw[k] for k in ("h", "reader_kwargs", "butter_kwargs", "k_kwargs") if k in kw})


def _same(a, b):
    if isinstance(a, dict):
        return isinstance(b, dict) and list(a) == list(b) and all(_same(a[k], b[k]) for k in a)
    if isinstance(a, np.ndarray):
        return isinstance(b, np.ndarray) and a.dtype == b.dtype and a.shape == b.shape and np.array_equal(a, b, equal_nan=a.dtype.kind == "f")
    return type(a) is type(b) and a == b


class OracleFailed(Exception):
    """the batch-wise in-memory destriping the output is compared with (the library's own destripe / saturation / Reader) raised
    or returned something that is no batch of samples: there is nothing the output equals - EqualsBatchwise is false, it is not a
    failure of this script"""


def libcall(what, fn, *a, **k):
    try:
        return fn(*a, **k)
    except Exception as e:  # noqa - raised by the code under test; nothing of this script runs inside fn
        raise OracleFailed(f"{what}: {type(e).__name__}: {str(e)[:120]}") from e


def as_block(what, x, shape):
    """x as the real-valued array of the given shape it has to be, dtype untouched (OracleFailed if the library returned
    anything else)"""
    try:
        a = np.asarray(x)
        if a.dtype.kind not in "fiub" or a.shape != tuple(shape):
            raise ValueError(f"{type(x).__name__} {a.dtype} {a.shape}, expected a real array {tuple(shape)}")
        return a
    except Exception as e:  # noqa
        raise OracleFailed(f"{what} returned {type(e).__name__}: {str(e)[:120]}") from e


def expected_batches(sc, data, labels, sr):
    """batch-wise in-memory destriping with the documented taper margins -> rows per canonical batch"""
    import scipy.signal
    from ibldsp import voltage
    ns, NB = sc["ns"], sc["nbatch"]
    S = NB - 2 * T
    taper = np.r_[0, scipy.signal.windows.cosine((T - 1) * 2), 0]
    h = header_of(sc) or libcall("Reader.geometry", lambda: sr.geometry)
    fs = libcall("Reader.fs", lambda: sr.fs + 0)
    rv = as_block("Reader.range_volts", libcall("Reader.range_volts", lambda: sr.range_volts[:384]), (384,))
    s2v = as_block("Reader.sample2volts", libcall("Reader.sample2volts", lambda: sr.sample2volts[:384]), (384,))
    out = np.zeros((ns, 385), dtype=np.float64)
    b = 0
    while True:
        f, l = b * S, min(b * S + NB, ns)
        chunk = as_block("Reader[rows, :384]", libcall("Reader[rows, :384]", lambda: sr[f:l, :384]), (l - f, 384)).T
        res = libcall("saturation", voltage.saturation, data=chunk, max_voltage=rv, fs=fs)
        if not isinstance(res, tuple) or len(res) != 2:
            raise OracleFailed(f"saturation returned {type(res).__name__}, not (saturated samples, mute)")
        mute = as_block("saturation (mute)", res[1], (l - f,))
        chunk[:, :T] *= taper[:T]
        chunk[:, -T:] *= taper[T:]
        x = libcall("destripe", voltage.destripe, chunk, fs=fs, h=h, channel_labels=labels if sc["reject"] else None,
                    k_filter=sc["k_filter"], **filter_kwargs(sc, fs))
        x = as_block("destripe", x, (384, l - f))
        x = x.T * mute[:, None] / s2v
        w = wrot_of(sc)
        if w is not None:
            x = np.dot(x, w) if np.ndim(w) == 2 else x * w
        lo = 0 if b == 0 else f + T
        hi = ns if l == ns else f + NB - T
        out[lo:hi, :384] = x[lo - f:hi - f, :]
        if l == ns:
            break
        b += 1
    return out


def lastb_of(ns, nb):
    return 0 if ns <= nb else -(-(ns - nb) // (nb - 2 * T))


def leave_behind(sc, mode, out, outdir, qcdir, rowbytes, odt, binf):
    """the state an earlier run left under the names this call writes (a non-append call starts from scratch)"""
    g = np.random.default_rng(sc["seed"] + 7)
    first = sc.get("prev") or sc
    ns, pad = first["ns"], first.get("ns2add", 0)
    nrow = lastb_of(ns, first["nbatch"]) + 1
    ncol = rowbytes // np.dtype(odt).itemsize

    def content(rows, extra_bytes=0):
        a = g.integers(-300, 300, rows * ncol).astype(odt).tobytes()
        return a + b"\x07" * extra_bytes

    dirs = [outdir] + ([qcdir] if qcdir is not None else [])
    if mode == "longer":
        out.write_bytes(content(ns + pad + 777))
        g.random(99 * NCV, dtype=np.float32).tofile(outdir / "ap_rms.bin")
        g.random(99, dtype=np.float32).tofile(outdir / "ap_time.bin")
        for q in dirs:
            np.save(q / "_iblqc_ephysSaturation.samples.npy", np.ones(ns + 501, dtype=bool))
            np.save(q / "_iblqc_ephysTimeRmsAP.rms.npy", np.ones((99, NCV), dtype=np.float32))
            np.save(q / "_iblqc_ephysTimeRmsAP.timestamps.npy", np.ones(99, dtype=np.float32))
    elif mode == "same":
        # a complete earlier run of another recording of the same length and options: every size is already right
        out.write_bytes(content(ns + pad))
        g.random(nrow * NCV, dtype=np.float32).tofile(outdir / "ap_rms.bin")
        g.random(nrow, dtype=np.float32).tofile(outdir / "ap_time.bin")
        for q in dirs:
            np.save(q / "_iblqc_ephysSaturation.samples.npy", np.ones(ns, dtype=bool))
            np.save(q / "_iblqc_ephysTimeRmsAP.rms.npy", np.ones((nrow, NCV), dtype=np.float32))
            np.save(q / "_iblqc_ephysTimeRmsAP.timestamps.npy", np.ones(nrow, dtype=np.float32))
    elif mode == "ragged":
        # an interrupted earlier run: no file holds a whole number of its records, the .npy files are cut short
        out.write_bytes(content(max(ns // 3, 1), extra_bytes=rowbytes // 2 + 1))
        (outdir / "ap_rms.bin").write_bytes(g.random(NCV + 77, dtype=np.float32).tobytes() + b"\x01\x02\x03")
        (outdir / "ap_time.bin").write_bytes(g.random(2, dtype=np.float32).tobytes() + b"\x01")
        for q in dirs:
            for name, arr in (("_iblqc_ephysSaturation.samples.npy", np.ones(ns + 11, dtype=bool)),
                              ("_iblqc_ephysTimeRmsAP.rms.npy", np.ones((5, NCV), dtype=np.float32)),
                              ("_iblqc_ephysTimeRmsAP.timestamps.npy", np.ones(5, dtype=np.float32))):
                np.save(q / name, arr)
                raw = (q / name).read_bytes()
                (q / name).write_bytes(raw[:len(raw) // 2 + 1])
    elif mode == "failed":
        # a real earlier call that failed inside its workers (a whitening matrix of the wrong size): whatever it left
        from ibldsp import voltage
        try:
            voltage.decompress_destripe_cbin(binf, output_file=out, nbatch=first["nbatch"], nprocesses=first["nproc"],
                                             ns2add=pad + 3, reject_channels=False, k_filter=False, wrot=np.eye(7))
            # the call with a 7 x 7 whitening matrix did not fail: what it left is a complete earlier output - a leftover as well
        except Exception:  # noqa
            pass
    else:
        raise ValueError(mode)
    return ""


def main():
    sc = json.loads(sys.argv[1])
    res = {"exc": "", "runs": []}
    try:
        from ibldsp import voltage
        import spikeglx
        binf, data = synth(sc)
        as_str = sc.get("paths", "path") == "str"
        odt = np.dtype(sc.get("odtype", "int16"))
        nc_out = sc.get("nc_out") or 385
        rowbytes = nc_out * odt.itemsize
        if sc.get("outdef"):
            assert binf.suffix == ".cbin", "output_file=None needs a compressed input"
            assert not sc.get("prev"), "output_file=None names the output after the input: not with two recordings"
            out = binf.with_suffix(".bin")
            outdir = out.parent
        else:
            outdir = Path(sc["dir"]) / "out"
            outdir.mkdir(parents=True, exist_ok=True)
            out = outdir / "destriped.bin"
        qcdir = None
        if sc.get("qcdir"):
            qcdir = Path(sc["dir"]) / "qc"
            qcdir.mkdir(parents=True, exist_ok=True)
        qcout = qcdir if qcdir is not None else outdir
        tracedir = Path(os.environ["IBL_NEUROPIXEL_VERIF_TRACE"])
        # the calls of this scenario: [earlier call on another recording,] the call(s) on the scenario's recording
        main_call = {"ns": sc["ns"], "nbatch": sc["nbatch"], "nproc": sc["nproc"], "ns2add": sc.get("ns2add", 0),
                     "binf": binf, "data": data, "own": True}
        calls = []
        if sc.get("prev"):
            pv = sc["prev"]
            pb, pdata = synth(dict(sc, ns=pv["ns"], seed=pv["seed"], sat=[]), sub="in_prev")
            calls.append({"ns": pv["ns"], "nbatch": pv["nbatch"], "nproc": pv["nproc"], "ns2add": pv.get("ns2add", 0),
                          "binf": pb, "data": pdata, "own": False})
            calls.append(main_call)
        else:
            calls = [main_call] * (int(sc.get("nruns", 2)) if sc.get("append") else 1)
        mode = sc.get("stale")
        mode = "longer" if mode is True else mode
        if mode:
            msg = leave_behind(sc, mode, out, outdir, qcdir, rowbytes, odt, calls[0]["binf"])
            if msg:
                raise RuntimeError(msg)
        wrot = wrot_of(sc)
        for k, c in enumerate(calls):
            for f in tracedir.glob("*.ndjson"):
                f.unlink()
            r = {"exc": "", "ns": c["ns"], "nbatch": c["nbatch"], "nproc": c["nproc"], "ns2add": c["ns2add"]}
            kw = {}
            if sc.get("nc_out"):
                kw["nc_out"] = sc["nc_out"]
            if odt != np.dtype("int16"):
                kw["dtype"] = odt.type
            if qcdir is not None:
                kw["output_qc_path"] = qcdir
            h = header_of(sc)
            if h is not None:
                kw["h"] = h
            if sc.get("rkw"):
                # options for the Reader (the recording read in its on-disk channel order): they hold for the parent's reader and
                # for every worker's
                kw["reader_kwargs"] = dict(sc["rkw"])
            a_in = str(c["binf"]) if as_str else c["binf"]
            a_out = None if sc.get("outdef") else (str(out) if as_str else out)
            mine = _snapshot(kw)
            print(f"CALLING {k}", flush=True)        # c06.run_real: no result after this line = the interpreter ended inside the call
            try:
                if sc.get("fkw"):
                    # the sampling rate for the filter settings is read the way a caller reads it (a Reader that cannot be opened
                    # fails the call as well: same verdict)
                    with spikeglx.Reader(c["binf"]) as sr0:
                        kw.update(filter_kwargs(sc, sr0.fs))
                # what the caller owns and may use again: the header, the option dictionaries (compared after the call)
                mine = _snapshot(kw)
                voltage.decompress_destripe_cbin(a_in, output_file=a_out, nbatch=c["nbatch"], nprocesses=c["nproc"],
                                                 ns2add=c["ns2add"], append=(k > 0),
                                                 reject_channels=sc["reject"], k_filter=sc["k_filter"],
                                                 wrot=wrot, **kw)
            except BaseException as e:  # noqa
                r["exc"] = f"{type(e).__name__}: {str(e)[:200]}"
            print(f"RETURNED {k}", flush=True)
            if not r["exc"] and not _same(mine, _snapshot(kw)):
                changed = [k for k in mine if not _same(mine[k], kw.get(k))]
                r["exc"] = f"CallerSettingsChanged: the call changed the caller's {changed}"
            evs = []
            for f in sorted(tracedir.glob("*.ndjson")):
                for line in f.read_text(errors="replace").splitlines():
                    try:
                        e = json.loads(line)
                    except ValueError:
                        e = None
                    if isinstance(e, dict):
                        evs.append(e)
                    else:       # a cut / garbled line: c06.to_trace reports it (the events that are there are judged)
                        evs.append({"ev": "Unreadable", "raw": line[:80]})
            r["events"] = evs
            r["size_rows"] = out.stat().st_size // rowbytes if out.exists() else -1
            r["size_exact"] = out.exists() and out.stat().st_size % rowbytes == 0
            res["runs"].append(r)
            if r["exc"]:
                break
        ok = all(not r["exc"] for r in res["runs"])
        if ok:
            # a missing file (or a name that is no file) is an empty one: judged by the length / entry clauses, not a failure of
            # this script. Of a file many times longer than anything the calls could have written (a seek far beyond the end)
            # only the beginning is read; its length is what the file system says.
            size = out.stat().st_size if out.is_file() else 0
            want = sum(c["ns"] + c["ns2add"] for c in calls) * rowbytes
            cap = 8 * want + (1 << 20)
            raw = np.fromfile(out, dtype=odt, count=min(size, cap) // odt.itemsize) if size else np.zeros(0, dtype=odt)
            res["sha1"] = hashlib.sha1(raw.tobytes() + (b"" if size <= cap else f"+{size}".encode())).hexdigest()
            res["size_exact"] = bool(size % rowbytes == 0)
            o = raw[:raw.size - raw.size % nc_out].reshape(-1, nc_out)
            res["rows"] = int(size // rowbytes)
            sync_bad, pad_bad, off = [], 0, 0
            blocks = []
            for k, c in enumerate(calls):
                ns, pad = c["ns"], c["ns2add"]
                blk = o[off:off + ns + pad]
                blocks.append(blk)
                if blk.shape[0] < ns:
                    sync_bad.append(-1)
                else:
                    if nc_out == 385:
                        bad = np.flatnonzero(blk[:ns, 384] != c["data"][:, 384])
                        sync_bad += [int(x) + off for x in bad[:5]]
                    if pad and blk.shape[0] >= ns + pad:
                        pad_bad += int(np.any(blk[ns:ns + pad] != blk[ns - 1][None, :]))
                off += ns + pad
            # append mode: the file is the concatenation of the runs; runs of the same recording give equal blocks
            res["append_bad"] = int(len(calls) > 1 and (res["rows"] != off or any(
                calls[k]["own"] and calls[0]["own"] and not np.array_equal(blocks[0], blocks[k]) for k in range(1, len(calls)))))
            res["sync_bad"] = sync_bad
            res["n_sync_bad"] = len(sync_bad)
            res["pad_bad"] = pad_bad
            def load(name):
                try:
                    a = np.load(qcout / name)
                    return a if isinstance(a, np.ndarray) else np.zeros(0)
                except Exception:       # absent, empty, no array file, or still the cut leftover of the earlier run  # noqa
                    return np.zeros(0)

            def entries(a):
                """entries of a quality file = length of its first axis; an array without axes, or one whose elements are no real
                numbers / booleans (strings, objects, complex), has none"""
                return int(a.shape[0]) if a.ndim >= 1 and a.dtype.kind in "biuf" else 0

            def quiet(fn, default):
                try:
                    return fn()
                except Exception:       # the values are of no numeric type  # noqa
                    return default
            rms = load("_iblqc_ephysTimeRmsAP.rms.npy")
            tms = load("_iblqc_ephysTimeRmsAP.timestamps.npy")
            sat = load("_iblqc_ephysSaturation.samples.npy")
            res["rms_rows"] = entries(rms)
            res["time_rows"] = entries(tms)
            res["rms_finite"] = quiet(lambda: bool(np.all(np.isfinite(rms))), False)
            res["sat_len"] = entries(sat)
            res["sat_count"] = quiet(lambda: int(np.count_nonzero(sat)), -1)
            if sc.get("compare"):
                # the scenario's own recording: the last block
                ns = sc["ns"]
                boff = off - (calls[-1]["ns"] + calls[-1]["ns2add"])
                BIG = 1e9       # no finite difference: NaN / inf in a floating point output, or nothing to compare with
                sr = None
                try:
                    sr = libcall("Reader()", spikeglx.Reader, binf, **(sc.get("rkw") or {}))
                    labels = libcall("detect_bad_channels_cbin", voltage.detect_bad_channels_cbin, sr) if sc["reject"] else None
                    exp = expected_batches(sc, data, labels, sr)
                    blk = o[boff:boff + ns]
                    m = min(ns, blk.shape[0])          # a short output is judged by the length clauses; compare what exists
                    got = blk[:m, :384].astype(np.float64)
                    # integer output: the code truncates; a floating point output is compared as it is
                    ref = np.trunc(exp[:m, :384]) if odt.kind == "i" else exp[:m, :384]
                    with np.errstate(all="ignore"):
                        diff = np.abs(got - ref)
                        diff[~np.isfinite(diff)] = BIG
                    res["max_lsb_diff"] = float(min(np.max(diff), BIG)) if m else 0.0
                    res["frac_gt1"] = float(np.mean(diff > 1.0 + 1e-6)) if m else 0.0
                    res["out_std"] = float(np.nan_to_num(got.std(), nan=BIG, posinf=BIG, neginf=-BIG))
                except OracleFailed as e:
                    res["max_lsb_diff"] = BIG
                    res["oracle_exc"] = str(e)
                finally:
                    try:
                        if sr is not None:
                            sr.close()
                    except Exception:  # noqa
                        pass
    except BaseException as e:  # noqa
        res["exc"] = f"{type(e).__name__}: {e}\n{traceback.format_exc()[-1500:]}"
    print("RESULT " + json.dumps(res))


if __name__ == "__main__":
    main()
