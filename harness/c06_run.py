"""Executed as a subprocess by c06.py: one real call of decompress_destripe_cbin on a synthesised recording.

argv[1] = JSON scenario {dir, ns, nbatch, nproc, ns2add, append, reject, k_filter, wrot, sat, seed, compare}
stdout  = one JSON line (result) prefixed by 'RESULT '
"""
import hashlib
import json
import os
import sys
import traceback
from pathlib import Path

import numpy as np

T = 1024


def synth(sc):
    """3B2 NP1 recording, 384 + 1 channels. Counts stay below the 10-bit full scale (512) and below the slew
    limit except in the requested saturated stretches. Sync column = sample counter (bit-exact witness of
    'every sample at its own position')."""
    from vkit import metagen
    rng = np.random.default_rng(sc["seed"])
    ns = sc["ns"]
    t = np.arange(ns)
    # coherent background (common to all channels) + smaller independent noise, low slew
    bg = sum(a * np.sin(2 * np.pi * f * t / 30000 + p) for a, f, p in
             zip(rng.uniform(5, 25, 6), rng.uniform(300, 4000, 6), rng.uniform(0, 6.28, 6)))
    d = bg[:, None] * rng.uniform(0.7, 1.3, 384)[None, :] + rng.normal(0, 6, (ns, 384))
    # a few local spikes
    for _ in range(max(1, ns // 700)):
        s = int(rng.integers(50, ns - 50))
        c = int(rng.integers(2, 380))
        d[s - 8:s + 8, c - 2:c + 3] -= (60 * np.hanning(16))[:, None] * np.array([0.3, 0.7, 1, 0.7, 0.3])[None, :]
    d = np.clip(np.round(d), -300, 300)
    for a, b in sc.get("sat", []):
        d[a:b, :] = 511 * np.where(np.arange(384) % 2 == 0, 1, -1)[None, :]
    data = np.zeros((ns, 385), dtype=np.int16)
    data[:, :384] = d.astype(np.int16)
    data[:, 384] = (t % 32000).astype(np.int16)
    txt, info = metagen.make_meta("3B2", ns=ns)
    b = metagen.write_recording(Path(sc["dir"]) / "in", "rec_g0_t0.imec0", txt, data)
    return b, data


def wrot_of(sc):
    """None, a scalar, or "matrix:<seed>" = a full (non-symmetric) whitening matrix close to 0.7 * identity"""
    w = sc.get("wrot")
    if isinstance(w, str) and w.startswith("matrix:"):
        r = np.random.default_rng(int(w.split(":")[1]))
        m = 0.7 * np.eye(384) + 0.02 * r.standard_normal((384, 384))
        return m
    return w


def expected_batches(sc, data, labels, sr):
    """batch-wise in-memory destriping with the documented taper margins -> int16 rows per canonical batch"""
    import scipy.signal
    from ibldsp import voltage
    ns, NB = sc["ns"], sc["nbatch"]
    S = NB - 2 * T
    taper = np.r_[0, scipy.signal.windows.cosine((T - 1) * 2), 0]
    h = sr.geometry
    out = np.zeros((ns, 385), dtype=np.float64)
    b = 0
    while True:
        f, l = b * S, min(b * S + NB, ns)
        chunk = sr[f:l, :384].T
        sat, mute = voltage.saturation(data=chunk, max_voltage=sr.range_volts[:384], fs=sr.fs)
        chunk[:, :T] *= taper[:T]
        chunk[:, -T:] *= taper[T:]
        x = voltage.destripe(chunk, fs=sr.fs, h=h, channel_labels=labels if sc["reject"] else None,
                             k_filter=sc["k_filter"])
        x = x.T * mute[:, None] / sr.sample2volts[:384]
        w = wrot_of(sc)
        if w is not None:
            x = np.dot(x, w) if np.ndim(w) == 2 else x * w
        lo = 0 if b == 0 else f + T
        hi = ns if l == ns else f + NB - T
        out[lo:hi, :384] = x[lo - f:hi - f, :]
        if l == ns:
            break
        b += 1
    return out


def main():
    sc = json.loads(sys.argv[1])
    res = {"exc": "", "runs": []}
    try:
        from ibldsp import voltage
        import spikeglx
        binf, data = synth(sc)
        outdir = Path(sc["dir"]) / "out"
        outdir.mkdir(parents=True, exist_ok=True)
        out = outdir / "destriped.bin"
        tracedir = Path(os.environ["IBL_NEUROPIXEL_VERIF_TRACE"])
        nruns = 2 if sc.get("append") else 1
        if sc.get("stale"):
            # leftovers of an earlier, longer run under every name this call writes (a non-append call starts from scratch)
            g = np.random.default_rng(sc["seed"] + 7)
            g.integers(-300, 300, ((sc["ns"] + sc.get("ns2add", 0) + 777) * 385), dtype=np.int16).tofile(out)
            g.random(99 * 384, dtype=np.float32).tofile(outdir / "ap_rms.bin")
            g.random(99, dtype=np.float32).tofile(outdir / "ap_time.bin")
            np.save(outdir / "_iblqc_ephysSaturation.samples.npy", np.ones(sc["ns"] + 501, dtype=bool))
            np.save(outdir / "_iblqc_ephysTimeRmsAP.rms.npy", np.ones((99, 384), dtype=np.float32))
            np.save(outdir / "_iblqc_ephysTimeRmsAP.timestamps.npy", np.ones(99, dtype=np.float32))
        for k in range(nruns):
            for f in tracedir.glob("*.ndjson"):
                f.unlink()
            r = {"exc": ""}
            try:
                voltage.decompress_destripe_cbin(binf, output_file=out, nbatch=sc["nbatch"], nprocesses=sc["nproc"],
                                                 ns2add=sc.get("ns2add", 0), append=(k > 0),
                                                 reject_channels=sc["reject"], k_filter=sc["k_filter"],
                                                 wrot=wrot_of(sc))
            except BaseException as e:  # noqa
                r["exc"] = f"{type(e).__name__}: {str(e)[:200]}"
            evs = []
            for f in sorted(tracedir.glob("*.ndjson")):
                evs += [json.loads(line) for line in f.read_text().splitlines()]
            r["events"] = evs
            r["size_rows"] = out.stat().st_size // (385 * 2) if out.exists() else -1
            r["size_exact"] = out.exists() and out.stat().st_size % (385 * 2) == 0
            res["runs"].append(r)
            if r["exc"]:
                break
        ok = all(not r["exc"] for r in res["runs"])
        if ok:
            ns, pad = sc["ns"], sc.get("ns2add", 0)
            raw = np.fromfile(out, dtype=np.int16)
            res["sha1"] = hashlib.sha1(raw.tobytes()).hexdigest()
            o = raw.reshape(-1, 385)
            res["rows"] = int(o.shape[0])
            per = ns + pad
            sync_bad, pad_bad = [], 0
            for k in range(nruns):
                blk = o[k * per:(k + 1) * per]
                if blk.shape[0] < ns:
                    sync_bad.append(-1)
                    continue
                bad = np.flatnonzero(blk[:ns, 384] != data[:, 384])
                sync_bad += [int(x) + k * per for x in bad[:5]]
                if pad and blk.shape[0] >= per:
                    pad_bad += int(np.any(blk[ns:per] != blk[ns - 1][None, :]))
            # append mode: the second run's block must equal the first (same input)
            res["append_bad"] = int(nruns == 2 and (o.shape[0] != 2 * per or not np.array_equal(o[:per], o[per:])))
            res["sync_bad"] = sync_bad
            res["n_sync_bad"] = len(sync_bad)
            res["pad_bad"] = pad_bad
            rms = np.load(outdir / "_iblqc_ephysTimeRmsAP.rms.npy")
            tms = np.load(outdir / "_iblqc_ephysTimeRmsAP.timestamps.npy")
            sat = np.load(outdir / "_iblqc_ephysSaturation.samples.npy")
            res["rms_rows"] = int(rms.shape[0])
            res["time_rows"] = int(tms.shape[0])
            res["rms_finite"] = bool(np.all(np.isfinite(rms)))
            res["sat_len"] = int(sat.shape[0])
            res["sat_count"] = int(sat.sum())
            if sc.get("compare"):
                sr = spikeglx.Reader(binf)
                labels = voltage.detect_bad_channels_cbin(sr) if sc["reject"] else None
                exp = expected_batches(sc, data, labels, sr)
                m = min(ns, o.shape[0])            # a short output is judged by the length clauses; compare what exists
                got = o[:m, :384].astype(np.float64)
                res["max_lsb_diff"] = float(np.max(np.abs(got - np.trunc(exp[:m, :384])))) if m else 0.0
                res["frac_gt1"] = float(np.mean(np.abs(got - np.trunc(exp[:m, :384])) > 1.0 + 1e-6)) if m else 0.0
                res["out_std"] = float(got.std())
                sr.close()
    except BaseException as e:  # noqa
        res["exc"] = f"{type(e).__name__}: {e}\n{traceback.format_exc()[-1500:]}"
    print("RESULT " + json.dumps(res))


if __name__ == "__main__":
    main()
