"""C08 - probe geometry is a consistent, jointly permuted description of the sites.

1. TLC: spec/mc/MC_Geometry.tla (steps of geometry_from_meta = operators of spec/lib/Geometry.tla): property layer on
   every ordered selection of <= MaxSel sites of a small grid x both encodings x sort x split; facts about the real grids,
   ADC tables and dense layouts as ASSUMEs.  Thorough: seeded model mutants must be caught (vacuity control).
2. spec -> code: TLC exports every case of a smaller box with the header the specification expects; each is written as
   metadata by metagen and read by the real geometry_from_meta; any difference is judged by the trace spec.
3. code -> spec: site tables (exhaustive small box in python, seeded random small, random full-size 384-of-grid in
   random order, structured full-size, dense layouts) -> real geometry_from_meta / read_geometry / Reader.geometry /
   trace_header / split_trace_header -> spec/trace/GeometryTrace.tla (property layer on observed values).
4. binding self-tests: corrupted observations must be flagged; a perturbed exported expectation must be noticed.

Dimensions of the input / history space the tables are drawn from (audit): draw flags 0/1 per entry (reference sites), the map
headers SpikeGLX really writes, both probe-type codes of NP2.1 / NP2.4, ap and lf streams, recordings without sync channel,
site counts anywhere in 1..384 (around every ADC block boundary), shanks absent from the table as split target, the split key
as int in memory, metadata without a site table (canonical layout through every API, flat binary without metadata), every
documented spelling of version / nshank, the public building blocks rc2xy / xy2rc / adc_shifts called directly with other
dtypes and scalars.  Histories: everything a call returns is overwritten by the "caller" before the next call on the same
metadata / arguments (a result is the caller's own copy), the same metadata object serves all calls, a table is read again
after the others, readers of both sort orders are alive together, a parent header is looked at again after its children were
split off and written into.
Robustness (exit 2 is not a detection): what the real code returns is only ever read through `project` / `_ints` / `_pair` / `_get` /
`_head` (total functions): a result that is not a mapping of equally long vectors of real numbers is the empty table [] or has BAD
entries (no clause holds on them); exceptions (SystemExit included) escaping a call are the verdict geom:raised.
"""
import collections.abc
import copy
import itertools
import json
import logging
import numbers
import random
import re
from concurrent.futures import ProcessPoolExecutor
from pathlib import Path

import numpy as np

from vkit import metagen, tlc, tracecheck

GEN = {"3A": "NP1", "3B1": "NP1", "3B2": "NP1", "NP2.1": "NP2", "NP2.4": "NP2", "NPultra": "NPU"}
CYCLES = {"NP1": 13, "NP2": 16, "NPU": 13}
GRID = {"NP1": dict(ncol=4, nrow=480, nshank=1), "NP2": dict(ncol=2, nrow=640, nshank=4), "NPU": dict(ncol=8, nrow=48, nshank=1)}
BAD = -777777
TRACE = ("trace/GeometryTrace.tla", "trace/GeometryTrace.cfg")


# ------------------------------------------------------------------------------------------------
# projection of what the real code returns onto the observables of the specification
# Nothing the real code hands back may stop the harness: whatever is not what the property promises (None, not a mapping, an
# attribute missing, another shape, NaN / inf, a fraction, a complex number, a string, an object, a number beyond TLC's integers)
# is projected onto an observation no property-layer clause holds on (BAD entries, or no table at all: []).
LIBEXC = (Exception, SystemExit)      # what a call of the real code may end with instead of returning


def _col(a):
    """a returned per-site vector as float64 with NaN where an entry is not a real number; None if it is not a vector"""
    try:
        a = np.asarray(a)
    except Exception:
        return None
    if a.ndim != 1:
        return None
    k = a.dtype.kind
    if k in "biuf":
        return a.astype(np.float64)
    if k == "c":
        r = a.real.astype(np.float64)
        r[a.imag != 0] = np.nan
        return r
    if k == "O":
        def num(v):
            if isinstance(v, numbers.Complex) and not isinstance(v, numbers.Real):
                return float(v.real) if v.imag == 0 else np.nan
            try:
                return float(v) if isinstance(v, (numbers.Real, np.bool_)) else np.nan
            except Exception:
                return np.nan
        return np.array([num(v) for v in a], dtype=np.float64)
    return np.full(a.shape, np.nan)          # strings, dates, records: not numbers


def _ints(a):
    a = _col(a)
    if a is None:
        return []
    with np.errstate(all="ignore"):
        r = np.rint(a)
        ok = np.isfinite(a) & (a == r) & (np.abs(r) < 2 ** 30)
    return [int(v) if o else BAD for v, o in zip(np.where(ok, r, 0), ok)]


def _shift_num(a, gen):
    """sample_shift -> numerator over 13 / 16; exact: the spec says the delay *is* k/cycles"""
    a = _col(a)
    if a is None:
        return []
    c = CYCLES[gen]
    with np.errstate(all="ignore"):
        k = np.rint(a * c)
        ok = np.isfinite(a) & (k / c == a) & (np.abs(k) < 2 ** 30)
    return [int(v) if o else BAD for v, o in zip(np.where(ok, k, 0), ok)]


def project(th, gen, need_flag=True):
    """dict of arrays -> rows <<shank,row,col,x,y,adc,shift,ind,flag>>; [] if what was returned is not a table (not a mapping, an
    attribute missing, an attribute that is not a vector, vectors of different lengths).  Total: never raises"""
    if not isinstance(th, collections.abc.Mapping):
        return []
    keys = ["shank", "row", "col", "x", "y", "adc", "sample_shift", "ind"]
    try:
        need_flag = need_flag and "flag" in th      # the draw flag is not one of the property's attributes
        keys += ["flag"] if need_flag else []
        if any(k not in th for k in keys):
            return []
        vals = {k: th[k] for k in keys}
    except Exception:       # a mapping that cannot be asked
        return []
    # an attribute that is not a vector reads as [] (as an empty one does): no table unless all have one length
    cols = [_ints(vals[k]) if k != "sample_shift" else _shift_num(vals[k], gen) for k in keys]
    if len({len(c) for c in cols}) != 1:
        return []
    if not need_flag:
        cols.append([1] * len(cols[0]))
    return [list(r) for r in zip(*cols)]


def _pair(ret):
    """the (table, index) pair of geometry_from_meta(return_index=True) / adc_shifts; (None, None) if it is not a pair"""
    if isinstance(ret, (tuple, list)) and len(ret) == 2:
        return ret[0], ret[1]
    return None, None


def _keys(th):
    try:
        return set(th) if isinstance(th, collections.abc.Mapping) else set()
    except Exception:
        return set()


def _get(d, k):
    """d[k] of a returned mapping; None if it has none"""
    try:
        return d[k] if isinstance(d, collections.abc.Mapping) and k in d else None
    except Exception:
        return None


def _head(a, m):
    """a[:m] of a returned vector; None if it cannot be had"""
    try:
        return a[:m]
    except Exception:
        return None


def parse_entries(text):
    out = {}
    for key, name in (("snsShankMap", "shank"), ("snsGeomMap", "geom")):
        m = re.search(rf"^~?{key}=\([^)]*\)(.*)$", text, re.M)
        if m:
            out[name] = [[int(v) for v in e.split(":")] for e in re.findall(r"\(([0-9:]+)\)", m.group(1))]
    return out


# the map headers SpikeGLX writes (metagen writes one fixed header for every probe); the parser must not care
REAL_HEADER = {("NP1", "shank"): "1,2,480", ("NP1", "geom"): "PRB_1_4_0480_1_C,1,0,70", ("NPU", "shank"): "1,8,48",
               ("NP2.1", "shank"): "1,2,640", ("NP2.1", "geom"): "NP2000,1,0,70",
               ("NP2.4", "shank"): "4,2,640", ("NP2.4", "geom"): "NP2014,4,250,70"}
ALT_TYPE = {"NP2.1": 1030, "NP2.4": 2013}
# spellings of the `version` argument of neuropixel.trace_header / rc2xy / xy2rc / adc_shifts (docstrings: 1, 2, 2.4, "NPultra")
VSPELL = {"1": 1, "1.0": 1.0, "i64(1)": np.int64(1), "2": 2, "2.0": 2.0, "2.4": 2.4, "f64(2.4)": np.float64(2.4),
          "f64(2)": np.float64(2.0), "NPultra": "NPultra"}
VERSIONS = {"NP1": ["1", "1.0", "i64(1)"], "NP2": ["2", "2.4", "2.0", "f64(2.4)", "f64(2)"], "NPU": ["NPultra"]}
OPTS = ("hdr", "ptype", "stream", "nsync", "tilde", "memsplit", "again", "blk", "nomap", "versions", "flatbin")


def dress(text, enc, flags, header):
    """rewrites the site-table line of a metagen text: draw flags per entry, another header"""
    keys = {"shank": ["snsShankMap"], "geom": ["snsGeomMap"], "both": ["snsShankMap", "snsGeomMap"]}[enc]
    headers = header if isinstance(header, (list, tuple)) else [header] * len(keys)
    lines = text.split("\n")
    hit = 0
    for i, line in enumerate(lines):
        m = re.match(rf"^(~?(?:{'|'.join(keys)})=)\(([^)]*)\)(.*)$", line)
        if m:
            header = headers[keys.index(m.group(1).lstrip("~").rstrip("="))]
            ents = re.findall(r"\(([0-9:]+)\)", m.group(3))
            if flags is not None:
                if len(ents) != len(flags):
                    raise tlc.TLCError("dress: metagen wrote another number of entries than sites")
                ents = [e.rsplit(":", 1)[0] + f":{int(f)}" for e, f in zip(ents, flags)]
            lines[i] = f"{m.group(1)}({header or m.group(2)})" + "".join(f"({e})" for e in ents)
            hit += 1
    if hit != len(keys):
        raise tlc.TLCError(f"dress: {hit} site-table lines in the metadata text")
    return "\n".join(lines)


def scribble(*things):
    """what a caller may do with what it was given: overwrite it.  Nothing a later call returns may depend on it."""
    for th in things:
        for v in (th.values() if isinstance(th, dict) else [th]):
            if isinstance(v, np.ndarray) and v.flags.writeable and v.size:
                v[...] = -3


# ------------------------------------------------------------------------------------------------
# recording: one site table -> one trace
def record(job):
    """job = dict(kind, sites, apis (subset of gfm/rg/reader), splits (list of shanks), dense (nshank or 0), dir) + OPTS.
    A site is (shank, row, col) or (shank, row, col, draw flag)."""
    import neuropixel
    import spikeglx
    logging.disable(logging.CRITICAL)
    kind, sites = job["kind"], [tuple(int(v) for v in s) for s in job["sites"]]
    sites3 = [s[:3] for s in sites]
    flags = [s[3] for s in sites] if all(len(s) == 4 for s in sites) else None
    gen = GEN[kind]
    n = len(sites)
    d = Path(job["dir"])
    d.mkdir(parents=True, exist_ok=True)
    rec = {"gen": gen, "kind": kind, "sites": [list(s) for s in sites], "entries": {}, "obs": [], "dense": job.get("dense", 0),
           "exc": "", "opts": json.dumps({k: job[k] for k in OPTS if k in job})}
    # "both": metadata that carries the two encodings of the same table (seed round g: the shank map's tuples read as x / y)
    encs = ["shank"] if gen == "NPU" else ["shank", "geom", "both"]
    stream = job.get("stream", "ap")
    f = d / f"g{job['id']}.{stream}.meta"
    junk = [f]
    mk = dict(ns=10, stream=stream, nsync=job.get("nsync", 1), tilde=job.get("tilde", True))
    more = {"imDatPrb_type": job["ptype"]} if job.get("ptype") else {}     # a later line of the file wins

    def add(api, enc, sort, split, hdr, idx):
        if api in ("gfm", "reader", "rg") and len(idx) != len(hdr):
            # the index returned is not one entry per site of the table returned: no clause about it holds (the trace
            # specification reads IDX[i] for every row of the table)
            idx = [BAD] * len(hdr)
        rec["obs"].append({"api": api, "enc": enc, "sort": sort, "split": split, "hdr": hdr, "idx": idx})

    def again(api, enc, sort, split, hdr, first):
        """a second look at something already observed: another observation (judged like the first) if it differs"""
        if hdr != first:
            add(api, enc, sort, split, hdr, [r[7] for r in hdr] if sort else list(range(len(hdr))))

    try:
        for enc in encs:
            hkey = (kind if gen == "NP2" else gen, enc)
            for split in [-1] + list(job.get("splits", [])):
                extra = dict(more, **({"NP2.4_shank": split} if split >= 0 else {}))
                text, _ = metagen.make_meta(kind, sites3, encoding=enc, extra=extra or None, **mk)
                text = dress(text, enc, flags, None if not job.get("hdr") else REAL_HEADER[hkey] if enc != "both" else
                             [REAL_HEADER[(hkey[0], e)] for e in ("shank", "geom")])
                if split == -1:
                    rec["entries"].update(parse_entries(text))
                f.write_text(text)
                md = spikeglx.read_meta_data(f)
                if split >= 0 and job.get("memsplit"):
                    md["NP2.4_shank"] = int(split)         # set by a program (as NP2Converter does), not parsed from a file
                first = {}
                if "gfm" in job["apis"]:
                    for sort in (False, True):
                        th, idx = _pair(spikeglx.geometry_from_meta(md, return_index=True, sort=sort))
                        hdr, ix, keys = project(th, gen), _ints(idx), _keys(th)
                        scribble(th, idx)
                        th2 = spikeglx.geometry_from_meta(md, sort=sort)   # the other return form must be the same table
                        same = th is not None and th2 is not None and keys == _keys(th2) and hdr == project(th2, gen)
                        scribble(th2)
                        first[sort] = hdr if same else []
                        add("gfm", enc, sort, split, first[sort], ix)
                    if job.get("again"):                   # the same metadata object, after everything above
                        th3, idx3 = _pair(spikeglx.geometry_from_meta(md, True, 384, False))
                        again("gfm", enc, False, split, project(th3, gen) if _ints(idx3) == list(range(len(first[False]))) else [],
                              first[False])
                if "reader" in job["apis"]:
                    srs = [(sort, spikeglx.Reader(f, sort=sort)) for sort in (False, True)]    # both alive at once
                    for sort, sr in srs:
                        geo, order = getattr(sr, "geometry", None), getattr(sr, "raw_channel_order", None)
                        m = len(_ints(_get(geo, "ind")))
                        add("reader", enc, sort, split, project(geo, gen), _ints(_head(order, m)))
                        scribble(geo, order)
                if "rg" in job["apis"]:
                    th = spikeglx.read_geometry(str(f) if n % 2 else f)
                    add("rg", enc, True, split, project(th, gen), [r[7] for r in project(th, gen)])
                    scribble(th)
        b = job.get("blk")
        if b:       # the public building blocks, called by a user on his own arrays
            ver = VSPELL[b["version"]]
            x = y = rc = None

            def has(q, *ks):
                return all(_get(q, k) is not None for k in ks)
            if b["dtype"] == "scalar":
                xy = [neuropixel.rc2xy(s[1], s[2], version=ver) for s in sites]
                if all(has(q, "x", "y") for q in xy):
                    rc = [neuropixel.xy2rc(q["x"], q["y"], version=ver) for q in xy]
                    x, y = (np.array([q[k] for q in xy]) for k in ("x", "y"))
                    rc = {k: np.array([q[k] for q in rc]) for k in ("row", "col")} if all(has(q, "row", "col") for q in rc) else None
            else:
                row, col = (np.array([s[j] for s in sites], dtype=b["dtype"]) for j in (1, 2))
                for turn in range(2):       # the caller's arrays are reused; what the first call returned is written into
                    xy = neuropixel.rc2xy(row, col, version=ver)
                    if not has(xy, "x", "y"):       # nothing to hand to xy2rc
                        x = y = rc = None
                        break
                    x, y = xy["x"], xy["y"]
                    rc = neuropixel.xy2rc(x, y, version=ver)
                    if turn == 0:
                        scribble(xy, rc)
            xy = {"x": x, "y": y}           # xy2rc must have left them alone
            for turn in range(2):
                ss, adc = _pair(neuropixel.adc_shifts(version=ver, nc=n))
                if turn == 0:
                    scribble(ss, adc)
            # an attribute that was not returned is None: not a vector, no table
            th = {"shank": np.array([s[0] for s in sites]), "row": _get(rc, "row"), "col": _get(rc, "col"), "x": xy["x"], "y": xy["y"],
                  "adc": adc, "sample_shift": ss, "ind": np.arange(n), "flag": np.array(flags or [1] * n)}
            add("blk", "shank", False, -1, project(th, gen), [])
        if rec["dense"]:
            version = {"NP1": "1", "NP2": "2" if rec["dense"] == 1 else "2.4", "NPU": "NPultra"}[gen]
            for j, (vs, nsh) in enumerate([(version, rec["dense"])] + [tuple(v) for v in job.get("versions", [])]):
                h = neuropixel.trace_header(version=VSPELL[vs], nshank=nsh)
                if j == 0:
                    first_th = project(h, gen, False)
                    add("th", "shank", False, -1, first_th, [])
                else:                   # another spelling of the same layout
                    again("dflt", "shank", False, -1, project(h, gen, False), first_th)
                for s in range(rec["dense"] + (1 if rec["dense"] < 4 else 0)):      # the last one of a 1-shank layout is empty
                    hs = neuropixel.split_trace_header(h, shank=s)
                    if j == 0:
                        add("sth", "shank", False, s, project(hs, gen, False), [])
                    else:
                        again("sth", "shank", False, s, project(hs, gen, False),
                              next(o["hdr"] for o in rec["obs"] if o["api"] == "sth" and o["split"] == s))
                    scribble(hs)
                again("dflt", "shank", False, -1, project(h, gen, False), first_th)    # the parent after its children
                scribble(h)
                again("dflt", "shank", False, -1, project(neuropixel.trace_header(version=VSPELL[vs], nshank=nsh), gen, False),
                      first_th)
            if job.get("nomap"):        # metadata without a site table: the canonical layout of the probe
                text, _ = metagen.make_meta(kind, sites3, encoding="none", extra=more or None, **mk)
                f.write_text(text)
                md = spikeglx.read_meta_data(f)
                th, idx = _pair(spikeglx.geometry_from_meta(md, return_index=True))
                base = project(th, gen)
                # which of the two canonical NP2.4 layouts a four-shank probe without a table gets is the code's choice: the
                # observation is judged in the trace of the layout it has the sites of (in the one-shank trace if of neither)
                seen = {tuple(r[:3]) for r in base}
                other = set(metagen.dense_sites(kind, 384, 5 - rec["dense"])) if kind == "NP2.4" else None
                if (seen != other) if rec["dense"] == 1 else (seen == set(sites3)):
                    add("dflt", "shank", False, -1, base, [])
                    scribble(th, idx)
                    for sort in (False, True):
                        th = spikeglx.geometry_from_meta(md, sort=sort)
                        again("dflt", "shank", False, -1, project(th, gen), base)
                        scribble(th)
                    sr = spikeglx.Reader(f)
                    again("dflt", "shank", False, -1, project(getattr(sr, "geometry", None), gen), base)
                    scribble(getattr(sr, "geometry", None))
                    again("dflt", "shank", False, -1, project(spikeglx.read_geometry(f), gen), base)
            if job.get("flatbin"):      # a flat binary without metadata is taken for a dense NP1 recording
                fb = d / f"flat{job['id']}" / "raw.bin"
                fb.parent.mkdir(parents=True, exist_ok=True)
                junk.append(fb)
                np.zeros(384 * 3, dtype=np.int16).tofile(fb)
                sr = spikeglx.Reader(fb, open=False)
                add("dflt", "shank", False, -1, project(getattr(sr, "geometry", None), gen, False), [])
    except tlc.TLCError:
        raise
    except LIBEXC as e:      # the functions are total on the quantifier's domain
        rec["exc"] = f"{type(e).__name__}: {e}"
    finally:
        for x in junk:
            x.unlink(missing_ok=True)
    return rec


def nstates(t):
    return len(t["obs"]) + 2


def record_all(ctx, jobs, procs=4):
    for i, j in enumerate(jobs):
        j["id"] = i
        j["dir"] = str(ctx.scratch / "geo" / str(i % 64))
    if len(jobs) < 200:
        return [record(j) for j in jobs]
    with ProcessPoolExecutor(max_workers=procs) as ex:
        return list(ex.map(record, jobs, chunksize=max(1, len(jobs) // (procs * 8))))


# ------------------------------------------------------------------------------------------------
# site tables
def small_grid(gen, rows, shanks):
    g = GRID[gen]
    return [(s, r, c) for s in range(min(shanks, g["nshank"])) for r in range(rows) for c in range(g["ncol"])
            if gen != "NP1" or c % 2 == r % 2]


def all_sites(gen, nshank=None):
    g = GRID[gen]
    return [(s, r, c) for s in range(nshank or g["nshank"]) for r in range(g["nrow"]) for c in range(g["ncol"])
            if gen != "NP1" or c % 2 == r % 2]


def small_jobs(ctx, rnd):
    jobs = []
    kinds = [("3B2", "NP1"), ("NP2.4", "NP2"), ("NPultra", "NPU")]
    # exhaustive: ordered selections of <= kmax sites of the small grid
    box = {"NP1": (3, 4), "NP2": (2, 3), "NPU": (1, 2)} if ctx.quick else {"NP1": (3, 5), "NP2": (3, 3), "NPU": (2, 2)}
    for kind, gen in kinds:
        rows, kmax = box[gen]
        grid = small_grid(gen, rows, 2)
        for k in range(1, kmax + 1):
            for t in itertools.permutations(grid, k):
                jobs.append({"kind": kind, "sites": t, "apis": ["gfm"], "splits": sorted({s[0] for s in t}) if gen == "NP2" else []})
    # seeded random: larger tables from larger grids, every kind, all apis
    nrand = 1500 if ctx.quick else 20000
    for _ in range(nrand):
        kind = rnd.choice(["3A", "3B1", "3B2", "NP2.1", "NP2.4", "NP2.4", "NPultra"])
        gen = GEN[kind]
        grid = small_grid(gen, rnd.choice([2, 3, 6, 12]), 1 if kind == "NP2.1" else 4)
        k = rnd.randint(1, min(len(grid), 12))
        t = rnd.sample(grid, k)
        job = {"kind": kind, "sites": t, "apis": ["gfm", "reader", "rg"] if rnd.random() < 0.3 else ["gfm"],
               "splits": sorted({s[0] for s in t}) if kind == "NP2.4" else []}
        jobs.append(dressed(job, rnd))
    return jobs


def dressed(job, rnd, flag0=0.3, blk=0.2):
    """draws the metadata variants, the history and the direct calls of one table"""
    kind, t = job["kind"], job["sites"]
    gen = GEN[kind]
    if rnd.random() < 0.5:             # reference / disabled sites are written with draw flag 0
        job["sites"] = [(s[0], s[1], s[2], int(rnd.random() >= flag0)) for s in t]
    job["hdr"] = rnd.random() < 0.5
    if kind in ALT_TYPE and rnd.random() < 0.3:
        job["ptype"] = ALT_TYPE[kind]
    if metagen.KINDS[kind][4] and rnd.random() < 0.15:
        job["stream"] = "lf"
    if rnd.random() < 0.1:
        job["nsync"] = 0
    if rnd.random() < 0.1:
        job["tilde"] = False
    if kind == "NP2.4":
        absent = sorted(set(range(4)) - {s[0] for s in t})
        if absent and rnd.random() < 0.25:      # a shank the table has no site on: the restriction is empty
            job["splits"] = job["splits"] + [rnd.choice(absent)]
        job["memsplit"] = rnd.random() < 0.3
    job["again"] = rnd.random() < 0.3
    if rnd.random() < blk:
        job["blk"] = {"version": rnd.choice(VERSIONS[gen]),
                      "dtype": rnd.choice(["int64", "int32", "float32", "float64"] + (["scalar"] if len(t) <= 4 else []))}
    return job


def full_jobs(ctx, rnd):
    jobs = []
    n = 16 if ctx.quick else 400
    for i in range(n):
        kind = ["3B2", "NP2.4", "NP2.1", "NPultra", "3A", "NP2.4"][i % 6]
        gen = GEN[kind]
        pool = all_sites(gen, 1 if kind == "NP2.1" else None)
        k = 384 if i % 5 else rnd.choice([276, 100, 383])
        mode = i % 4
        if gen == "NPU":
            t = pool[:]
            rnd.shuffle(t)
            t = t[:k]
        elif mode == 0:       # any sites, any order
            t = rnd.sample(pool, k)
        elif mode == 1:     # a contiguous bank selection, channel order reversed / rotated
            r0 = rnd.randint(0, GRID[gen]["nrow"] - 200)
            t = [s for s in pool if r0 <= s[1]][:k]
            t = t[::-1] if i % 8 < 4 else t[37:] + t[:37]
        elif mode == 2:     # sorted by column first (shanks and rows interleaved)
            t = sorted(rnd.sample(pool, k), key=lambda s: (s[2], -s[1], s[0]))
        else:               # blocks of 32 channels on random banks / shanks
            t, seen = [], set()
            while len(t) < k:
                s0, r0 = rnd.randrange(GRID[gen]["nshank"] if kind != "NP2.1" else 1), rnd.randrange(GRID[gen]["nrow"] - 16)
                blk = [s for s in pool if s[0] == s0 and r0 <= s[1] < r0 + 16 and s not in seen][:32]
                seen.update(blk)
                t += blk
            t = t[:k]
        # the heavy observations are kept small: one split shank per table
        shanks = sorted({s[0] for s in t})
        job = {"kind": kind, "sites": t, "apis": ["gfm"] if i % 3 else ["gfm", "reader"],
               "splits": [rnd.choice(shanks)] if kind == "NP2.4" else []}
        jobs.append(dressed(job, rnd, flag0=0.02, blk=0.25))
    # any number of sites: around every ADC block boundary (24 / 32 channels), a shank's share, anything else
    for i in range(10 if ctx.quick else 150):
        kind = ["NP2.4", "3B2", "NP2.1", "3A", "NP2.4", "NPultra", "3B1"][i % 7]
        gen = GEN[kind]
        blkn = 32 if gen == "NP2" else 24
        k = [rnd.randrange(1, 13) * blkn + rnd.choice([-1, 0, 1]), rnd.choice([96, 192, 288, 13, 47, 49]),
             rnd.randint(13, 383)][i % 3]
        k = min(k, 383)
        t = rnd.sample(all_sites(gen, 1 if kind == "NP2.1" else None), k)
        if i % 2:       # banks: contiguous rows, shanks interleaved by blocks
            t = sorted(t, key=lambda s: (s[1] // 8, s[0], s[1], s[2]))
        job = {"kind": kind, "sites": t, "apis": ["gfm"], "splits": [rnd.choice(sorted({s[0] for s in t}))] if kind == "NP2.4" else []}
        jobs.append(dressed(job, rnd, flag0=0.02, blk=0.25))
    # the canonical dense layouts, through the metadata and through trace_header
    for kind, nsh in (("3B2", 1), ("3A", 1), ("NP2.1", 1), ("NP2.4", 1), ("NP2.4", 4), ("NPultra", 1)):
        alts = [v for v in VERSIONS[GEN[kind]] if v != {"NP1": "1", "NP2": "2" if nsh == 1 else "2.4", "NPU": "NPultra"}[GEN[kind]]]
        jobs.append({"kind": kind, "sites": metagen.dense_sites(kind, 384, nsh), "apis": ["gfm", "reader", "rg"],
                     "splits": list(range(nsh)) if nsh > 1 else [], "dense": nsh, "again": True, "hdr": nsh == 1,
                     # every documented spelling of version x nshank (quick: the other main one and a drawn one)
                     "versions": [[v, nsh] for v in (alts[:1] + ([rnd.choice(alts[1:])] if alts[1:] else []) if ctx.quick else alts)],
                     "nomap": True, "flatbin": kind == "3B2"})
    return jobs


# ------------------------------------------------------------------------------------------------
def judge(ctx, trs, label, jvms=4):
    """trace validation; returns set of indices with a property verdict"""
    for t in trs:
        if t["exc"]:
            ctx.violation("geom:raised", f"{t['kind']} table of {len(t['sites'])} sites {t['sites'][:6]}..: the code raised {t['exc']}",
                          {"kind": t["kind"], "sites": t["sites"], "dense": t["dense"], "opts": json.loads(t["opts"])})
    ok = [t for t in trs if not t["exc"]]
    verdicts = tracecheck.validate(ctx, *TRACE, ok, label=label, jvms=jvms, workers=1, nstates=nstates, timeout=1800)
    bad = set()
    for v in verdicts:
        t = ok[v["index"]]
        if v["impl"].startswith("MACHINERY"):
            raise tlc.TLCError(f"metagen and spec/lib/Geometry.tla disagree about the encoding of {t['kind']} {t['sites'][:6]}")
        if v["prop"]:
            clause, _, k = v["prop"].partition("@")
            o = t["obs"][int(k) - 1]
            bad.add(v["index"])
            ctx.violation("geom:" + clause,
                          f"{t['kind']} table of {len(t['sites'])} sites {t['sites'][:5]}{'..' if len(t['sites']) > 5 else ''}: clause "
                          f"{clause} false on {o['api']}(enc={o['enc']}, sort={o['sort']}, split={o['split']})",
                          {"kind": t["kind"], "sites": t["sites"], "dense": t["dense"], "opts": json.loads(t["opts"]),
                           "obs": {k2: o[k2] for k2 in ("api", "enc", "sort", "split")}})
        elif v["impl"]:
            clause, _, k = v["impl"].partition("@")
            o = t["obs"][int(k) - 1]
            ctx.spec_drift(f"{t['kind']} {t['sites'][:5]}: {o['api']}(enc={o['enc']}, sort={o['sort']}, split={o['split']}) differs from "
                           f"spec/lib/Geometry.tla step {clause}; every property-layer formula holds")
    return bad, ok


def run(ctx):
    ctx.level = "model_checking"
    rnd = random.Random(ctx.seed)
    # 1. model
    cfg = "mc/Geometry_quick.cfg" if ctx.quick else "mc/Geometry_thorough.cfg"
    out = ctx.scratch / "geo_export.json"
    r = tlc.run("mc/MC_Geometry.tla", cfg, workers=4, timeout=3000, heap="6g", env={"OUT_FILE": str(out)})
    ctx.tlc(r, cfg)
    if not r.ok:
        raise tlc.TLCError(f"Geometry model: {r.invariant_violated or 'assumption/postcondition'} fails in the model itself: the "
                           f"implementation layer does not transcribe the code faithfully or the code has a defect the traces "
                           f"must show\n{r.out[-2500:]}")
    if not ctx.quick:
        model_mutants(ctx)
    # 2. spec -> code
    exported = json.loads(out.read_text())
    replay_exported(ctx, exported)
    # 3. code -> spec
    jobs = small_jobs(ctx, rnd)
    trs = record_all(ctx, jobs)
    for t in trs:
        ctx.count(len(t["obs"]), key=(t["kind"], tuple(map(tuple, t["sites"]))) if len(t["sites"]) > 1 else None)
    bad, ok = judge(ctx, trs, "geo_small", jvms=4)
    fjobs = full_jobs(ctx, rnd)
    ftrs = record_all(ctx, fjobs)
    for t in ftrs:
        ctx.count(len(t["obs"]), key=(t["kind"], hash(tuple(map(tuple, t["sites"])))))
    fbad, fok = judge(ctx, ftrs, "geo_full", jvms=4)
    for t in ok[:2] + fok[-1:]:
        ctx.sample({"kind": t["kind"], "sites": t["sites"][:6], "obs0": {k: (v[:6] if isinstance(v, list) else v)
                                                                         for k, v in t["obs"][0].items()}})
    # 4. self-tests
    selftest(ctx, [t for i, t in enumerate(ok) if i not in bad], [t for i, t in enumerate(fok) if i not in fbad])
    ctx.cov["rule"] = ("model: every ordered selection of <= MaxSel distinct sites of the small grid x encodings x sort x split; "
                       "traces: one site table each (exhaustive small box generated in python, seeded random tables up to 12 sites "
                       "of every probe kind, random and structured 384-of-grid tables, tables of any size up to 383, the dense "
                       "layouts) with every API's return value; drawn per table: draw flags, map header, probe-type code, stream, "
                       "sync channel, absent split shank, split key as int, re-reads after the caller overwrote what it was given, "
                       "direct calls of rc2xy / xy2rc / adc_shifts with other dtypes; dense layouts also through metadata without "
                       "a site table, a flat binary and every spelling of version / nshank; non-trivial = more than one site")
    ctx.cov["exhaustive"] = True
    ctx.cov["exported_cases_replayed"] = len(exported)
    ctx.assumptions += [
        "original channel number = position of the entry in the metadata site table (for a split file: in its parent's table); "
        "recordings whose saved-channel subset is not a prefix 0..n-1 are outside the stated quantifier and are not judged",
        "`ind` of a split *file* numbers the columns of that file (restriction is demanded of every other attribute); "
        "split_trace_header is a plain restriction",
        "metagen writes the encodings; the trace spec re-derives them from the site table and rejects a disagreement as machinery failure",
        "the draw flag of an entry is data that travels with its site (judged by JointPerm / EncAgree / SplitRestriction); the "
        "property names no attribute that depends on it",
        "metadata without a site table is judged as a canonical dense layout (the code does not sort it; the property's sorting "
        "clause is stated for site tables in one of the two encodings)",
        "NPultra: shank-map encoding only (no geometry-map fixture exists; the quantifier names NP1/NP2 grids for both encodings)"]


def replay_exported(ctx, exported):
    """spec -> code: TLC's expected header for each exported case vs the real code; differences judged by the trace spec"""
    kind_of = {"NP1": "3B2", "NP2": "NP2.4", "NPU": "NPultra"}
    groups = {}
    for e in exported:
        c = e["case"]
        groups.setdefault((c["gen"], tuple(map(tuple, c["sites"]))), []).append(e)
    want = {"NP1": 0, "NP2": 0, "NPU": 0}
    for (gen, _), _ in groups.items():
        want[gen] += 1
    if min(want.values()) == 0:
        raise tlc.TLCError("export: a generation has no exported case")
    jobs = [{"kind": kind_of[gen], "sites": list(sites), "apis": ["gfm"], "splits": sorted({s[0] for s in sites}) if gen == "NP2" else []}
            for (gen, sites) in groups]
    trs = record_all(ctx, jobs)
    differ, n = [], 0
    for (key, exps), t in zip(groups.items(), trs):
        obs = {(o["enc"], o["sort"], o["split"]): o for o in t["obs"]}
        for e in exps:
            c = e["case"]
            o = obs.get((c["enc"], c["sort"], c["split"]))
            n += 1
            if t["exc"] or o is None or o["hdr"] != e["hdr"] or o["idx"] != e["idx"]:
                differ.append(t)
                break
    ctx.count(n)
    ctx.cov["exported_expectations_compared"] = n
    if differ:
        bad, _ = judge(ctx, differ, "geo_export_diff", jvms=1)
    # self-test of this direction: a perturbed expectation must be noticed
    e = copy.deepcopy(next(x for x in exported if len(x["hdr"]) >= 2 and x["case"]["sort"]))
    e["hdr"][0][3] += 16
    t = record({"kind": kind_of[e["case"]["gen"]], "sites": e["case"]["sites"], "apis": ["gfm"],
                "splits": [e["case"]["split"]] if e["case"]["split"] >= 0 else [], "id": "st", "dir": str(ctx.scratch / "geo")})
    o = next((o for o in t["obs"] if (o["enc"], o["sort"], o["split"]) == (e["case"]["enc"], e["case"]["sort"], e["case"]["split"])), None)
    if o is None:           # the real code raised on this case: it is among `differ` and was judged above
        if not (ctx.violations or ctx.known_hits):
            raise tlc.TLCError(f"export self-test: the case could not be recorded ({t['exc']}) although no exported case differs")
    elif o["hdr"] == e["hdr"]:
        raise tlc.TLCError("export self-test: a perturbed expectation was not noticed")


def model_mutants(ctx):
    """vacuity control: each seeded mutant of the model's sort step must violate an invariant"""
    base = (tlc.SPEC / "mc/Geometry_quick.cfg").read_text()
    caught = {}
    for m in ("asc_col", "adc_after_sort", "ind_unsorted", "flag_unsorted"):
        cfg = ctx.scratch / f"Geometry_mut_{m}.cfg"
        cfg.write_text(base.replace('Mutant = ""', f'Mutant = "{m}"').replace("MaxSel = 4", "MaxSel = 3")
                       .replace("POSTCONDITION Export\n", "")
                       # the property layer must catch them, not the model's own consistency invariants
                       .replace("INVARIANT CoordsOnGrid\n", "").replace("INVARIANT Composition\n", ""))
        r = tlc.run("mc/MC_Geometry.tla", cfg, workers=2, timeout=900)
        if r.ok or not r.invariant_violated:
            raise tlc.TLCError(f"vacuity control: model mutant {m} is not caught by any property-layer invariant")
        caught[m] = r.invariant_violated
    ctx.cov["model_mutants_caught"] = caught


def selftest(ctx, small, full):
    cands = [t for t in small if len(t["sites"]) >= 3 and any(o["sort"] and o["hdr"] != next(
        p for p in t["obs"] if (p["api"], p["enc"], p["split"], p["sort"]) == (o["api"], o["enc"], o["split"], False))["hdr"]
        for o in t["obs"] if o["api"] == "gfm")][:24]
    if len(cands) < 8 or not full:
        if ctx.violations or ctx.known_hits:     # the tree is flagged anyway: nothing accepted to corrupt
            ctx.cov["selftest_corrupted_traces_rejected"] = "skipped: too few accepted traces on a violating tree"
            return
        raise tlc.TLCError("selftest: not enough accepted traces with a non-identity sort")
    mut = []
    for j, t0 in enumerate(cands + full[:4]):
        t = copy.deepcopy(t0)
        ks = [k for k, o in enumerate(t["obs"]) if o["api"] == "gfm" and o["sort"] and o["split"] == -1 and len(o["hdr"]) >= 3]
        o = t["obs"][ks[0]]
        kind = j % 7
        if kind == 0:      # one attribute not moved with the others
            xs = [r[3] for r in o["hdr"]]
            if len(set(xs)) > 1:
                i1 = next(i for i in range(1, len(xs)) if xs[i] != xs[0])
                o["hdr"][0][3], o["hdr"][i1][3] = xs[i1], xs[0]
            else:
                o["hdr"][0][3] += 16
        elif kind == 1:    # ADC taken from the position after sorting
            u = next(p for p in t["obs"] if p["api"] == "gfm" and p["enc"] == o["enc"] and not p["sort"] and p["split"] == -1)
            for i, r in enumerate(o["hdr"]):
                r[5], r[6] = u["hdr"][i][5], u["hdr"][i][6]
            if [r[5:7] for r in o["hdr"]] == [r[5:7] for r in t0["obs"][ks[0]]["hdr"]]:
                o["hdr"][0][6] += 1
        elif kind == 2:    # order reversed
            o["hdr"] = o["hdr"][::-1]
            o["idx"] = o["idx"][::-1]
        elif kind == 3:    # one entry dropped
            del o["hdr"][1]
            del o["idx"][1]
        elif kind == 4:    # returned index not the permutation applied
            o["idx"][0], o["idx"][1] = o["idx"][1], o["idx"][0]
        elif kind == 5:    # a site listed twice
            o["hdr"][1] = list(o["hdr"][0])
        else:              # y without the tip offset in one encoding
            for r in o["hdr"]:
                r[4] -= 20
        mut.append(t)
    # the draw flag travels with its site: a sorted table whose flags stayed in on-disk order
    nflag = 0
    for t0 in small:
        o0 = next((o for o in t0["obs"] if o["api"] == "gfm" and o["sort"] and o["split"] == -1 and o["idx"] != sorted(o["idx"])), None)
        if o0 is None or len({r[8] for r in o0["hdr"]}) < 2:
            continue
        t = copy.deepcopy(t0)
        o = next(o for o in t["obs"] if o["api"] == "gfm" and o["sort"] and o["split"] == -1 and o["enc"] == o0["enc"])
        u = next(p for p in t["obs"] if p["api"] == "gfm" and p["enc"] == o["enc"] and not p["sort"] and p["split"] == -1)
        if [r[8] for r in u["hdr"]] == [r[8] for r in o["hdr"]]:
            continue
        for i, r in enumerate(o["hdr"]):
            r[8] = u["hdr"][i][8]
        mut.append(t)
        nflag += 1
        if nflag == 3:
            break
    if nflag == 0 and not (ctx.violations or ctx.known_hits):
        raise tlc.TLCError("selftest: no accepted trace with mixed draw flags and a non-identity sort")
    keep = ctx.cov["traces_validated_against_impl"]
    v = tracecheck.validate(ctx, *TRACE, mut, label="geo_selftest", jvms=2, workers=1, nstates=nstates)
    ctx.cov["traces_validated_against_impl"] = keep
    flagged = {x["index"] for x in v if x["prop"]}
    if len(flagged) != len(mut):
        miss = sorted(set(range(len(mut))) - flagged)
        raise tlc.TLCError(f"binding self-test: corrupted traces {miss} (kinds {[m % 7 if m < len(cands) + 4 else 'flag' for m in miss]}) "
                           f"were not rejected")
    ctx.cov["selftest_corrupted_traces_rejected"] = len(flagged)


def replay(ctx, sc):
    sites = [tuple(s) for s in sc["sites"]]
    kind = sc["kind"]
    job = {"kind": kind, "sites": sites, "apis": ["gfm", "reader", "rg"], "dense": sc.get("dense", 0),
           "splits": sorted({s[0] for s in sites}) if kind == "NP2.4" else [], "id": "replay", "dir": str(ctx.scratch / "geo")}
    job.update(sc.get("opts", {}))
    split = sc.get("obs", {}).get("split", -1)
    if kind == "NP2.4" and split >= 0 and split not in job["splits"]:
        job["splits"].append(split)
    t = record(job)
    judge(ctx, [t], "geo_replay", jvms=1)
