"""C02 - compression is transparent, lossless and atomically published.

1. TLC: spec/sys/Compress.tla - every call (compress_file / decompress_file / decompress_to_scratch) x keep_original x
   pre-existing directory x failure after every step: AtomicPublish, SourceSafe, SourceUntouchedOnFailure, Completed,
   ResolveSame.
2. code -> spec with fault injection at every file operation: the real calls run on real files with the file
   operations of spikeglx/mtscomp instrumented from the harness process (no repo change); the directory is projected
   (byte comparison with reference images) before every operation; spec/trace/CompressTrace.tla installs every
   observed directory, requires each step to be the implementation-layer action of that operation and evaluates the
   property layer on every observed state/step.
3. constructor lookup: Reader(bin | cbin | meta) for every directory of the model's initial set (ResolveP).
4. transparency: spec/sys/CbinSlice.tla enumerates every slice position relative to chunk boundaries; replayed as
   Reader(cbin)[sel] == Reader(bin)[sel]; compress -> decompress byte identity for many shapes.
5. the state a call finds and leaves (VAR): the Reader built from the data path or the metadata path, given as Path or
   str, open / never opened / closed; keep_original passed or left at its default; a scratch directory that does not exist
   yet; files of other recordings (other band, other probe) in the same directory; decompress_to_scratch() with its default
   scratch_dir=None (model: scratch directory = directory of the recording, action SNoCopy); and same-object histories:
   the call is the second one of a Reader whose first call failed at some file operation / completed / was refused.
"""
import contextlib
import copy
import json
import os
import pathlib
import random
import shutil
from pathlib import Path

import numpy as np

from vkit import metagen, tlc, tracecheck

NAMES = ["bin", "cbin", "ch", "meta", "cbin_tmp", "sbin", "stmp", "smeta"]
STEM = "rec_g0_t0.imec0.ap"
CHUNK = 5


# how a call is made and what it finds besides the files of the model (all values lie inside the property's quantifier:
# "path handed to the reader", keep_original, fault sequences; none changes the sequence of file operations)
VAR0 = {"entry": "data",        # Reader(<data file>) | "meta": Reader(<metadata file>) when that resolves to the wanted form
        "pathtype": "path",     # pathlib.Path | "str" | "rel": a relative str, the working directory being the parent directory
        "obj": "open",          # Reader state at the call: "open" | "unopened" (open=False) | "closed"
        "keeparg": "explicit",  # keep_original=True passed | "default": left out
        "scratchdir": "exists",  # scratch directory there | "missing": neither it nor its parent exists (all scratch names absent)
        "siblings": False,      # files of another recording (lf band, second probe) in the same directory
        "leftover": 0,          # what an incomplete ("P") leftover looks like: 0 shorter than the complete file | 1 of exactly
                                # its size (last byte differs) | 2 longer (complete file followed by more bytes)
        "linked": False,        # the data file the reader is pointed at is a symbolic link into a data store (another directory,
                                # another name); its companions (.meta, .ch) are regular files next to the link
        "outdir": False,        # decompress_file(out=<the .bin in another folder>): the model's "bin" is that file; the folder
                                # holds a compressed pair of another recording under the same stem, which is nobody's to touch
        "here": False,          # decompress_to_scratch(scratch_dir=None): the copy goes next to the compressed file
        "prior": None}          # earlier call on the same Reader object: {"op", "keep", "fail_at", "between"}


def draw_var(vr, **fixed):
    v = dict(VAR0, entry=vr.choice(["data", "meta"]), pathtype=vr.choice(["path", "str", "path", "str", "rel"]),
             obj=vr.choice(["open", "open", "unopened", "closed"]), keeparg=vr.choice(["explicit", "default"]),
             scratchdir=vr.choice(["exists", "missing"]), siblings=vr.random() < 0.5, leftover=vr.randrange(3),
             linked=vr.random() < 0.3, outdir=vr.random() < 0.25)
    v.update(fixed)
    return v


class Injected(Exception):
    pass


class World:
    """a directory with one recording, reference images of all its forms, and the projection function"""

    def __init__(self, root, ns, rng, nsites=4):
        self.root = Path(root)
        self.ns = ns
        self.fs = 30000
        self.nc = nsites + 1
        sites = metagen.dense_sites("3B2")[:nsites]
        self.meta_text, _ = metagen.make_meta("3B2", sites, ns=ns)
        # metadata of the other recordings that may lie in the same directory: other gains (other volts per sample)
        self.other_meta_text, _ = metagen.make_meta("3B2", sites, ns=ns, gains=[(250, 125)] * nsites)
        self.data = metagen.random_int16(rng, ns, self.nc)
        self.stale = metagen.random_int16(rng, ns, self.nc)
        self.kw = dict(chunk_duration=CHUNK / self.fs, n_threads=1)
        self.nchunks = -(-ns // CHUNK)
        self.ref = {}
        for tag, d in (("C", self.data), ("S", self.stale)):
            r = self.root / f"ref{tag}"
            b = metagen.write_recording(r, STEM[:-3], self.meta_text, d)
            import mtscomp
            mtscomp.compress(b, out=b.with_suffix(".cbin"), outmeta=b.with_suffix(".ch"), sample_rate=self.fs,
                             n_channels=self.nc, dtype=np.int16, **self.kw)
            self.ref[tag] = {"bin": b.read_bytes(), "cbin": b.with_suffix(".cbin").read_bytes(),
                             "ch": json.loads(b.with_suffix(".ch").read_text())}
        import spikeglx
        # the recording's own directory, nothing else in it.  What the library gives here is observed defensively: if the
        # Reader of the plain data file cannot be built or does not give one finite factor per channel, that is a verdict
        # (new_world reports it: ResolveSame), not a failure of the machinery
        self.s2v, self.s2v_exc = None, ""
        try:
            with spikeglx.Reader(self.root / "refC" / f"{STEM}.bin") as sr:
                got = sr.sample2volts
            s2v = np.array(got)
            if not (isinstance(got, np.ndarray) and s2v.shape == (self.nc,) and s2v.dtype.kind == "f" and np.all(np.isfinite(s2v))):
                self.s2v_exc = (f"sample2volts is {type(got).__name__} shape={getattr(got, 'shape', None)} "
                                f"dtype={getattr(got, 'dtype', None)}, not one finite factor for each of the {self.nc} channels")
            else:
                self.s2v = s2v
        except Exception as e:  # noqa
            self.s2v_exc = f"{type(e).__name__}: {e}"

    def paths(self, d, here=False):
        d = Path(d)
        if here:
            # decompress_to_scratch(scratch_dir=None): the model's scratch directory is the directory of the recording
            # (scratch names = the .bin / .bin_temp / .meta next to the .cbin); the model's "bin" is a name that never exists
            return {"bin": d / "none" / f"{STEM}.bin", "cbin": d / f"{STEM}.cbin", "ch": d / f"{STEM}.ch",
                    "meta": d / f"{STEM}.meta", "cbin_tmp": d / f"{STEM}.cbin_tmp", "sbin": d / f"{STEM}.bin",
                    "stmp": d / f"{STEM}.bin_temp", "smeta": d / f"{STEM}.meta"}
        sd = d / "scr" / "scratch"
        if getattr(self, "outdir", False):
            return {"bin": d / "elsewhere" / f"{STEM}.bin", "cbin": d / f"{STEM}.cbin", "ch": d / f"{STEM}.ch", "meta": d / f"{STEM}.meta",
                    "cbin_tmp": d / f"{STEM}.cbin_tmp", "sbin": sd / f"{STEM}.bin",
                    "stmp": sd / f"{STEM}.bin_temp", "smeta": sd / f"{STEM}.meta"}
        return {"bin": d / f"{STEM}.bin", "cbin": d / f"{STEM}.cbin", "ch": d / f"{STEM}.ch", "meta": d / f"{STEM}.meta",
                "cbin_tmp": d / f"{STEM}.cbin_tmp", "sbin": sd / f"{STEM}.bin",
                "stmp": sd / f"{STEM}.bin_temp", "smeta": sd / f"{STEM}.meta"}

    def setup(self, d, st, here=False, siblings=False, scratchdir="exists", leftover=0, linked=False, outdir=False):
        d = Path(d)
        if d.exists():
            shutil.rmtree(d)
        d.mkdir(parents=True)
        self.outdir = bool(outdir) and not here
        if self.outdir:
            (d / "elsewhere").mkdir()
        store = d.parent / (d.name + "_store")
        shutil.rmtree(store, ignore_errors=True)
        self.stored = {}
        p = self.paths(d, here)
        if here:
            assert st["bin"] == "A"
        elif scratchdir == "exists" or any(st[n] != "A" for n in ("sbin", "stmp", "smeta")):
            p["sbin"].parent.mkdir(parents=True)
        if siblings:
            self.sibling(d, STEM.replace(".ap", ".lf"))
        def partial(b, short):
            return short if leftover == 0 else b[:-1] + bytes([b[-1] ^ 0x55]) if leftover == 1 else b + b[:3]
        garbage = partial(self.ref["C"]["cbin"], self.ref["C"]["cbin"][: max(1, len(self.ref["C"]["cbin"]) // 3)])
        pbin = partial(self.ref["C"]["bin"], self.ref["C"]["bin"][:-3])
        for n in NAMES:
            s = st[n]
            if s == "A":
                continue
            if n in ("bin", "sbin", "stmp"):
                p[n].write_bytes(self.ref["C"]["bin"] if s == "C" else pbin if s == "P" else self.ref["S"]["bin"])
            elif n in ("cbin", "cbin_tmp"):
                p[n].write_bytes(self.ref[s]["cbin"] if s in "CS" else garbage)
            elif n == "ch":
                p[n].write_text(json.dumps(self.ref[s]["ch"], indent=2, sort_keys=True) if s in "CS" else "{")
            else:
                p[n].write_text(self.meta_text)
        if siblings:
            self.sibling(d, STEM.replace("imec0", "imec1"))
        if self.outdir:
            # the folder the decompressed file goes to holds the compressed pair of another recording under the same stem (a backup,
            # another session): seed round i removed ITS header instead of the source's
            for suf, content in ((".cbin", self.ref["S"]["cbin"]), (".ch", json.dumps(self.ref["S"]["ch"], indent=2, sort_keys=True).encode())):
                f = d / "elsewhere" / f"{STEM}{suf}"
                f.write_bytes(content)
                self.stored[f] = content
        if linked:
            # the complete data files live in a store and are linked under the recording's names (seed round g: the reader
            # followed the link and looked for / published / removed files next to the target)
            store.mkdir()
            for i, n in enumerate(("bin", "cbin")):
                if st[n] == "C" and not (here and n == "bin"):
                    tgt = store / f"dataset_{i:04d}{p[n].suffix}"
                    shutil.move(p[n], tgt)
                    p[n].symlink_to(tgt)
                    self.stored[tgt] = tgt.read_bytes()
        return p

    def store_state(self):
        """"ok" when every file of the data store is what it was and nothing was added to the store"""
        if not self.stored:
            return "skip"
        for tgt, b in self.stored.items():
            if not tgt.exists():
                return f"removed:{tgt.name}"
            if tgt.read_bytes() != b:
                return f"changed:{tgt.name}"
        if getattr(self, "outdir", False):
            return "ok"             # the output folder receives the decompressed file: only what was there is nobody's to touch
        extra = sorted(f.name for f in next(iter(self.stored)).parent.iterdir() if f not in self.stored)
        return "ok" if not extra else "added:" + ",".join(extra)

    def sibling(self, d, stem2, tag=""):
        """another (stale) recording of the same session in the same directory: the lf band of this probe (created before the
        files of the recording), the ap band of a second probe (created after them)"""
        (d / f"{stem2}{tag}.bin").write_bytes(self.ref["S"]["bin"])
        (d / f"{stem2}{tag}.cbin").write_bytes(self.ref["S"]["cbin"])
        (d / f"{stem2}{tag}.ch").write_text(json.dumps(self.ref["S"]["ch"], indent=2, sort_keys=True))
        (d / f"{stem2}{tag}.meta").write_text(self.other_meta_text)

    def project(self, d, here=False):
        p = self.paths(d, here)
        out = {}
        for n in NAMES:
            f = p[n]
            if not f.exists():
                out[n] = "A"
                continue
            try:
                # (something under the name that cannot be read as the file it should be - a directory, bytes that are no
                # text - is there and is not the complete file: "P")
                if n in ("bin", "sbin", "stmp"):
                    b = f.read_bytes()
                    out[n] = "C" if b == self.ref["C"]["bin"] else "S" if b == self.ref["S"]["bin"] else "P"
                elif n in ("cbin", "cbin_tmp"):
                    b = f.read_bytes()
                    out[n] = "C" if b == self.ref["C"]["cbin"] else "S" if b == self.ref["S"]["cbin"] else "P"
                elif n == "ch":
                    try:
                        j = json.loads(f.read_text())
                    except Exception:
                        j = None
                    out[n] = "C" if j == self.ref["C"]["ch"] else "S" if j == self.ref["S"]["ch"] else "P"
                else:
                    out[n] = "C" if f.read_text() == self.meta_text else "P"
            except (OSError, UnicodeDecodeError):
                out[n] = "A" if not os.path.lexists(f) else "P"
        return out


def new_world(ctx, root, ns, rng, nsites=4):
    """a World; if the Reader of its plain data file (a directory with the .bin and the .meta and nothing else) could not
    be observed, that is reported as the verdict it is: opening through the data file does not resolve to the recording"""
    world = World(root, ns, rng, nsites=nsites)
    if world.s2v_exc:
        ctx.violation("compress:ResolveSame:reference", f"Reader(<data file>) of a {ns} x {nsites + 1} recording alone in its directory "
                      f"does not expose the recording: {world.s2v_exc}", {"reference": [ns, nsites]})
    return world


def _is(got, want):
    """what the library returned is an array with the shape and the values of `want` (anything else - None, a list, another
    shape, values that cannot be compared - is "differs", never an error of the harness)"""
    try:
        return isinstance(got, np.ndarray) and isinstance(want, np.ndarray) and got.shape == want.shape and bool(np.array_equal(got, want))
    except Exception:
        return False


def _shp(x):
    return tuple(x.shape) if isinstance(x, np.ndarray) else f"<{type(x).__name__}>"


def _close(ctx, sr, what, scen):
    """close() of a Reader the harness is done with: raising is a verdict (the reader cannot be used as documented)"""
    try:
        sr.close()
    except Exception as e:  # noqa
        ctx.violation("compress:Transparent:raise", f"{what}: close() raised {type(e).__name__}: {e}", scen)


@contextlib.contextmanager
def instrumented(world, d, opname, fail_at, here=False):
    """wraps the file operations of one call; records (label, directory before the operation); raises Injected at the
    fail_at-th operation (0-based) if fail_at is not None"""
    import builtins
    import mtscomp
    steps = []
    state = {"n": 0}
    base = str(Path(d))

    def point(label):
        steps.append({"pt": label, "fs": world.project(d, here), "at": label})
        i = state["n"]
        state["n"] += 1
        if fail_at is not None and i == fail_at:
            steps[-1]["pt"] = "fail"
            raise Injected(label)

    def mine(path):
        path = os.path.abspath(str(path))
        return path == base or path.startswith(base + "/")

    orig = dict(open=builtins.open, cc=mtscomp.Writer._compress_chunk, dc=mtscomp.Reader._decompress_chunk,
                cm=mtscomp.Writer.get_cmeta, ck=mtscomp.check, rn=pathlib.Path.rename, ul=pathlib.Path.unlink,
                mv=shutil.move, cp=shutil.copy, cfg=mtscomp.DEFAULT_CONFIG)

    def w_open(file, mode="r", *a, **k):
        if isinstance(file, (str, pathlib.Path)) and mine(file) and "w" in mode:
            s = str(file)
            lab = ("open_tmp" if s.endswith(".cbin_tmp") else "open_ch" if s.endswith(".ch") else
                   "open_stmp" if s.endswith(".bin_temp") else "open_out" if s.endswith(".bin") else None)
            if lab:
                point(lab)
        return orig["open"](file, mode, *a, **k)

    def w_cc(self, idx):
        point("cchunk")
        return orig["cc"](self, idx)

    def w_dc(self, idx):
        point("dchunk")
        return orig["dc"](self, idx)

    def w_cm(self):
        point("cmeta")
        return orig["cm"](self)

    def w_ck(*a, **k):
        point("ccheck" if opname == "compress" else "dcheck")
        return orig["ck"](*a, **k)

    def w_rn(self, target):
        if mine(self):
            point("rename")
        return orig["rn"](self, target)

    def w_ul(self, *a, **k):
        if mine(self):
            s = str(self)
            lab = ("unlink_cbin" if s.endswith(".cbin") else "unlink_ch" if s.endswith(".ch") else
                   "unlink_bin" if s.endswith(".bin") else "unlink_stmp" if s.endswith(".bin_temp") else
                   "unlink_tmp" if s.endswith(".cbin_tmp") else "unlink_other")
            if lab != "unlink_other" or self.exists():
                point(lab)
        return orig["ul"](self, *a, **k)

    def w_mv(src, dst, *a, **k):
        if mine(src):
            point("move")
        return orig["mv"](src, dst, *a, **k)

    def w_cp(src, dst, *a, **k):
        if mine(dst):
            point("copy_meta")
        return orig["cp"](src, dst, *a, **k)

    mtscomp.open = w_open          # module global shadows the builtin inside mtscomp only
    mtscomp.Writer._compress_chunk = w_cc
    mtscomp.Reader._decompress_chunk = w_dc
    mtscomp.Writer.get_cmeta = w_cm
    mtscomp.check = w_ck
    pathlib.Path.rename = w_rn
    pathlib.Path.unlink = w_ul
    shutil.move = w_mv
    shutil.copy = w_cp
    mtscomp.DEFAULT_CONFIG = [(k, 1 if k == "n_threads" else v) for k, v in orig["cfg"]]
    try:
        yield steps
    finally:
        del mtscomp.open
        mtscomp.Writer._compress_chunk = orig["cc"]
        mtscomp.Reader._decompress_chunk = orig["dc"]
        mtscomp.Writer.get_cmeta = orig["cm"]
        mtscomp.check = orig["ck"]
        pathlib.Path.rename = orig["rn"]
        pathlib.Path.unlink = orig["ul"]
        shutil.move = orig["mv"]
        shutil.copy = orig["cp"]
        mtscomp.DEFAULT_CONFIG = orig["cfg"]


def make_reader(p, opname, var):
    """the Reader the call is made on, built the way `var` says"""
    import spikeglx
    want = "bin" if opname == "compress" else "cbin"
    path = p[want]
    if var["entry"] == "meta":
        # the metadata path is an entry to the wanted form when the constructor's lookup leads there: the .bin if there
        # is one, else the .cbin (in scratch-here mode the .bin next to the .cbin is the model's scratch copy)
        binfile = p["sbin"] if var["here"] else p["bin"]
        if ("bin" if binfile.exists() else "cbin") == want:
            path = p["meta"]
    if var["pathtype"] == "str":
        path = str(path)
    elif var["pathtype"] == "rel":
        path = os.path.relpath(path)
    sr = spikeglx.Reader(path, open=False) if var["obj"] == "unopened" else spikeglx.Reader(path)
    if var["obj"] == "closed":
        sr.close()
    return sr


def invoke(sr, world, p, opname, keep, var):
    kk = {} if (keep and var["keeparg"] == "default") else {"keep_original": keep}
    if opname == "compress":
        return sr.compress_file(**kk, **world.kw)
    if opname == "decompress":
        if getattr(world, "outdir", False):
            return sr.decompress_file(**kk, n_threads=1, out=p["bin"])
        return sr.decompress_file(**kk, n_threads=1)
    if var["here"]:
        return sr.decompress_to_scratch()
    return sr.decompress_to_scratch(scratch_dir=p["sbin"].parent)


def one_call(world, d, st, opname, keep, fail_at, var=None):
    """returns a trace record (or None if the call has fewer than fail_at+1 operations)"""
    if (var or {}).get("pathtype") != "rel":
        return _one_call(world, d, st, opname, keep, fail_at, var)
    with contextlib.chdir(Path(d).parent):      # the reader is given a path relative to the working directory
        return _one_call(world, d, st, opname, keep, fail_at, var)


def _one_call(world, d, st, opname, keep, fail_at, var=None):
    var = dict(VAR0, **(var or {}))
    here = bool(var["here"])
    if here and opname != "scratch":
        raise tlc.TLCError("scratch-here mapping is for decompress_to_scratch only")
    p = world.setup(d, st, here=here, siblings=var["siblings"], scratchdir=var["scratchdir"], leftover=var["leftover"],
                    linked=var["linked"], outdir=var["outdir"] and opname == "decompress" and st["bin"] == "A")
    rec = {"op": opname, "keep": bool(keep), "exc": "", "steps": [], "pre": st, "fail_at": fail_at, "ns": world.ns,
           "resolved": {"bin": "skip", "cbin": "skip", "meta": "skip"}, "reopen": "skip", "var": var}
    sr = None
    prior = var["prior"]
    if prior:
        # an earlier call on the same Reader object (not recorded: the same call is recorded on its own elsewhere);
        # the recorded call starts from whatever that one left behind, on the object as that one left it
        try:
            sr = make_reader(p, prior["op"], var)
            with instrumented(world, d, prior["op"], prior["fail_at"], here):
                try:
                    invoke(sr, world, p, prior["op"], prior["keep"], var)
                except Injected:
                    pass
                except ValueError as e:
                    if "already exists" not in str(e):
                        raise
        except Exception as e:  # noqa
            rec["exc"] = f"prior call: {type(e).__name__}: {e}"
        if prior.get("between") == "rm_bin":
            p["bin"].unlink(missing_ok=True)        # somebody removes the file that made the first call decline
    entry_fs = world.project(d, here)
    if prior and not (entry_fs["bin"] == "C" if opname == "compress" else (entry_fs["cbin"] == "C" and entry_fs["ch"] == "C")):
        # what the first call left is not a directory the second call is defined on (CStart / DStart / SStart of the model:
        # e.g. interrupted between the removal of the .cbin and of its header)
        try:
            sr.close()
        except Exception:
            pass
        return None
    with instrumented(world, d, opname, fail_at, here) as steps:
        try:
            if sr is None:
                sr = make_reader(p, opname, var)
            invoke(sr, world, p, opname, keep, var)
            steps.append({"pt": "return", "fs": world.project(d, here)})
            if opname in ("compress", "decompress"):
                # "the current spikeglx.Reader object is modified in place": the same object, re-opened, must still
                # expose the recording (whichever form it now points to)
                try:
                    sr.close()
                    sr.open()
                    same = sr.shape == (world.ns, world.nc) and np.array_equal(
                        sr[:, :], world.data.astype(np.float32) * sr.sample2volts[None, :])
                    rec["reopen"] = "ok" if same else f"wrong:shape={sr.shape}"
                except Exception as e:  # noqa
                    rec["reopen"] = f"raise:{type(e).__name__}"
        except Injected:
            pass
        except ValueError as e:
            if opname == "decompress" and "already exists" in str(e) and not steps:
                steps.append({"pt": "refuse", "fs": world.project(d, here)})
            else:
                rec["exc"] = f"{type(e).__name__}: {e}"
                steps.append({"pt": "fail", "fs": world.project(d, here)})
        except Exception as e:  # an exception nobody injected
            rec["exc"] = f"{type(e).__name__}: {e}"
            steps.append({"pt": "fail", "fs": world.project(d, here)})
        finally:
            try:
                if sr is not None:
                    sr.close()
            except Exception:
                pass
    if fail_at is not None and not any(s["pt"] == "fail" and s.get("at") for s in steps):
        return None          # the call has no such operation (or ended on its own before it: seen by the run without a fault)
    steps.append({"pt": "end", "fs": world.project(d, here)})
    if steps[0]["fs"] != entry_fs:
        # the directory changed through an operation that is not instrumented: a step of its own (not a step of the
        # specification: drift), so that the property layer still sees every observed directory
        steps.insert(0, {"pt": "unseen", "fs": entry_fs})
    if here:
        # the branch scratch_dir=None has no metadata copy: the model's step SNoCopy (directory unchanged)
        steps.insert(0, {"pt": "nocopy", "fs": entry_fs})
    for s_ in steps:
        s_.setdefault("at", "")
    rec["steps"] = steps
    rec["store"] = world.store_state()
    return rec


def resolve_record(world, d, st, var=None):
    """Reader(path) for the three entry paths of one directory"""
    if (var or {}).get("pathtype") != "rel":
        return _resolve_record(world, d, st, var)
    with contextlib.chdir(Path(d).parent):
        return _resolve_record(world, d, st, var)


def _resolve_record(world, d, st, var=None):
    import spikeglx
    var = dict(VAR0, **(var or {}))
    p = world.setup(d, st, siblings=var["siblings"], scratchdir=var["scratchdir"], linked=var["linked"])
    res = {}
    for e in ("bin", "cbin", "meta"):
        if not p[e].exists():
            res[e] = "skip"
            continue
        try:
            sr = spikeglx.Reader({"str": str(p[e]), "rel": os.path.relpath(p[e])}.get(var["pathtype"], p[e]))
            fb = sr.file_bin
            if fb is None:
                res[e] = "none"
            else:
                name = "cbin" if str(fb).endswith(".cbin") else "bin"
                same = sr.shape == (world.ns, world.nc) and np.array_equal(sr.sample2volts, world.s2v) and np.array_equal(
                    sr[:, :], world.data.astype(np.float32) * world.s2v[None, :])
                res[e] = name if same else "wrong"
                sr.close()
        except Exception as ex:
            res[e] = "none" if st.get(e, "C") in ("C",) else "skip"
            res[e + "_exc"] = f"{type(ex).__name__}: {ex}"
    return {"op": "resolve", "keep": True, "exc": "", "pre": st, "ns": world.ns, "fail_at": None,
            "steps": [{"pt": "end", "fs": world.project(d)}], "reopen": "skip", "var": var, "store": world.store_state(),
            "resolved": {k: res[k] for k in ("bin", "cbin", "meta")}, "detail": {k: v for k, v in res.items() if k.endswith("_exc")}}


def nstates(t):
    if t["op"] == "resolve":
        return 3
    return len(t["steps"]) + 2


def write_cfg(ctx, n):
    f = Path(ctx.scratch) / f"CompressTrace_{n}.cfg"
    f.write_text(f'SPECIFICATION Spec\nCONSTANTS\n  Variant = "fixed"\n  NChunks = {n}\nINVARIANT Consumed\nCHECK_DEADLOCK FALSE\n')
    return f


def judge(ctx, traces, label):
    out = []
    by_n = {}
    for i, t in enumerate(traces):
        by_n.setdefault(-(-t["ns"] // CHUNK), []).append(i)
    for n, idx in sorted(by_n.items()):
        part = [{"op": traces[i]["op"], "keep": traces[i]["keep"], "steps": traces[i]["steps"],
                 "resolved": traces[i]["resolved"], "reopen": traces[i].get("reopen", "skip"),
                 "store": "ok" if traces[i].get("store", "skip") in ("ok", "skip") else "touched"} for i in idx]
        vs = tracecheck.validate(ctx, "trace/CompressTrace.tla", write_cfg(ctx, n), part, label=f"{label}{n}",
                                 nstates=nstates, jvms=4, workers=2)
        for v in vs:
            v["index"] = idx[v["index"]]
            out.append(v)
    return out


def describe(t):
    pre = "".join(f"{k}={v} " for k, v in t["pre"].items() if v != "A")
    var = t.get("var") or VAR0
    how = " ".join(f"{k}={v}" for k, v in var.items() if k != "prior" and v != VAR0[k])
    pr = var.get("prior")
    if pr:
        how += (f" after {pr['op']}(keep={pr['keep']}) fail_at={pr['fail_at']} on the same Reader"
                + (" and removal of the .bin" if pr.get("between") else ""))
    return f"{t['op']}(keep={t['keep']}) fail_at={t['fail_at']} ns={t['ns']} pre: {pre}" + (f"[{how.strip()}]" if how.strip() else "")


SCEN_KEYS = ("op", "keep", "pre", "fail_at", "ns", "var")


def report(ctx, traces, verdicts):
    for v in verdicts:
        t = traces[v["index"]]
        if v["prop"]:
            ctx.violation("compress:" + v["prop"], f"{describe(t)}: property-layer clause {v['prop']} false at step {v['pos']}"
                          + (f" [{t['exc']}]" if t["exc"] else ""), {"trace": {k: t.get(k) for k in SCEN_KEYS}})
        elif v["impl"]:
            ctx.spec_drift(f"{describe(t)}: file operation '{v['impl']}' is not the implementation-layer step of "
                           f"spec/sys/Compress.tla at that point")


def varsig(var):
    return json.dumps({k: v for k, v in var.items() if v != VAR0[k]}, sort_keys=True)


def enumerate_faults(ctx, traces, world, d, st, opname, keep, mkvar):
    """the call without a fault, then with a fault injected at its 1st, 2nd, ... file operation until it has no further one;
    returns the number of file operations of the call"""
    fail_at = None
    while True:
        var = mkvar(fail_at)
        t = one_call(world, d, st, opname, keep, fail_at, var)
        if t is None:
            return fail_at
        traces.append(t)
        ctx.count(1, key=(world.ns, opname, keep, fail_at, json.dumps(st, sort_keys=True), varsig(var)))
        if fail_at is None and opname == "decompress" and st.get("bin") == "A":
            # the same call with the output sent to another folder (out=...), whatever the drawn variant says: every directory state
            # and both values of keep_original meet it without a fault (faults with out= come from the drawn variants)
            v2 = dict(var, outdir=True, here=False, prior=None)
            t2 = one_call(world, d, st, opname, keep, None, v2)
            if t2 is not None:
                traces.append(t2)
                ctx.count(1, key=(world.ns, opname, keep, None, json.dumps(st, sort_keys=True), varsig(v2)))
        fail_at = 0 if fail_at is None else fail_at + 1
        if fail_at > 40:
            raise tlc.TLCError("runaway fault enumeration")


def histories(ctx, traces, world, d, st, opname, keep, nops, vr, fixed):
    """same-object histories: the recorded call is the second call of a Reader whose first call (opname, keep) was
    interrupted at a file operation / was refused / completed.  Judged like every other call (one trace per recorded call;
    the directory it starts from is whatever the first call left)."""
    todo = []
    if nops:
        # interrupted, then the same call again on the same object
        todo.append(({"op": opname, "keep": keep, "fail_at": vr.randrange(nops)}, opname, keep))
    elif opname == "decompress" and st["bin"] != "A":
        # refused because a .bin was in the way; it goes away; the same object is asked again
        todo.append(({"op": opname, "keep": keep, "fail_at": None, "between": "rm_bin"}, opname, keep))
    # completed, then the call that fits the form the object now points to
    if opname == "compress":
        nxt = ("compress" if keep else "decompress", vr.random() < 0.5)
    elif opname == "decompress":
        nxt = ("scratch", True) if keep else ("compress", vr.random() < 0.5)
    else:
        nxt = ("scratch", True) if fixed.get("here") else ("decompress", vr.random() < 0.5)
    if nops:
        todo.append(({"op": opname, "keep": keep, "fail_at": None}, nxt[0], nxt[1]))
    for prior, op2, keep2 in todo:
        var = draw_var(vr, prior=prior, **fixed)
        t = one_call(world, d, st, op2, keep2, None, var)
        if t is None:
            continue
        traces.append(t)
        ctx.count(1, key=(world.ns, op2, keep2, None, json.dumps(st, sort_keys=True), varsig(var)))
        n2 = sum(1 for s_ in t["steps"] if s_["pt"] not in ("return", "end", "fail", "refuse", "nocopy", "unseen"))
        if n2 and not ctx.quick:
            # ... and the second call interrupted as well
            fa = vr.randrange(n2)
            t = one_call(world, d, st, op2, keep2, fa, var)
            if t is not None:
                traces.append(t)
                ctx.count(1, key=(world.ns, op2, keep2, fa, json.dumps(st, sort_keys=True), varsig(var)))


def run(ctx):
    import logging
    import mtscomp
    logging.getLogger("mtscomp").setLevel(logging.ERROR)
    logging.getLogger("ibllib").setLevel(logging.ERROR)
    mtscomp.tqdm = lambda it=None, **k: it          # progress bars off (cosmetic)
    ctx.level = "model_checking"
    rng = np.random.default_rng(ctx.seed)
    cfg = "mc/Compress_quick.cfg" if ctx.quick else "mc/Compress_thorough.cfg"
    r = tlc.run("sys/Compress.tla", cfg, workers=4, coverage=True)
    ctx.tlc(r, cfg)
    if not r.ok:
        raise tlc.TLCError(f"model of the current tree violates {r.invariant_violated}:\n{r.out[-2500:]}")
    zero = tlc.coverage_zero_actions(r.out)
    if zero:
        raise tlc.TLCError(f"vacuity: actions never taken {zero}")
    # initial directories of the model (spec -> code: every one is set up for real)
    out = Path(ctx.scratch) / "inits.json"
    r = tlc.run("mc/MC_Compress.tla", "mc/Compress_export.cfg", workers=1, env={"OUT_FILE": str(out)})
    ctx.tlc(r, "export-inits")
    if not r.ok:
        raise tlc.TLCError("export failed:\n" + r.out[-2000:])
    inits = json.loads(out.read_text())
    traces = []
    lens = [12, 3, 7] if ctx.quick else [12, 3, 7, 14, 5, 10]
    vr = random.Random(ctx.seed * 7919 + 11)        # how the calls are made (VAR) and which histories are added
    for li, ns in enumerate(lens):
        world = new_world(ctx, Path(ctx.scratch) / f"w{ns}", ns, rng)
        # directory names that contain the suffixes the code looks for
        d = Path(ctx.scratch) / (f"dir{ns}" if li == 0 else f"rec{ns}.cbin" if li % 2 else f"x{ns}.bin.meta")
        pres = inits if li == 0 else random.Random(ctx.seed + ns).sample(inits, 8 if ctx.quick else 16)

        def mkvar(fail_at, li=li, **fixed):
            # first world: the plain call as it always was for the run without a fault, a drawn variant for each faulted
            # run; other worlds: drawn variants throughout
            return dict(VAR0, **fixed) if (li == 0 and fail_at is None) else draw_var(vr, **fixed)

        for st in pres:
            for opname in ("compress", "decompress", "scratch"):
                if opname == "compress" and st["bin"] != "C":
                    continue
                if opname != "compress" and (st["cbin"] != "C" or st["ch"] != "C"):
                    continue
                for keep in ([True, False] if opname != "scratch" else [True]):
                    nops = enumerate_faults(ctx, traces, world, d, st, opname, keep, mkvar)
                    if not ctx.quick or vr.random() < (0.3 if li == 0 else 0.15):
                        histories(ctx, traces, world, d, st, opname, keep, nops, vr, {})
            if st["bin"] == "A":
                # decompress_to_scratch() with the default scratch_dir=None: the copy is published next to the .cbin
                nops = enumerate_faults(ctx, traces, world, d, st, "scratch", True, lambda fa: mkvar(fa, here=True))
                if not ctx.quick or vr.random() < 0.3:
                    histories(ctx, traces, world, d, st, "scratch", True, nops, vr, {"here": True})
            for var in ([VAR0, draw_var(vr)] if li == 0 else [draw_var(vr)]):
                traces.append(resolve_record(world, d, st, var))
                ctx.count(1, key=(ns, "resolve", json.dumps(st, sort_keys=True), var["pathtype"], var["siblings"]))
        shutil.rmtree(d, ignore_errors=True)
    for t in traces:
        if t["exc"]:
            ctx.violation("compress:UnexpectedException", f"{describe(t)}: raised {t['exc']} without an injected fault",
                          {"trace": {k: t.get(k) for k in SCEN_KEYS}})
    verdicts = judge(ctx, traces, "compress")
    report(ctx, traces, verdicts)
    ctx.cov["fault_points"] = sum(1 for t in traces if t["fail_at"] is not None)
    ctx.cov["distinct_observed_directories"] = len({json.dumps(s["fs"], sort_keys=True) for t in traces for s in t["steps"]})
    for t in traces[:2] + [x for x in traces if x["fail_at"] == 3][:1]:
        ctx.sample({"call": describe(t), "steps": [[s["pt"], "".join(f"{k}:{v} " for k, v in s["fs"].items() if v != "A")] for s in t["steps"]]})
    transparency(ctx, rng)
    selftest(ctx, traces, {v["index"] for v in verdicts if v["prop"]})
    ctx.cov["rule"] = ("every initial directory of the model x call x keep_original x failure injected at every file operation of "
                       "the call (enumerated until the call has no further operation); distinct = distinct (length, call, keep, "
                       "fail point, directory)")
    ctx.cov["exhaustive"] = True
    ctx.assumptions += ["projection: a file is 'C' iff byte-identical to the reference image (compression is deterministic for fixed "
                        "parameters), 'S' iff identical to the stale reference, else 'P'",
                        "mtscomp default n_threads forced to 1 during instrumented calls (ordering of chunk events)",
                        "failures are exceptions raised at the entry of a file operation (not power loss: no torn writes)"]


def transparency(ctx, rng):
    """spec -> code: every slice position relative to the chunk boundaries (TLC: CbinSlice), bin vs cbin"""
    import spikeglx
    out = Path(ctx.scratch) / "slices.json"
    cfg = "mc/CbinSlice_quick.cfg" if ctx.quick else "mc/CbinSlice_thorough.cfg"
    r = tlc.run("mc/MC_CbinSlice.tla", cfg, workers=4, env={"OUT_FILE": str(out)}, timeout=900)
    ctx.tlc(r, cfg)
    if not r.ok:
        raise tlc.TLCError(f"CbinSlice model: {r.invariant_violated}\n{r.out[-2000:]}")
    cases = json.loads(out.read_text())
    by_ns = {}
    for c in cases:
        by_ns.setdefault(c["ns"], []).append(c)
    n_eval = 0
    for ns, cs in sorted(by_ns.items()):
        for nsites in ([4] if ctx.quick else [4, 1, 9]) + ([384] if ns in (7, 12) else []):
            world = new_world(ctx, Path(ctx.scratch) / f"t{ns}_{nsites}", ns, rng, nsites=nsites)
            d = Path(ctx.scratch) / f"tdir{ns}_{nsites}"
            st = {n: "A" for n in NAMES}
            st.update({"bin": "C", "cbin": "C", "ch": "C", "meta": "C"})
            p = world.setup(d, st)
            scen0 = {"ns": ns, "nsites": nsites}
            sb = sc = None
            try:
                # (opening the two forms and looking at their shape and factors: whatever goes wrong here comes from the
                # code under test)
                sb, sc = spikeglx.Reader(p["bin"]), spikeglx.Reader(p["cbin"])
                full = world.data.astype(np.float32) * sb.sample2volts[None, :]
                if not (isinstance(full, np.ndarray) and full.shape == world.data.shape):
                    raise TypeError(f"Reader(bin).sample2volts has shape {_shp(sb.sample2volts)}")
                shb, shc = sb.shape, sc.shape
                differs = bool(shb != shc)
            except Exception as e:  # noqa
                ctx.violation("compress:Transparent:raise", f"opening the .bin and the .cbin of a {ns} x {nsites + 1} recording (shape, "
                              f"sample2volts): {type(e).__name__}: {e}", scen0)
                for r_ in (sb, sc):
                    if r_ is not None:
                        _close(ctx, r_, f"ns={ns} nc={nsites + 1}", scen0)
                shutil.rmtree(d, ignore_errors=True)
                continue
            if differs:
                ctx.violation("compress:Transparent:shape", f"shape differs bin {shb} cbin {shc} ns={ns}", {"ns": ns})
            for c in cs:
                a, b, s = (None if x == 999 else x for x in (c["start"], c["stop"], c["step"]))
                sel = slice(a, b, s)
                n_eval += 1
                exp_rows = list(c["rows"])      # TLC: the source rows NumPy slicing returns
                want = full[exp_rows, :] if exp_rows else full[:0, :]
                try:
                    gb = sb[sel, :]
                    gc = sc[sel, :]
                except Exception as e:
                    ctx.violation("compress:Transparent:raise", f"slice {sel} ns={ns}: {type(e).__name__}: {e}",
                                  {"ns": ns, "slice": [c["start"], c["stop"], c["step"]]})
                    continue
                if not _is(gb, want):
                    ctx.violation("bin:slice", f"Reader(bin)[{sel}] ns={ns} differs from NumPy semantics "
                                  f"(rows {exp_rows[:6]}..): shape {_shp(gb)} vs {want.shape}", {"ns": ns, "slice": [c["start"], c["stop"], c["step"]]})
                if not _is(gc, gb if isinstance(gb, np.ndarray) else want):
                    key = "cbin:negative-step-sample-slice" if (s is not None and s < 0) else "cbin:slice"
                    ctx.violation(key, f"Reader(cbin)[{sel}] != Reader(bin)[{sel}] ns={ns} chunk={CHUNK}: shapes {_shp(gc)} vs {_shp(gb)}",
                                  {"ns": ns, "slice": [c["start"], c["stop"], c["step"]]})
            n_eval += other_selectors(ctx, world, p, sb, sc, full, cs if not ctx.quick else cs[(ns + nsites) % 3::3])
            _close(ctx, sb, f"Reader(bin) ns={ns} nc={nsites + 1}", scen0)
            _close(ctx, sc, f"Reader(cbin) ns={ns} nc={nsites + 1}", scen0)
            shutil.rmtree(d, ignore_errors=True)
    ctx.count(n_eval, key=("slices", len(cases)))
    ctx.cov["slice_cases"] = len(cases)
    uuid_names(ctx, rng)
    default_arguments(ctx, rng)
    # byte identity compress -> decompress for many shapes (projection 'C' = identical bytes)
    import spikeglx as sg
    shapes = [(ns, nsites) for ns in ([1, 4, 5, 6, 11] if ctx.quick else list(range(1, 15))) for nsites in ([1, 4] if ctx.quick else [1, 2, 4, 17])]
    shapes += [(13, 384)]
    for ns, nsites in shapes:
        world = new_world(ctx, Path(ctx.scratch) / f"r{ns}_{nsites}", ns, rng, nsites=nsites)
        d = Path(ctx.scratch) / f"rdir{ns}_{nsites}"
        st = {n: "A" for n in NAMES}
        st.update({"bin": "C", "meta": "C"})
        p = world.setup(d, st)
        ctx.count(1, key=("roundtrip", ns, nsites))
        try:
            sr = sg.Reader(p["bin"])
            sr.compress_file(keep_original=False, **world.kw)
            mid = world.project(d)
            sr.close()
            sr = sg.Reader(p["cbin"])
            sr.decompress_file(keep_original=False, n_threads=1)
            sr.close()
        except Exception as e:  # noqa  (nobody injected a fault here)
            ctx.violation("compress:UnexpectedException", f"compress_file(keep_original=False) -> decompress_file(keep_original=False) "
                          f"ns={ns} nc={nsites + 1}: {type(e).__name__}: {e}", {"ns": ns, "nsites": nsites})
            shutil.rmtree(d, ignore_errors=True)
            continue
        end = world.project(d)
        if not (mid["bin"] == "A" and mid["cbin"] == "C" and end["bin"] == "C" and end["cbin"] == "A" and end["ch"] == "A"):
            ctx.violation("compress:RoundTrip", f"compress->decompress ns={ns} nc={nsites + 1}: directory {mid} then {end}",
                          {"ns": ns, "nsites": nsites})
        shutil.rmtree(d, ignore_errors=True)


def _same(x, y):
    if isinstance(x, tuple) or isinstance(y, tuple):
        return isinstance(x, tuple) and isinstance(y, tuple) and len(x) == len(y) and all(_same(a, b) for a, b in zip(x, y))
    if x is None or y is None:
        return x is None and y is None
    try:
        x, y = np.asarray(x), np.asarray(y)
        return x.shape == y.shape and x.dtype == y.dtype and bool(np.array_equal(x, y))
    except Exception:       # (ragged / incomparable objects came back: not the same thing through the reader)
        return False


def other_selectors(ctx, world, p, sb, sc, full, cases):
    """"same values for every selector": the other ways the reader is indexed, at the same sample-slice positions - one-argument
    indexing, channel selectors of every kind, integer sample indices, read() with the sync traces, read_samples,
    read_sync / read_sync_digital, the module function read().  Clause as for the plain slices: Reader(cbin) gives what
    Reader(bin) gives (and, for the data part, what NumPy indexing of the whole array gives)."""
    import spikeglx
    nc, ns = world.nc, world.ns
    csels = [slice(None), slice(1, 3), slice(None, None, -1), slice(None, None, 2), 0, -1, [nc - 1, 0],
             np.array([1, 1, 0]), slice(nc - 1, None)]
    forms = ["item1", "item2", "read_sync", "samples", "sync", "int", "func"]
    n = 0
    for j, c in enumerate(cases):
        a, b, st = (None if x == 999 else x for x in (c["start"], c["stop"], c["step"]))
        sel = slice(a, b, st)
        rows = list(c["rows"])
        form = forms[j % len(forms)]
        csel = csels[(j // len(forms)) % len(csels)]
        want = None         # NumPy semantics for the data part, where the form has one
        if form == "item1":
            call = lambda sr: sr[sel]                                   # noqa: E731
            want = full[rows, :] if rows else full[:0, :]
        elif form == "item2":
            call = lambda sr: sr[sel, csel]                             # noqa: E731
            want = (full[rows, :] if rows else full[:0, :])[:, csel]
        elif form == "read_sync":
            call = lambda sr: sr.read(nsel=sel, csel=csel, sync=True)   # noqa: E731
            want = (full[rows, :] if rows else full[:0, :])[:, csel]
        elif form == "samples":
            if st is not None:
                continue
            call = lambda sr: sr.read_samples(first_sample=a, last_sample=b, channels=csel)     # noqa: E731
            want = (full[rows, :] if rows else full[:0, :])[:, csel]
        elif form == "sync":
            call = lambda sr: (sr.read_sync(sel), sr.read_sync_digital(sel))        # noqa: E731
        elif form == "int":
            if a is None or not -ns <= a < ns:
                continue
            call = lambda sr: (sr[a], sr[a, csel], sr.read(nsel=a, csel=csel, sync=True)[1])    # noqa: E731
            want = full[a]
        else:
            if st is not None or j % 5:
                continue
            call = lambda sr: spikeglx.read(str(sr.file_bin), first_sample=a, last_sample=b)[:2]   # noqa: E731
            want = full[rows, :] if rows else full[:0, :]
        n += 1
        scen = {"ns": ns, "nsites": nc - 1, "slice": [c["start"], c["stop"], c["step"]], "form": form}
        try:
            gb, gc = call(sb), call(sc)
        except Exception as e:
            ctx.violation("compress:Transparent:raise", f"{form} {sel} csel={csel} ns={ns}: {type(e).__name__}: {e}", scen)
            continue
        if want is not None:
            data_b = (gb[0] if gb else None) if isinstance(gb, tuple) else gb
            if not _is(data_b, want):
                ctx.violation("bin:slice", f"Reader(bin) {form} {sel} csel={csel} ns={ns} differs from NumPy semantics: shape "
                              f"{_shp(data_b)} vs {want.shape}", scen)
        if not _same(gb, gc):
            key = "cbin:negative-step-sample-slice" if (st is not None and st < 0 and form != "int") else "cbin:slice"
            ctx.violation(key, f"Reader(cbin) {form} {sel} csel={csel} differs from Reader(bin) ns={ns} chunk={CHUNK}", scen)
    return n


def default_arguments(ctx, rng):
    """the calls as the documentation shows them: compress_file() / decompress_file() with every keyword left at its default
    (keep_original=True, mtscomp's own chunk length and thread count), and a multi-threaded multi-chunk compression"""
    import spikeglx as sg
    for ns, nsites, kw in ((11, 4, {}), (23, 3, dict(chunk_duration=CHUNK / 30000, n_threads=3)), (7, 384, {})):
        world = new_world(ctx, Path(ctx.scratch) / f"k{ns}_{nsites}", ns, rng, nsites=nsites)
        d = Path(ctx.scratch) / f"kdir{ns}_{nsites}"
        st = {n: "A" for n in NAMES}
        st.update({"bin": "C", "meta": "C"})
        p = world.setup(d, st)
        ctx.count(1, key=("defaults", ns, nsites, json.dumps(kw, sort_keys=True)))
        scen = {"defaults": [ns, nsites]}
        try:
            sr = sg.Reader(p["bin"])
            sr.compress_file(**kw)
            sr.close()
            one = world.project(d)
            sc = sg.Reader(p["cbin"])
            same = sc.shape == (ns, world.nc) and np.array_equal(sc[:, :], world.data.astype(np.float32) * sc.sample2volts[None, :])
            sc.close()
            p["bin"].unlink()
            sc = sg.Reader(p["cbin"])
            sc.decompress_file(**({k: v for k, v in kw.items() if k == "n_threads"}))
            sc.close()
            two = world.project(d)
        except Exception as e:  # noqa
            ctx.violation("compress:UnexpectedException", f"compress_file({kw}) / decompress_file() ns={ns} nc={nsites + 1}: "
                          f"{type(e).__name__}: {e}", scen)
            continue
        # CompletedP with keep_original = TRUE: both forms present, both complete
        if not (one["bin"] == "C" and one["cbin"] != "A" and one["ch"] != "A" and one["cbin_tmp"] == "A" and same):
            ctx.violation("compress:Completed", f"compress_file({kw}) with keep_original left at its default, ns={ns} nc={nsites + 1}: "
                          f"directory {one}, compressed file reads back {'the recording' if same else 'something else'}", scen)
        if not (two["bin"] == "C" and two["cbin"] == one["cbin"] and two["ch"] == one["ch"]):
            ctx.violation("compress:RoundTrip", f"compress_file({kw}) -> decompress_file() with defaults ns={ns} nc={nsites + 1}: "
                          f"directory {one} then {two}", scen)
        shutil.rmtree(d, ignore_errors=True)


def uuid_names(ctx, rng):
    """companion lookup when the files carry dataset UUIDs in their names (each file its own UUID): the data file, the
    compressed file and the header must still find each other"""
    import uuid
    import spikeglx
    world = new_world(ctx, Path(ctx.scratch) / "wu", 12, rng)
    d = Path(ctx.scratch) / "udir"
    st = {n: "A" for n in NAMES}
    st.update({"bin": "C", "cbin": "C", "ch": "C", "meta": "C"})
    p = world.setup(d, st)
    ur = random.Random(ctx.seed)
    u = [str(uuid.UUID(int=ur.getrandbits(128), version=4)) for _ in range(4)]
    stem = STEM
    names = {"bin": f"{stem}.{u[0]}.bin", "cbin": f"{stem}.{u[1]}.cbin", "ch": f"{stem}.{u[2]}.ch", "meta": f"{stem}.{u[3]}.meta"}
    for layout in (("bin", "meta"), ("cbin", "ch", "meta")):
        dd = Path(ctx.scratch) / ("udir_" + "_".join(layout))
        shutil.rmtree(dd, ignore_errors=True)
        dd.mkdir(parents=True)
        # the other band of the same probe (created first) and a second probe (created last) lie in the same directory
        # (another recording: stale content), every file with a UUID of its own
        def sibling(stem2):
            for k in layout:
                u2 = str(uuid.UUID(int=ur.getrandbits(128), version=4))
                if k == "meta":
                    (dd / f"{stem2}.{u2}.meta").write_text(world.other_meta_text)
                elif k == "ch":
                    (dd / f"{stem2}.{u2}.ch").write_text(json.dumps(world.ref["S"]["ch"], indent=2, sort_keys=True))
                else:
                    (dd / f"{stem2}.{u2}.{k}").write_bytes(world.ref["S"][k])
        sibling(STEM.replace(".ap", ".lf"))
        sibling(STEM.replace("imec0", "imec2"))
        for k in layout:
            shutil.copy(p[k], dd / names[k])
        sibling(STEM.replace("imec0", "imec1"))
        sibling(STEM.replace("imec0", "imec1").replace(".ap", ".lf"))
        sibling(STEM.replace("_g0_", "_g1_"))       # (directory order is arbitrary: several, before and after)
        entry = dd / names[layout[0]]
        ctx.count(1, key=("uuid", layout))
        try:
            sr = spikeglx.Reader(entry)
            same = sr.shape == (world.ns, world.nc) and np.array_equal(sr.sample2volts, world.s2v) and np.array_equal(
                sr[:, :], world.data.astype(np.float32) * world.s2v[None, :])
            sr.close()
            if not same:
                ctx.violation("compress:ResolveSame:uuid", f"Reader({entry.name}) with UUID-named companions {sorted(names[k] for k in layout)} "
                              f"does not expose the recording", {"uuid_layout": list(layout)})
        except Exception as e:  # noqa
            ctx.violation("compress:ResolveSame:uuid", f"Reader({entry.name}) with UUID-named companions raised {type(e).__name__}: {e}",
                          {"uuid_layout": list(layout)})
        shutil.rmtree(dd, ignore_errors=True)
    # the companions named by the caller (meta_file=, ch_file=): header and metadata kept in another directory
    dx, dy = Path(ctx.scratch) / "udir_data.cbin", Path(ctx.scratch) / "udir_companions"
    for q in (dx, dy):
        shutil.rmtree(q, ignore_errors=True)
        q.mkdir(parents=True)
    shutil.copy(p["cbin"], dx / p["cbin"].name)
    shutil.copy(p["ch"], dy / p["ch"].name)
    shutil.copy(p["meta"], dy / p["meta"].name)
    ctx.count(1, key=("explicit-companions",))
    try:
        sr = spikeglx.Reader(dx / p["cbin"].name, meta_file=dy / p["meta"].name, ch_file=dy / p["ch"].name)
        same = sr.shape == (world.ns, world.nc) and np.array_equal(
            sr[:, :], world.data.astype(np.float32) * sr.sample2volts[None, :])
        sr.close()
        if not same:
            ctx.violation("compress:ResolveSame:explicit", "Reader(cbin, meta_file=, ch_file=) with the companions in another "
                          "directory does not expose the recording", {"explicit_companions": True})
    except Exception as e:  # noqa
        ctx.violation("compress:ResolveSame:explicit", f"Reader(cbin, meta_file=, ch_file=) with the companions in another directory "
                      f"raised {type(e).__name__}: {e}", {"explicit_companions": True})
    shutil.rmtree(dx, ignore_errors=True)
    shutil.rmtree(dy, ignore_errors=True)
    shutil.rmtree(d, ignore_errors=True)


def selftest(ctx, traces, bad):
    # accepted by the property layer (drifting traces serve as well: the corruption is made on the observed directories,
    # located by what they show, not by the names of the file operations)
    good = [i for i, t in enumerate(traces) if i not in bad and t["op"] == "compress" and t["fail_at"] is None
            and not t["keep"] and t["ns"] == 12 and not t["var"]["prior"] and not t["exc"]
            and any(s["fs"]["cbin_tmp"] == "C" for s in t["steps"]) and any(s["fs"]["cbin_tmp"] == "P" for s in t["steps"][:-1])][:4]
    if len(good) < 2:
        raise tlc.TLCError("selftest: no accepted compress traces")
    mut = []
    for j, i in enumerate(good):
        t = copy.deepcopy(traces[i])
        if j % 2 == 0:
            # source removed before the publication: from the last directory in which the temporary file is still there
            # and complete (the one the publishing operation starts from) the source is gone and nothing carries the final name
            k = max(q for q, s in enumerate(t["steps"]) if s["fs"]["cbin_tmp"] == "C")
            for s in t["steps"][k:]:
                s["fs"]["bin"] = "A"
            t["steps"][k]["fs"]["cbin"] = "A"
        else:
            # final name carries a partial file while chunks are written
            k = min(q for q, s in enumerate(t["steps"][:-1]) if s["fs"]["cbin_tmp"] == "P")
            t["steps"][k + 1]["fs"]["cbin"] = "P"
        mut.append(t)
    keep = ctx.cov["traces_validated_against_impl"]
    v = judge(ctx, mut, "selftest")
    ctx.cov["traces_validated_against_impl"] = keep
    flagged = {x["index"] for x in v if x["prop"]}
    if len(flagged) != len(mut):
        raise tlc.TLCError(f"binding self-test: only {len(flagged)}/{len(mut)} corrupted traces were rejected")
    ctx.cov["selftest_corrupted_traces_rejected"] = len(flagged)


def replay(ctx, sc):
    rng = np.random.default_rng(ctx.seed)
    if "trace" in sc:
        t = sc["trace"]
        world = new_world(ctx, Path(ctx.scratch) / "w", t["ns"], rng)
        d = Path(ctx.scratch) / "dir"
        tr = (resolve_record(world, d, t["pre"], t.get("var")) if t["op"] == "resolve"
              else one_call(world, d, t["pre"], t["op"], t["keep"], t["fail_at"], t.get("var")))
        if tr is None:
            return
        if tr["exc"]:
            ctx.violation("compress:UnexpectedException", f"{describe(tr)}: {tr['exc']}", sc)
        report(ctx, [tr], judge(ctx, [tr], "replay"))
    elif "reference" in sc:
        new_world(ctx, Path(ctx.scratch) / "w", sc["reference"][0], rng, nsites=sc["reference"][1])
    else:
        transparency(ctx, rng)
