"""C16 - saturation flags follow the proportion rule and the mute gain covers them.

1. TLC: spec/lib/Saturation.tla - the statements of voltage.saturation as actions over abstract inputs (per
   sample: number of channels over 98 % of range / over the slew limit), gain as intervals obtained from
   bounds of the cosine taps; property layer = proportion rule, gain in [0,1], 0 on flags, 1 beyond the
   half-width, function of the flags only.  Boxes: all counts for nc <= 6 x 2 samples; all count matrices
   nc <= 2 x ns <= 3|4; all flag vectors up to length 9|12 x widths 1..9|12.
2. spec -> code: every abstract input exported by TLC is realised twice with real voltages just below / at /
   just above 0.98 x range and the slew limit (scalar and per-channel ranges, channel counts replicated up to
   400) and the real saturation() is compared with the exported flags and classes.
3. code -> spec: every call is recorded and validated by spec/trace/SaturationTrace.tla (TLC evaluates the
   property layer in integer arithmetic on the observed flags / projected gain), plus families TLC did not
   enumerate: every channel count 1..400 around the proportion, long records with runs at the ends, voltages
   read through the real spikeglx.Reader with range_volts as max_voltage.
4. argument forms and call histories (draw_mode): every realisation draws the element type of the voltages (float64,
   float32 with the neighbouring float32 values of the threshold, int32 / int64 counts), their memory layout (C, Fortran,
   a window of a larger array, the transposed [ns, nc] block a Reader returns; writable or read-only), the form of
   max_voltage (Python / numpy scalars, 0-d, one-element, list, float32, read-only, strided, integer), fs / v_per_sec
   (given or left to their defaults, other rates), proportion / mute_window_samples given or left to their defaults, the
   call style (positional / keyword), the same argument objects used twice, and - for a part of them - a call on other
   voltages between obtaining a result and looking at it.  Both realisations of a record are judged by every clause.
Numeric clause decided by projection: gain == 0 / == 1 / within [0,1] to 1e-12.
Robustness: whatever a call returns goes through `decode` (total): no pair, flags / gain that are not one-dimensional or not
booleans / numbers -> no entries -> `OneValuePerSample`; gains that are not real numbers (NaN, text, None, complex off the real
axis) -> class "X" -> `Range`; only exceptions raised inside the library calls (`LIB_ERRORS`, SystemExit included) become
`Raised:<type>`; `Reader.range_volts` is looked at by `observe_range` (`sat:RangeVolts` whatever happens afterwards).
"""
import copy
import json
import logging
import random
from concurrent.futures import ThreadPoolExecutor
from fractions import Fraction

import numpy as np

from vkit import metagen, tlc, tracecheck

TOL = 1e-12
G_EXACT = 2.0 ** -20          # grid step of the exact family: fs = 1, v_per_sec = 8 g
G_DEFAULT = 3e-4 / 8          # default fs = 30000, v_per_sec = 1e-8 -> limit 3e-4 V per sample

# ------------------------------------------------------------------------------------------------
# voltage levels of one channel relative to its threshold thr = 0.98 * range
#   integer j: thr + j g (over iff j > 0), "A": exactly thr (not over), "B": just below, "C": just above,
#   "Z": zero volts.   slew class of a step: 0 below the limit, 1 strictly above, 2 exactly at (|dj| = 8)
# ------------------------------------------------------------------------------------------------
LEVELS = list(range(-6, 4)) + ["A", "B", "C", "Z"]


def _over(l):
    return l == "C" or (isinstance(l, int) and l > 0)


def _eff(l):
    return 0 if l in ("A", "B", "C") else l


def _cls(l0, l1, flip):
    if l0 == "Z" and l1 == "Z":
        return 0
    if l0 == "Z" or l1 == "Z" or flip:
        return 1
    d = abs(_eff(l0) - _eff(l1))
    return 0 if d < 8 else (2 if d == 8 else 1)


ATCAP = {True: [2, 3], False: [-5, -6]}
TRANS = {}
for _l0 in LEVELS:
    for _o in (False, True):
        for _w in (0, 1, 2):
            TRANS[(_l0, _o, _w)] = [(f, l1) for f in (False, True) for l1 in LEVELS
                                    if _over(l1) == _o and _cls(_l0, l1, f) == _w]
START = {o: [l for l in LEVELS if _over(l) == o and l != "Z"] for o in (False, True)}
for _k in list(TRANS):       # zero volts is only used for channels that stay there (it cannot be left with a small step)
    if _k[0] != "Z":
        TRANS[_k] = [x for x in TRANS[_k] if x[1] != "Z"]


def build(over, slew, rnd, allow_at):
    """over [nc, ns] bool, slew [nc, ns-1] in {0, 1, 2} -> (sign [nc, ns], level codes [nc][ns], realised slew classes)"""
    nc, ns = over.shape
    sign = np.ones((nc, ns))
    lev = [[None] * ns for _ in range(nc)]
    real = slew.copy()
    for c in range(nc):
        s = rnd.choice((-1.0, 1.0))
        if not over[c].any() and not real[c].any() and rnd.random() < 0.3:
            lev[c] = ["Z"] * ns
            continue
        want_at = ns > 1 and real[c, 0] == 2
        cands = ATCAP[bool(over[c, 0])] if want_at else START[bool(over[c, 0])]
        l = rnd.choice(cands)
        sign[c, 0], lev[c][0] = s, l
        for t in range(ns - 1):
            o1 = bool(over[c, t + 1])
            w = int(real[c, t])
            cands = TRANS[(l, o1, w)]
            if t + 2 < ns and real[c, t + 1] == 2:
                cc = [x for x in cands if x[1] in ATCAP[o1]]
                if cc:
                    cands = cc
                else:
                    real[c, t + 1] = 0
            if not cands:        # an 'at' step that cannot be realised from here: make it an ordinary small step
                real[c, t] = w = 0
                cands = TRANS[(l, o1, 0)]
            f, l = rnd.choice(cands)
            s = -s if f else s
            sign[c, t + 1], lev[c][t + 1] = s, l
    return sign, lev, real


CODE = {"A": 100, "B": 101, "C": 102, "Z": 103}
NPTYPE = {"f8": np.float64, "f4": np.float32, "i4": np.int32, "i8": np.int64}


def values(sign, lev, thr, g, dtype="f8", thr_alt=None):
    """level codes -> voltages of element type `dtype`.  thr [nc]: the float64 value of the number the code compares
    |v| with; thr_alt: a second admissible value of it (single precision range: the product taken in double precision) -
    'just below' / 'just above' then lie outside both and 'at' is realised as 'just below'.
    float32: 'just below / just above' are the neighbouring float32 values ('at' exists only when the threshold is a
    float32 number); the integer levels sit on the float32 neighbour of the threshold (g is a multiple of its spacing, so
    steps between levels stay exact).  integers: counts, g = 2 counts, 'just above' = first integer above the threshold,
    'at' / 'just below' = last one not above it"""
    L = np.array([[CODE.get(l, l) for l in row] for row in lev], dtype=np.int64).reshape(sign.shape)
    th = np.asarray(thr, dtype=np.float64)[:, np.newaxis]
    alt = th if thr_alt is None else np.asarray(thr_alt, dtype=np.float64)[:, np.newaxis]
    lo, hi = np.minimum(th, alt), np.maximum(th, alt)
    if dtype in ("i4", "i8"):
        base = np.floor(lo)
        at = below = base
        above = np.floor(hi) + 1
    elif dtype == "f4":
        l32, h32 = lo.astype(np.float32), hi.astype(np.float32)
        base = th.astype(np.float32).astype(np.float64)
        below = np.where(l32.astype(np.float64) < lo, l32, np.nextafter(l32, np.float32(0))).astype(np.float64)
        above = np.where(h32.astype(np.float64) > hi, h32, np.nextafter(h32, np.float32(np.inf))).astype(np.float64)
        at = np.where((base == th) & (lo == hi), base, below)
    else:
        base = th
        below = np.nextafter(lo, 0.0)
        above = np.nextafter(hi, np.inf)
        at = np.where(lo == hi, th, below)
    x = base + np.where(L < 100, L, 0) * g
    x = np.where((L == 100) | (L == 0), at, x)          # level 0 is the threshold itself: not over
    x = np.where(L == 101, below, x)
    x = np.where(L == 102, above, x)
    x = np.where(L == 103, 0.0, x)
    return (sign * x).astype(NPTYPE[dtype])


# ------------------------------------------------------------------------------------------------
# argument forms and call histories of one realisation (Python primitives only: a mode is stored in the scenario)
# ------------------------------------------------------------------------------------------------
MV_SCALAR = ["float", "float", "np64", "0d", "arr1", "list1", "full", "np32"]
MV_VECTOR = ["f64", "f64", "f32", "list", "ro", "strided"]
LAYOUTS = ["C", "C", "F", "view", "T"]
RATES = ["omit", "omit", "fs", "v", "both", "25k"]      # default limit 3e-4 V / sample: which of fs, v_per_sec are passed
STYLES = ["pos", "pos", "kw", "pos2", "allpos"]


def draw_mode(rnd):
    dt = rnd.choice(["f8"] * 7 + ["f4"] * 2 + [rnd.choice(["i4", "i8"])])
    per_channel = rnd.random() < 0.5
    m = {"dtype": dt, "per_channel": per_channel, "layout": rnd.choice(LAYOUTS), "ro": rnd.random() < 0.3,
         "style": rnd.choice(STYLES), "omit_p": rnd.random() < 0.5, "omit_M": rnd.random() < 0.5, "Mnp": rnd.random() < 0.15,
         "disturb": rnd.random() < 0.25}
    if dt in ("i4", "i8"):
        m.update(exact=True, R=rnd.choice([512, 8192, 2048]), mv=rnd.choice(["int", "float", "full"] if not per_channel
                                                                           else ["i64", "f64", "list"]),
                 fs=rnd.choice([1, 2, 4.0]), rate="both")
    else:
        # full scales: 1 V, the probes' 0.6 V and 0.6 V / gain, and microvolt units (float32 cannot hold the grid there)
        m.update(exact=rnd.random() < 0.6, R=rnd.choice([1.0, 0.6, 1.2e-3 * 512, 1.2e-3, 7.5e-3] + ([1200.0] if dt == "f8" else [])),
                 mv=rnd.choice(MV_VECTOR if per_channel else MV_SCALAR))
        if m["mv"] in ("np32", "f32") and m["R"] > 100:      # nor a single precision range
            m["R"] = 1.2e-3 * 512
        if m["exact"]:
            m.update(fs=rnd.choice([1, 1, 2, 0.5, 4.0, 32768]), rate="both")
        else:
            m.update(fs=30000, rate=rnd.choice(RATES))
            if m["rate"] == "25k":
                m["fs"] = 25000.0
    return m


def grid(mode):
    if mode["dtype"] in ("i4", "i8"):
        return 2.0
    return G_EXACT if mode["exact"] else G_DEFAULT


def make_maxv(mode, nc, nprng):
    integer = mode["dtype"] in ("i4", "i8")
    form = mode["mv"]
    if not mode["per_channel"]:
        R = mode["R"]
        return {"float": float(R), "int": int(R) if integer else float(R), "np64": np.float64(R), "0d": np.array(float(R)),
                "arr1": np.array([float(R)]), "list1": [float(R)], "full": np.full(nc, float(R)), "np32": np.float32(R)}[form]
    if integer:
        base = nprng.integers(400, 9000, size=nc)
        return {"i64": base, "f64": base.astype(np.float64), "list": [int(v) for v in base]}[form]
    base = nprng.uniform(0.5, 2.0, size=nc) * (1.2e-3 if mode["R"] < 0.1 else 1200.0 if mode["R"] > 100 else 1.0)
    if form == "f32":
        return base.astype(np.float32)
    if form == "list":
        return [float(v) for v in base]
    if form == "ro":
        base.flags.writeable = False
        return base
    if form == "strided":
        big = nprng.uniform(0.5, 2.0, size=2 * nc)
        big[::2] = base
        return big[::2]
    return base


def lay_out(v, mode, nprng):
    """the same numbers in another memory layout"""
    lay = mode["layout"]
    if lay == "F":
        d = np.asfortranarray(v)
    elif lay == "T":                      # what a Reader gives: a [ns, nc] block, transposed
        d = np.ascontiguousarray(v.T).T
    elif lay == "view":                   # one chunk of a longer recording with more channels
        big = (nprng.uniform(-3, 3, size=(v.shape[0] + 2, v.shape[1] + 3)) * max(1.0, float(np.abs(v).max(initial=0)))).astype(v.dtype)
        big[1:-1, 2:-1] = v
        d = big[1:-1, 2:-1]
    else:
        d = np.ascontiguousarray(v)
    if mode["ro"]:
        d.flags.writeable = False
    return d


def realise(co, cs, nc_abs, rep, rnd, nprng, mode, want_at=False):
    """counts per sample (for nc_abs channels) x replication -> data, max_voltage, realised co/cs/ca"""
    ns = len(co)
    nc = nc_abs * rep
    over = np.zeros((nc, ns), dtype=bool)
    slew = np.zeros((nc, max(ns - 1, 0)), dtype=np.int64)
    for t in range(ns):
        over[rnd.sample(range(nc), co[t] * rep), t] = True
    for t in range(ns - 1):
        idx = rnd.sample(range(nc), cs[t] * rep)
        slew[idx, t] = 1
        if want_at and mode["exact"]:
            free = [c for c in range(nc) if slew[c, t] == 0 and over[c, t] != over[c, t + 1]]
            for c in free[:rnd.randint(0, min(len(free), 3))]:
                slew[c, t] = 2
    sign, lev, real = build(over, slew, rnd, want_at)
    maxv = make_maxv(mode, nc, nprng)
    # the number |v| is compared with: the same floating point product as the code computes, in the type numpy gives it
    mv1 = np.atleast_1d(maxv)
    prod = mv1 * 0.98
    thr = np.broadcast_to(np.asarray(prod, dtype=np.float64), (nc,))
    # a single precision range (what Reader.range_volts is): numpy takes the product in single precision; taking it in double
    # precision is 98 % of the range just as well, so no voltage is placed between the two
    alt = np.broadcast_to(mv1.astype(np.float64) * 0.98, (nc,)) if prod.dtype == np.float32 else None
    v = values(sign, lev, thr, grid(mode), mode["dtype"], alt)
    if (real == 2).any():
        # a step meant to sit exactly at the limit does not when the two voltages lie in different binades (one of them was
        # rounded): it is recorded as what it is.  The difference of two neighbours of one sign is exact (Sterbenz)
        d = np.abs(np.diff(v.astype(np.float64), axis=-1))
        lim = 8 * grid(mode)
        real = np.where((real == 2) & (d > lim), 1, np.where((real == 2) & (d < lim), 0, real))
    data = lay_out(v, mode, nprng)
    cs_real = [int(np.sum(real[:, t] == 1)) for t in range(ns - 1)] + [0]
    ca_real = [int(np.sum(real[:, t] == 2)) for t in range(ns - 1)] + [0]
    co_real = [int(np.sum(over[:, t])) for t in range(ns)]
    return data, maxv, co_real, cs_real, ca_real


_CLS = np.array(["P", "Z", "O", "X"])


def classify(mute):
    v = np.asarray(mute, dtype=float)
    with np.errstate(invalid="ignore"):
        code = np.where(~np.isfinite(v) | (v < -TOL) | (v > 1 + TOL), 3, np.where(np.abs(v) <= TOL, 1, np.where(np.abs(v - 1) <= TOL, 2, 0)))
    return _CLS[code].tolist()


def call(data, maxv, mode, a, b, M):
    from ibldsp import voltage
    opt = {}
    g = grid(mode)
    if mode["rate"] in ("fs", "both", "25k"):
        opt["fs"] = mode["fs"]
    if mode["rate"] in ("v", "both", "25k"):
        # the limit is 8 g per sample.  exact / integer family: powers of two; default family: 3e-4 V per sample, written
        # as the default 1e-8 V/s at 30 kHz or as the same step at 25 kHz
        opt["v_per_sec"] = 1e-8 if (not mode["exact"] and mode["rate"] != "25k") else 8 * g / mode["fs"]
    if not (mode["omit_p"] and (a, b) == (1, 5)):
        # the proportion as a caller may hold it: a Python float, a NumPy scalar, a 0-d array (seed round i: channel fractions
        # computed in single precision compare differently with a NumPy double at exactly proportion * nc channels)
        k = (a + 2 * b + M) % 4
        opt["proportion"] = a / b if k < 2 else np.float64(a / b) if k == 2 else np.array(a / b)
    if not (mode["omit_M"] and M == 7):
        opt["mute_window_samples"] = np.int64(M) if mode["Mnp"] else M
    style = mode["style"]
    if style == "allpos" and len(opt) == 4:
        def f(d):
            return voltage.saturation(d, maxv, opt["v_per_sec"], opt["fs"], opt["proportion"], opt["mute_window_samples"])
    elif style == "kw":                   # the way decompress_destripe_cbin calls it
        def f(d):
            return voltage.saturation(data=d, max_voltage=maxv, **opt)
    elif style == "pos2":
        def f(d):
            return voltage.saturation(d, maxv, **opt)
    else:
        def f(d):
            return voltage.saturation(d, max_voltage=maxv, **opt)
    # the function is called twice with the very same argument objects (a caller processes a recording chunk by chunk
    # with one range vector): the second answer is the one judged, so a call that alters its arguments or keeps state
    # between calls shows up as a wrong flag / gain
    f(data)
    ret = f(data)
    if mode["disturb"]:
        # the caller goes on with other voltages before it looks at the answer it holds: the objects returned by the
        # judged call are looked at after this call
        other = np.ascontiguousarray(data[:, ::-1]) if M % 2 else np.zeros_like(data)
        f(other)
    return ret          # whatever the code returned: decode() looks at it


# what may escape from a call of the code under test into a verdict (`Raised:<type>`); a SystemExit raised in there would
# otherwise end the check with the exit status the code chose
LIB_ERRORS = (Exception, SystemExit)


def decode(ret):
    """whatever a call of saturation() returned -> (flags, gain): a 1-D bool array and a 1-D float array, or None for a part that
    is not 'one value per sample' (no pair at all, another number of dimensions, elements that are neither booleans nor numbers).
    Gains that are not real numbers (text, None, a complex number off the real axis) become NaN: not within [0, 1].
    Total: the only failures left are the harness's own"""
    try:
        sat, mute = ret
    except LIB_ERRORS:
        return None, None
    try:
        fl = np.asarray(sat)
        if fl.ndim == 1 and fl.dtype.kind == "O" and all(isinstance(v, (bool, int, float, np.bool_, np.integer, np.floating)) for v in fl):
            fl = fl.astype(float)
        if fl.ndim != 1 or fl.dtype.kind not in "biuf":
            fl = None
        elif fl.dtype != bool:
            fl = fl != 0
    except LIB_ERRORS:
        fl = None
    try:
        g = np.asarray(mute)
        if g.ndim != 1:
            g = None
        elif g.dtype.kind in "biuf":
            g = g.astype(float)
        elif g.dtype.kind == "c":
            g = np.where(g.imag == 0, g.real, np.nan).astype(float)
        elif g.dtype.kind == "O":
            g = np.array([_real(v) for v in g], dtype=float)
        else:
            g = np.full(g.shape, np.nan)
    except LIB_ERRORS:
        g = None
    return fl, g


def _real(v):
    if isinstance(v, (bool, int, float, np.bool_, np.integer, np.floating)):
        return float(v)
    if isinstance(v, (complex, np.complexfloating)) and v.imag == 0:
        return float(v.real)
    return np.nan


def observe(fl, g):
    """decoded flags / gain -> the fields of a trace record (a missing part: no entries, `OneValuePerSample` is false)"""
    if g is None:
        cls, q = [], []
    else:
        fin = np.isfinite(g)
        q = np.where(fin, np.rint(np.clip(np.where(fin, g, 0.0), -1, 2) * 1e6), -999).astype(np.int64).tolist()
        cls = classify(g)
    return ([] if fl is None else [bool(v) for v in fl]), cls, q


def shape_of(ret):
    """one line about what a call returned instead of (flags [ns], gain [ns])"""
    try:
        return "(" + ", ".join(f"{type(x).__name__}{list(np.shape(x))}" for x in ret) + ")"
    except LIB_ERRORS:
        return type(ret).__name__


def observe_range(rv_all, want):
    """Reader.range_volts (all channels, the sync channel last) against the full scale of the metadata -> (ok, one line)"""
    try:
        rv = np.asarray(rv_all)
        if rv.ndim != 1 or rv.dtype.kind not in "iuf":
            return False, f"{type(rv_all).__name__} {list(rv.shape)} of {rv.dtype}"
        rv = rv.astype(np.float64)[:-1]
        return bool(rv.shape == want.shape and np.allclose(rv, want, rtol=1e-6, atol=0)), str([float(v) for v in rv[:3]])
    except LIB_ERRORS:
        return False, type(rv_all).__name__


def same_gain(g, g2):
    return bool(g is not None and g2 is not None and g.shape == g2.shape and np.all(np.abs(g - g2) <= TOL))


def record(co, cs, nc_abs, a, b, M, rnd, nprng, reps, want_at=False, extra=None, modes=None):
    """two realisations of one abstract input -> one trace record, both judged (fields of the second one end in 2)"""
    rec = {"nc": 0, "ns": len(co), "a": a, "b": b, "M": M, "co": [], "cs": [], "ca": [], "flags": [], "cls": [], "q": [],
           "nc2": 0, "co2": [], "cs2": [], "ca2": [], "flags2": [], "cls2": [], "q2": [], "same": True, "exc": "",
           "abs": {"nc": nc_abs, "co": list(co), "cs": list(cs), "reps": list(reps), "modes": []}}
    if extra:
        rec["abs"].update(extra)
    res = []
    for k, rep in enumerate(reps):
        mode = dict(modes[k]) if modes else draw_mode(rnd)
        rec["abs"]["modes"].append(mode)
        data, maxv, co_r, cs_r, ca_r = realise(co, cs, nc_abs, rep, rnd, nprng, mode, want_at and k == 0)
        if k == 0:
            rec.update(nc=nc_abs * rep, co=co_r, cs=cs_r, ca=ca_r, mode=str(mode))
        else:
            rec.update(nc2=nc_abs * rep, co2=co_r, cs2=cs_r, ca2=ca_r)
        try:            # only the code under test may raise into the verdict
            ret = call(data, maxv, mode, a, b, M)
        except LIB_ERRORS as e:
            rec["exc"] = type(e).__name__
            return rec
        res.append(decode(ret))
    sat, mute = res[0]
    rec["flags"], rec["cls"], rec["q"] = observe(sat, mute)
    sat2, mute2 = res[-1]
    rec["flags2"], rec["cls2"], rec["q2"] = observe(sat2, mute2)
    rec["same"] = same_gain(mute, mute2)
    return rec


def key_of(rec):
    return (rec["nc"], rec["a"], rec["b"], rec["M"], tuple(rec["co"]), tuple(rec["cs"]), tuple(rec["ca"]))


# ------------------------------------------------------------------------------------------------
def run_models(ctx):
    if ctx.quick:
        runs = [("mc/Saturation_flags.cfg", "flags.json"), ("mc/Saturation_small3.cfg", "small.json"),
                ("mc/Saturation_quick.cfg", "mute.json")]
    else:
        runs = [("mc/Saturation_flags.cfg", "flags.json"), ("mc/Saturation_small4.cfg", "small.json"),
                ("mc/Saturation_quick.cfg", "mute.json"), ("mc/Saturation_thorough.cfg", None)]

    def one(r):
        cfg, out = r
        return r, tlc.run("mc/MC_Saturation.tla", cfg, workers=2 if ctx.quick else 4, timeout=2400,
                          env={"OUT_FILE": str(ctx.scratch / (out or "unused.json"))})
    cases = []
    with ThreadPoolExecutor(max_workers=3) as ex:
        for (cfg, out), res in ex.map(one, runs):
            ctx.tlc(res, cfg)
            if not res.ok:
                model_cex(ctx, cfg, res)
            elif out:
                cases += json.loads((ctx.scratch / out).read_text())
    return cases


def model_cex(ctx, cfg, res):
    """the implementation layer (which mirrors the code) violates the property layer: reproduce on the real code"""
    st = res.error_trace[-1] if res.error_trace else {}
    try:
        fl = tlc.parse_value(st["flags"])
        M = int(st["M"])
    except Exception:
        raise tlc.TLCError(f"{cfg}: model violates {res.invariant_violated}; counterexample not parsable\n{res.out[-1500:]}")
    rnd, nprng = random.Random(1), np.random.default_rng(1)
    co = [1 if f else 0 for f in fl]
    rec = record(co, [0] * (len(co) - 1), 1, 1, 2, M, rnd, nprng, (1, 3))
    v = tracecheck.validate(ctx, "trace/SaturationTrace.tla", "trace/SaturationTrace.cfg", [rec], label="cex", jvms=1,
                            nstates=lambda t: 3)
    if v and v[0]["prop"]:
        ctx.violation(vkey(rec, v[0]["prop"]), f"model counterexample ({res.invariant_violated}, {cfg}) reproduced on the real "
                      f"saturation(): flags {co}, mute_window_samples={M}: clause {v[0]['prop']} false, gain {rec['q']} e-6",
                      {"kind": "abs", "rec": strip(rec)})
    else:
        raise tlc.TLCError(f"{cfg}: model violates {res.invariant_violated} at flags {co}, M={M} but the real code does not: "
                           f"the model is wrong")


def vkey(rec, clause):
    """scenario-class key: clause + the fields that make it fail"""
    clause = clause.split(":")[0]
    if clause == "ZeroOnFlag":
        return f"sat:ZeroOnFlag:{'even' if rec['M'] % 2 == 0 else 'odd'}-width"
    return f"sat:{clause}"


def slim(rec):
    """what the trace spec reads (the scenario description stays on this side)"""
    return {k: v for k, v in rec.items() if k not in ("abs", "mode", "exp", "range_ok", "range_obs", "range_exp")}


def which(rec, clause):
    """the call of the record a clause speaks about (clauses of the second call end in ':2')"""
    two = clause.endswith(":2")
    modes = rec.get("abs", {}).get("modes", [])
    mode = modes[1 if two else 0] if len(modes) > (1 if two else 0) else {}
    sfx = "2" if two else ""
    out = {k: rec.get(k + sfx, []) for k in ("nc", "co", "cs", "ca", "flags", "q")}
    out["mode"] = ("second call, " if two else "") + ", ".join(f"{k}={mode[k]}" for k in ("dtype", "layout", "mv", "fs", "rate", "style")
                                                              if k in mode) if mode else ("second call" if two else "first call")
    return out


def strip(rec):
    return {k: rec[k] for k in ("abs", "a", "b", "M", "nc", "ns", "co", "cs", "ca", "flags", "cls", "q",
                                "nc2", "co2", "cs2", "ca2", "flags2", "q2") if k in rec}


# ------------------------------------------------------------------------------------------------
PROPS_UNIT = ((1, 2), (1, 3), (1, 10), (1, 400))
PROPS_OTHER = ((2, 5), (3, 4), (2, 3), (7, 10))
PROPS = ((1, 5),) + PROPS_UNIT + PROPS_OTHER


def extra_families(ctx, rnd, nprng):
    """inputs TLC did not enumerate; expectations come from TLC through the trace spec"""
    recs = []
    # every channel count 1..400, counts just below / at / just above the proportion, over and slew separately
    ncs = range(1, 401) if not ctx.quick else sorted(set(list(range(1, 41)) + rnd.sample(range(41, 401), 60) + [384, 385, 400]))
    for nc in ncs:
        if ctx.quick:       # the default, one more unit fraction, one a / b with a > 1 (b dividing nc when there is one: 'at' exists)
            pr = ((1, 5), rnd.choice(PROPS_UNIT), rnd.choice([q for q in PROPS_OTHER if nc % q[1] == 0] or PROPS_OTHER))
        for (a, b) in (PROPS if not ctx.quick else pr):
            k = (a * nc) // b
            cnts = sorted({c for c in (k - 1, k, k + 1, 0, nc) if 0 <= c <= nc})
            ns = len(cnts) * 2 + 1
            co = [0] * ns
            cs = [0] * (ns - 1)
            for i, c in enumerate(cnts):
                co[2 * i] = c
            M = rnd.choice([7, 7, 3, 5, 4, 6, 2, 8])
            recs.append(record(co, cs, nc, a, b, M, rnd, nprng, (1, 1), extra={"family": "count-over"}))
            co = [k] * ns                 # exactly the proportion of channels over range: not more than it
            cs = [0] * (ns - 1)
            for i, c in enumerate(cnts):
                cs[2 * i] = c
            recs.append(record(co, cs, nc, a, b, M, rnd, nprng, (1, 1), want_at=True, extra={"family": "count-slew"}))
    # longer records: isolated flags, adjacent runs, runs touching both ends, all widths incl. > 12
    nlong = 150 if ctx.quick else 1500
    for i in range(nlong):
        ns = rnd.randint(8, 70)
        nc = rnd.choice([1, 2, 5, 16, 64])
        a, b = rnd.choice([(1, 5), (1, 5), (1, 2), (1, 2), (2, 5), (3, 4)])
        hi = (a * nc) // b + 1
        fl = [0] * ns
        for _ in range(rnd.randint(1, 4)):
            s = rnd.choice([0, ns - 1, rnd.randrange(ns), rnd.randrange(ns)])
            ln = rnd.choice([1, 1, 2, 3, 9])
            for t in range(s, min(ns, s + ln)):
                fl[t] = 1
        if i % 7 == 0:
            fl = [1] * ns
        use_slew = i % 3 == 0
        co = [hi * f if not use_slew else 0 for f in fl]
        cs = [(hi * f if use_slew else 0) for f in fl[:-1]]
        if use_slew and fl[-1]:
            co[-1] = hi            # the last sample cannot be flagged by a slew
        M = rnd.choice([7, 7, 1, 2, 3, 4, 5, 6, 8, 9, 10, 11, 12, 15, 20])
        recs.append(record(co, cs, nc, a, b, M, rnd, nprng, (1, rnd.choice([1, 2])), want_at=(i % 5 == 0),
                           extra={"family": "long"}))
    return recs


def very_long(ctx, rnd, nprng):
    """records of the length of a processing batch (16 k - 70 k samples: the trace specification's clauses are quadratic in the
    length, so these are judged here with the same clauses written out): flags exactly where the counts say, gain 0 on every
    flagged sample, gain 1 farther than the taper from every flag.  Events sit on and next to the positions a blockwise
    implementation would cut at (powers of two, multiples of round block sizes), at both ends and anywhere."""
    nrec = 3 if ctx.quick else 14
    for i in range(nrec):
        ns = [16390, 40003, 65539, 32770, 20000, 70001, 16385][i % 7] + (i // 7) * 13
        nc_abs, rep = rnd.choice([1, 3, 5]), 1
        a, b = rnd.choice([(1, 5), (1, 2), (2, 5)])
        hi = (a * nc_abs) // b + 1
        M = rnd.choice([7, 7, 4, 12])
        cuts = {2 ** k + d for k in range(10, 17) for d in (-2, -1, 0)} | {m * q + d for m in (1000, 3000, 4096, 8192, 10000, 16384, 30000)
                                                                              for q in range(1, 8) for d in (-1, 0)}
        pos = sorted(p_ for p_ in cuts if 2 <= p_ < ns - 2)
        pos = sorted(set(rnd.sample(pos, min(len(pos), 40)) + [0, ns - 2, ns - 1] + [rnd.randrange(ns) for _ in range(6)]))
        co, cs = [0] * ns, [0] * (ns - 1)
        for j, p_ in enumerate(pos):
            if j % 3 == 2 or p_ == ns - 1:
                co[p_] = hi
            else:
                cs[p_] = hi
        mode = draw_mode(rnd)
        data, maxv, co_r, cs_r, _ca = realise(co, cs, nc_abs, rep, rnd, nprng, mode)
        what = f"saturation() on a record of {ns} samples x {nc_abs} channels (proportion {a}/{b}, mute_window_samples={M}, {mode})"
        sc = {"kind": "verylong", "i": i, "seed": ctx.seed}
        ctx.count(1, key=("verylong", ns, nc_abs, a, b, M))
        try:
            ret = call(data, maxv, mode, a, b, M)
        except LIB_ERRORS as e:
            ctx.violation("sat:Raised:" + type(e).__name__, f"{what} raised {type(e).__name__}: {e}"[:300], sc)
            continue
        sat, mute = decode(ret)
        nc = nc_abs * rep
        exp = np.array([c * b > a * nc for c in co_r]) | np.r_[np.array([c * b > a * nc for c in cs_r[:ns - 1]]), False]
        if sat is None or mute is None or sat.shape != (ns,) or mute.shape != (ns,):
            ctx.violation("sat:OneValuePerSample", f"{what}: not one flag and one gain per sample: {shape_of(ret)}", sc)
            continue
        bad = np.flatnonzero(sat != exp)
        if bad.size:
            ctx.violation("sat:Flag", f"{what}: flags differ from the proportion rule at samples {bad[:6].tolist()} (flagged there: "
                          f"{sat[bad[:6]].tolist()})", sc)
            continue
        fl = np.flatnonzero(exp)
        dist = np.full(ns, ns)
        if fl.size:
            idx = np.searchsorted(fl, np.arange(ns))
            left = np.where(idx > 0, np.arange(ns) - fl[np.clip(idx - 1, 0, fl.size - 1)], ns)
            right = np.where(idx < fl.size, fl[np.clip(idx, 0, fl.size - 1)] - np.arange(ns), ns)
            dist = np.minimum(left, right)
        with np.errstate(invalid="ignore"):      # a gain that is not a number satisfies none of the clauses
            nz = ~(np.abs(mute[exp]) <= TOL)
            if np.any(nz):
                ctx.violation("sat:ZeroOnFlag", f"{what}: gain {mute[exp][nz][:3].tolist()} on flagged samples", sc)
            elif not np.all(np.abs(mute[dist > M] - 1) <= TOL) or not np.all((mute >= -TOL) & (mute <= 1 + TOL)):
                ctx.violation("sat:OneFar", f"{what}: gain is not 1 farther than the taper from every flagged sample / leaves [0, 1]", sc)


def reader_family(ctx, folder, rnd, nprng):
    """voltages read through the real Reader, max_voltage = Reader.range_volts (per-channel gains; AP and LF streams).
    The first call is made the way decompress_destripe_cbin makes it (keywords, defaults for everything else but the
    slew limit, float32 block transposed, the range looked up after the block was read); the second one on a float64
    copy with the range vector that was looked up before anything was read, after the reader is closed"""
    out = []
    cfgs = [("3B2", 12, None, 512, "ap"), ("3A", 10, None, 512, "lf"), ("NP2.4", 16, None, 8192, "ap"), ("3B2", 9, None, 512, "lf"),
            ("3B1", 11, None, 512, "ap"), ("3B2", 384, None, 512, "ap"), ("NP2.1", 384, 0.62, 2048, "ap")]
    if ctx.quick:
        cfgs = cfgs[:4]
    for kind, n, rng_max, maxint, stream in cfgs:
        for rep_i in range(2 if ctx.quick else 6):
            ns = rnd.randint(6, 30)
            gains = [(rnd.choice([250, 500, 1000]), rnd.choice([125, 250])) for _ in range(n)] if kind in ("3B2", "3A", "3B1") else None
            sites = metagen.dense_sites(kind, nshank=4 if kind == "NP2.4" else 1)[:n]
            text, info = metagen.make_meta(kind, sites, ns=ns, gains=gains, range_max=rng_max, maxint=maxint, stream=stream)
            a, b = rnd.choice([(1, 5), (1, 2)])
            k = (a * n) // b
            co = [rnd.choice([0, max(k - 1, 0), k, min(k + 1, n), n]) for _ in range(ns)]
            cs = [rnd.choice([0, 0, k, min(k + 1, n)]) for _ in range(ns - 1)]
            lim = int(0.98 * maxint)            # |raw| > 0.98 maxint  <=>  |raw| >= lim + 1
            raw = np.zeros((ns, n + 1), dtype=np.int16)
            over = np.zeros((n, ns), dtype=bool)
            sl = np.zeros((n, ns - 1), dtype=bool)
            for t in range(ns):
                over[rnd.sample(range(n), co[t]), t] = True
            for t in range(ns - 1):
                sl[rnd.sample(range(n), cs[t]), t] = True
            for c in range(n):
                s = rnd.choice([-1, 1])
                for t in range(ns):
                    if t > 0 and sl[c, t - 1]:
                        s = -s
                    mag = lim + rnd.choice([1, 2, 3]) if over[c, t] else lim - rnd.choice([0, 1, 2])
                    raw[t, c] = s * mag
            raw[:, -1] = nprng.integers(0, 64, size=ns)
            f = metagen.write_recording(folder, f"sat_{kind.replace('.', '')}_{n}_{rep_i}", text, raw, suffix="." + stream)
            rec = {"nc": n, "ns": ns, "a": a, "b": b, "M": 7, "co": co, "cs": cs + [0], "ca": [0] * ns, "flags": [], "cls": [],
                   "q": [], "nc2": n, "co2": co, "cs2": cs + [0], "ca2": [0] * ns, "flags2": [], "cls2": [], "q2": [], "same": True,
                   "exc": "", "abs": {"family": "reader", "kind": kind, "stream": stream, "file": f.name}}
            want = np.array([info["range_max"] / ((g[0] if stream == "ap" else g[1]) if gains else 80) for g in (gains or [None] * n)])
            rec["range_exp"] = str([float(v) for v in want[:3]])
            ret = ret2 = None
            try:            # library calls only: what they return is decoded below
                import spikeglx
                from ibldsp import voltage
                sr = spikeglx.Reader(f, sort=False)
                try:
                    rv_all = sr.range_volts
                    rec["range_ok"], rec["range_obs"] = observe_range(rv_all, want)
                    rv_early = rv_all[:-1]
                    data = sr[:, :-1].T
                    # slew limit between the small steps (<= 5 counts) and a sign flip (>= 2 * 0.97 maxint counts)
                    s2v = np.asarray(sr.sample2volts[:-1], dtype=np.float64)
                    L = 20 * s2v.max()
                    opt = {} if (a, b) == (1, 5) and rep_i % 2 else {"proportion": a / b}
                    ret = voltage.saturation(data=data, max_voltage=sr.range_volts[:-1], fs=sr.fs, v_per_sec=L / sr.fs, **opt)
                finally:
                    sr.close()
                ret2 = voltage.saturation(np.asarray(data, dtype=np.float64), rv_early, L / sr.fs, sr.fs, a / b)
            except LIB_ERRORS as e:
                rec["exc"] = type(e).__name__
            if rec["exc"] == "":
                sat, mute = decode(ret)
                sat2, mute2 = decode(ret2)
                rec["flags"], rec["cls"], rec["q"] = observe(sat, mute)
                rec["flags2"], rec["cls2"], rec["q2"] = observe(sat2, mute2)
                rec["same"] = same_gain(mute, mute2)
            out.append(rec)
            f.unlink()
    return out


def check_window_table(ctx):
    """the tap bounds in Saturation.tla against scipy's cosine window (trusted numeric fact)"""
    import re
    import scipy.signal
    txt = (tlc.SPEC / "lib" / "Saturation.tla").read_text()
    for name, sgn in (("WinLoTab", -1), ("WinHiTab", 1)):
        body = txt[txt.index(name + " =="):]
        body = body[:body.index(">>>>") + 4]
        tab = [[int(x) for x in re.findall(r"\d+", row)] for row in re.findall(r"<<([\d, ]+)>>", body)]
        if len(tab) != 12:
            raise tlc.TLCError(f"window table {name}: {len(tab)} rows")
        for M, row in enumerate(tab, start=1):
            w = scipy.signal.windows.cosine(M) * 1e6
            for k, v in enumerate(row):
                if len(row) != M or (sgn < 0 and not (w[k] - 1.5 <= v <= w[k] + 1e-6)) or (sgn > 0 and not (w[k] - 1e-6 <= v <= w[k] + 1.5)):
                    raise tlc.TLCError(f"window table {name}[{M}][{k}] = {v} does not bound cosine({M})[{k}] = {w[k]}")


# ------------------------------------------------------------------------------------------------
def run(ctx):
    ctx.level = "model_checking"
    logging.getLogger("ibllib").setLevel(logging.ERROR)
    check_window_table(ctx)
    rnd = random.Random(ctx.seed)
    nprng = np.random.default_rng(ctx.seed)
    cases = run_models(ctx)
    if not ctx.violations and len(cases) < 3000:
        raise tlc.TLCError(f"TLC exported only {len(cases)} abstract inputs")

    # ---------- spec -> code (+ the same calls recorded for code -> spec) ---------------------
    recs = []
    nbig = 0
    for i, c in enumerate(cases):
        nc_abs = c["nc"]
        big = (i % 29 == 0)
        reps = (rnd.choice([1, 2, 3]), rnd.choice([1, 5, 400 // nc_abs if big else 7]))
        rec = record(c["co"], c["cs"], nc_abs, c["a"], c["b"], c["M"], rnd, nprng, reps)
        rec["exp"] = {"flags": c["flags"], "cls": c["cls"]}
        recs.append(rec)
        ctx.count(2, key=(nc_abs, c["a"], c["b"], c["M"], tuple(c["co"]), tuple(c["cs"])) if any(c["flags"]) else None)
        cl = compare(rec, c)
        if cl:
            w = which(rec, cl)
            ctx.violation(vkey(rec, cl), f"saturation() on {w['nc']} channels realising counts over={w['co']} slew={w['cs']} "
                          f"(proportion {c['a']}/{c['b']}, mute_window_samples={c['M']}; {w['mode']}): clause {cl} false: flags "
                          f"{w['flags']} gain {w['q']} e-6, TLC expects flags {c['flags']} classes {c['cls']}",
                          {"kind": "abs", "rec": strip(rec)})
    ctx.sample({"abstract": {k: cases[0][k] for k in ("nc", "ns", "a", "b", "M", "co", "cs", "flags", "cls")},
                "observed": strip(recs[0])})
    very_long(ctx, random.Random(ctx.seed + 99), np.random.default_rng(ctx.seed + 99))
    extra = extra_families(ctx, rnd, nprng)
    rdr = reader_family(ctx, ctx.scratch / "rec", rnd, nprng)
    ctx.count(2 * len(extra) + 2 * len(rdr))
    for r in extra:
        ctx._distinct.add(key_of(r))
    for r in rdr:
        if not r.get("range_ok", True):
            ctx.violation("sat:RangeVolts", f"Reader.range_volts of {r['abs']['file']} is {r['range_obs']}.., full scale is "
                          f"{r['range_exp']}..", {"kind": "reader", "rec": strip(r)})
    allr = recs + extra + rdr
    verd = tracecheck.validate(ctx, "trace/SaturationTrace.tla", "trace/SaturationTrace.cfg", [slim(r) for r in allr], label="sat",
                               jvms=4, workers=2, nstates=lambda t: 3, timeout=1800)
    ndrift = 0
    for v in verd:
        r = allr[v["index"]]
        if v["prop"]:
            w = which(r, v["prop"])
            ctx.violation(vkey(r, v["prop"]), f"saturation() on {w['nc']} channels, counts over={w['co']} slew={w['cs']} at-limit="
                          f"{w['ca']} (proportion {r['a']}/{r['b']}, mute_window_samples={r['M']}; {w['mode']}): clause {v['prop']} "
                          f"false: flags {[int(f) for f in w['flags']]} gain {w['q']} e-6", {"kind": "abs", "rec": strip(r)})
        elif v["impl"]:
            ndrift += 1
            if ndrift <= 3:
                ctx.spec_drift(f"saturation(): {v['impl']} differs from spec/lib/Saturation.tla on counts over={r['co']} slew={r['cs']} "
                               f"at={r['ca']} M={r['M']} (all property-layer clauses hold)")
    ctx.sample({"extra": strip(extra[0])})
    ctx.sample({"reader": strip(rdr[0])})
    selftest(ctx, cases)
    ctx.cov["numeric_postconditions"] = "gain classes (== 0, == 1, within [0,1]) and equality of two gains are projections with 1e-12"
    ctx.cov["rule"] = ("model: every count matrix / flag vector of the boxes; replay: every exported abstract input realised twice "
                       "with real voltages; traces: the same calls + every channel count 1..400 around the proportion + long records "
                       "+ voltages through spikeglx.Reader; non-trivial = at least one flagged sample")
    ctx.cov["exhaustive"] = True
    ctx.assumptions += ["cosine window taps bounded by the table in Saturation.tla (checked against scipy at run time)",
                        "a channel sitting exactly at the slew limit may count either way (text: 'exceed', code: >=)",
                        "exactness of 'at 98 %' relies on computing 0.98 * range with the same float64 product as the code"]


def compare(rec, c):
    """TLC's exported expectation against the real output (property layer only)"""
    if rec["exc"]:
        return "Raised:" + rec["exc"]
    if len(rec["flags"]) != c["ns"] or len(rec["cls"]) != c["ns"]:
        return "OneValuePerSample"
    if rec["flags"] != c["flags"]:
        return "Flag"
    if "X" in rec["cls"]:
        return "Range"
    for o, e in zip(rec["cls"], c["cls"]):
        if e == "Z" and o != "Z":
            return "ZeroOnFlag"
        if e == "O" and o != "O":
            return "OneFar"
    if rec["flags"] == rec["flags2"] and not rec["same"]:
        return "FlagsOnly"
    # the second realisation (other channel count, element type, layout, argument forms, defaults left out)
    if len(rec["flags2"]) != c["ns"] or len(rec["cls2"]) != c["ns"]:
        return "OneValuePerSample:2"
    if rec["flags2"] != c["flags"]:
        return "Flag:2"
    if "X" in rec["cls2"]:
        return "Range:2"
    for o, e in zip(rec["cls2"], c["cls"]):
        if e == "Z" and o != "Z":
            return "ZeroOnFlag:2"
        if e == "O" and o != "O":
            return "OneFar:2"
    return ""


def gold(seed):
    """records correct by construction (from the definitions, not from the code under test)"""
    rnd = random.Random(seed)
    out = []
    for i in range(12):
        nc = rnd.choice([5, 10, 3])
        ns = rnd.randint(9, 14)
        a, b = 1, 5
        M = [7, 3, 5][i % 3]
        co = [rnd.choice([0, 0, 0, nc // 5, nc // 5 + 1]) for _ in range(ns)]
        cs = [rnd.choice([0, 0, 0, nc // 5 + 1]) for _ in range(ns - 1)] + [0]
        co[4], cs[4], cs[3] = nc // 5 + 1, 0, 0
        fl = [co[t] * b > a * nc or cs[t] * b > a * nc for t in range(ns)]
        h = M // 2
        w = np.sin(np.pi * (np.arange(M) + 0.5) / M)
        q, cls = [], []
        for t in range(ns):
            cv = sum(w[h + t - i] for i in range(ns) if fl[i] and 0 <= h + t - i < M)
            g = 0.0 if fl[t] else max(0.0, 1 - cv)
            q.append(int(round(g * 1e6)))
            cls.append("Z" if fl[t] or g <= TOL else ("O" if g >= 1 - TOL else "P"))
        out.append({"nc": nc, "ns": ns, "a": a, "b": b, "M": M, "co": co, "cs": cs, "ca": [0] * ns, "flags": fl, "cls": cls, "q": q,
                    "nc2": 2 * nc, "co2": [2 * v for v in co], "cs2": [2 * v for v in cs], "ca2": [0] * ns,
                    "flags2": list(fl), "cls2": list(cls), "q2": list(q), "same": True, "exc": ""})
    return out


def selftest(ctx, cases):
    keep = ctx.cov["traces_validated_against_impl"]
    g = gold(ctx.seed)
    mut = []
    for j, r in enumerate(g):
        t = copy.deepcopy(r)
        k = j % 8
        tf = next(i for i, f in enumerate(t["flags"]) if f)
        if k == 0:
            t["flags"][tf] = False                     # a flagged sample not reported
        elif k == 1:
            i0 = next(i for i, f in enumerate(t["flags"]) if not f)
            t["flags"][i0] = True                      # a clean sample reported
            t["cls"][i0] = "Z"
        elif k == 2:
            t["cls"][tf] = "P"                         # gain not zero on a flag (F13)
            t["q"][tf] = 34074
        elif k == 3:
            far = [i for i in range(t["ns"]) if all(abs(i - u) > t["M"] // 2 for u, f in enumerate(t["flags"]) if f)]
            if far:
                t["cls"][far[0]] = "P"                 # gain below one far from any flag
                t["q"][far[0]] = 900000
            else:
                t["cls"][0] = "X"
        elif k == 4:
            t["cls"][0] = "X"                          # gain outside [0, 1]
        elif k == 5:
            t["same"] = False                          # gain depends on something else than the flags
        elif k == 6:
            t["flags2"][tf] = False                    # the second call misses a flagged sample
        else:
            i0 = next(i for i, f in enumerate(t["flags"]) if not f)
            t["co2"][i0] = t["nc2"]                    # the second call's voltages have one more saturated sample ...
            t["flags2"][i0] = True
            t["cls2"][i0], t["q2"][i0] = "P", 250000   # ... which it flags, but does not mute
        mut.append(t)
    v = tracecheck.validate(ctx, "trace/SaturationTrace.tla", "trace/SaturationTrace.cfg", g + mut, label="selftest", jvms=1,
                            nstates=lambda t: 3)
    flagged = {x["index"] for x in v if x["prop"]}
    drift = {x["index"] for x in v if x["impl"] and not x["prop"]}
    if flagged != set(range(len(g), len(g) + len(mut))) or drift:
        raise tlc.TLCError(f"binding self-test (SaturationTrace): flagged {sorted(flagged)} drift {sorted(drift)}; expected exactly "
                           f"the {len(mut)} corrupted records after {len(g)} correct ones")
    ctx.cov["traces_validated_against_impl"] = keep
    # replay direction: perturbed expectations must be flagged on the real output
    rnd, nprng = random.Random(ctx.seed + 1), np.random.default_rng(ctx.seed + 1)
    pool = [c for c in cases if any(c["flags"]) and not all(c["flags"]) and "O" in c["cls"]][:40]
    n = 0
    for j, c in enumerate(pool):
        rec = record(c["co"], c["cs"], c["nc"], c["a"], c["b"], c["M"], rnd, nprng, (1, 2))
        if compare(rec, c) and not ctx.violations:
            raise tlc.TLCError("binding self-test (replay): the comparator flags a correct expectation")
        e = copy.deepcopy(c)
        if j % 2 == 0:
            i0 = e["flags"].index(True)
            e["flags"][i0] = False
        else:
            i0 = e["cls"].index("O")
            e["cls"][i0] = "Z"
        n += bool(compare(rec, e))
    if cases and (n != len(pool) or not pool):
        raise tlc.TLCError(f"binding self-test (replay): {n}/{len(pool)} perturbed expectations flagged")
    ctx.cov["selftest_corrupted_rejected"] = len(mut) + n


def replay(ctx, sc):
    logging.getLogger("ibllib").setLevel(logging.ERROR)
    if sc.get("kind") == "verylong":
        # the family is a function of the seed: the same records, judged the same way
        sd = sc.get("seed", ctx.seed)
        very_long(ctx, random.Random(sd + 99), np.random.default_rng(sd + 99))
        return
    r = sc["rec"]
    if sc.get("kind") == "reader":
        recs = reader_family(ctx, ctx.scratch / "rec", random.Random(ctx.seed), np.random.default_rng(ctx.seed))
        for x in recs:
            if not x.get("range_ok", True):
                ctx.violation("sat:RangeVolts", f"replay: range_volts {x['range_obs']} vs {x['range_exp']}", sc)
    else:
        a = r["abs"]
        if a.get("family") == "reader":
            recs = reader_family(ctx, ctx.scratch / "rec", random.Random(ctx.seed), np.random.default_rng(ctx.seed))
        else:
            recs = []
            for s in range(10):     # the realisation is random: a few of them, most with the argument forms of the scenario
                recs.append(record(a["co"], a["cs"], a["nc"], r["a"], r["b"], r["M"], random.Random(s), np.random.default_rng(s),
                                   a.get("reps", (1, 1)), want_at=bool(sum(r.get("ca", [0]))),
                                   modes=a.get("modes") if s < 8 and len(a.get("modes", [])) == len(a.get("reps", (1, 1))) else None))
    verd = tracecheck.validate(ctx, "trace/SaturationTrace.tla", "trace/SaturationTrace.cfg", recs, label="replay", jvms=1,
                               nstates=lambda t: 3)
    for v in verd:
        if v["prop"]:
            x = recs[v["index"]]
            w = which(x, v["prop"])
            ctx.violation(vkey(x, v["prop"]), f"replay ({w['mode']}): clause {v['prop']} false: flags {w['flags']} gain {w['q']} e-6", sc)
            break
