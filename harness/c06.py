"""C06 - chunked destripe-to-file writes every sample exactly once, for any worker count.

1. TLC: spec/sys/DestripeFile.tla - every interleaving of 1..N workers over boxes of (ns, NBATCH, nproc, pad,
   append offset): FinalFileCanonical, OnlyOwnerWrites, FinalLength, FinalRms, FinalPad, NoCrash.
2. spec -> code: TLC classifies real-magnitude tuples (T = 1024) by seam position / hazard; the harness runs the
   real decompress_destripe_cbin (pyfftw stand-in, loky workers) on tuples of every class.
3. code -> spec: the hook events of each run (per worker) go to spec/trace/DestripeFileTrace.tla, which explores
   ALL interleavings of the recorded writes and judges every terminal state with the property layer, together
   with the projections made on the real output (sync column bit-exact, length, rms rows, saturation entries,
   data within 1 LSB of batch-wise in-memory destriping).
4. byte identity across worker counts (same input, same options) - and across what else must not matter: the input as
   .bin or as .cbin (compressed in chunks much shorter than a batch), str / Path arguments, the default output name,
   a separate folder for the quality files, what an earlier run left under the names the call writes.
5. state and configuration dimensions rotated over the real runs (c06_run.py, `decorate`): leftovers {none, longer,
   same sizes, interrupted run, a really failed call}, append onto the output of ANOTHER recording (other length, batch
   size, worker count, padding) and chains of three runs, nc_out without the sync column, float32 output, an explicit
   trace header, other probe kinds, batch sizes that are odd / no multiple of 1024 (TLC's tuple export), whitening
   matrices as float32 / non-contiguous read-only views.  Everything is judged by the same clauses; a call that raises
   (in a worker, before or after the fan-out) is NoCrash false; bytes that are no whole rows are FinalFileCanonical false.
"""
import copy
import json
import os
import random
import shutil
import subprocess
import sys
import time
from concurrent.futures import ThreadPoolExecutor
from pathlib import Path

from vkit import tlc, tracecheck

VERIF = Path(__file__).resolve().parents[1]
ROW = 385 * 2          # default row size; rowbytes(sc) for runs with nc_out / dtype options
T = 1024
DUR = {"max": 0.0, "timeouts": 0}    # longest completed real run of this check (seconds), scenarios that did not come to an end
LIM = 10 ** 9          # integers handed to TLC stay below this (32-bit arithmetic: positions are added to row counts)


def ival(e, key, bad, idx=None):
    """integer field `key` (element idx of a list field) of a hook event. What is no integer (absent, None, a string, a fraction,
    NaN) is 0 and its name goes to `bad`; an integer beyond +-LIM is clamped and named in `bad` as well."""
    v = e.get(key) if isinstance(e, dict) else None
    if idx is not None:
        v = v[idx] if isinstance(v, (list, tuple)) and len(v) > idx else None
    if isinstance(v, bool) or not isinstance(v, (int, float)) or v != v or v in (float("inf"), float("-inf")) or int(v) != v:
        bad.append(key)
        return 0
    v = int(v)
    if abs(v) > LIM:
        bad.append(key)
        return LIM if v > 0 else -LIM
    return v


def run_real(ctx, sc, idx):
    d = Path(ctx.scratch) / f"run{idx}"
    (d / "tr").mkdir(parents=True, exist_ok=True)
    sc = dict(sc, dir=str(d))
    env = dict(os.environ)
    env.update({"IBL_NEUROPIXEL_VERIF": "1", "IBL_NEUROPIXEL_VERIF_TRACE": str(d / "tr"),
                "OMP_NUM_THREADS": "1", "OPENBLAS_NUM_THREADS": "1", "MKL_NUM_THREADS": "1",
                "PYTHONPATH": f"{os.environ.get('VERIF_REPO', '/repo')}/src:{VERIF}/harness:{VERIF}/vendor",
                "JOBLIB_TEMP_FOLDER": str(d)})
    # all calls of one scenario take seconds (a busy machine: a minute or two). Once a scenario did not come to an end, the others
    # are given six times the longest completed one (at least two minutes): a call that hangs hangs in every scenario
    limit = 600 if ctx.quick else 1500
    if DUR["timeouts"] and DUR["max"] > 0:
        limit = min(limit, max(120, int(6 * DUR["max"])))
    t0 = time.time()
    try:
        p = subprocess.run([sys.executable, str(VERIF / "harness" / "c06_run.py"), json.dumps(sc)], env=env,
                           capture_output=True, text=True, timeout=limit)
        DUR["max"] = max(DUR["max"], time.time() - t0)
    except subprocess.TimeoutExpired:
        DUR["timeouts"] += 1
        # the call(s) of this scenario did not come to an end (they take seconds): the events the workers recorded until then are
        # judged, the call counts as one that did not return normally (NoCrash)
        evs = []
        for f in sorted((d / "tr").glob("*.ndjson")):
            for line in f.read_text(errors="replace").splitlines():
                try:
                    e = json.loads(line)
                except ValueError:
                    e = None
                evs.append(e if isinstance(e, dict) else {"ev": "Unreadable", "raw": line[:80]})
        shutil.rmtree(d, ignore_errors=True)
        first = sc.get("prev") or sc
        return {"exc": "", "timeout": True,
                "runs": [{"exc": f"Timeout: the call did not return within {limit} s", "ns": first["ns"], "nbatch": first["nbatch"],
                          "nproc": first["nproc"], "ns2add": first.get("ns2add", 0), "events": evs, "size_rows": -1, "size_exact": True}]}
    shutil.rmtree(d, ignore_errors=True)
    line = [x for x in p.stdout.splitlines() if x.startswith("RESULT ")]
    marks = [x.split()[0] for x in p.stdout.splitlines() if x.startswith(("CALLING ", "RETURNED "))]
    if not line and marks.count("CALLING") > marks.count("RETURNED"):
        # the interpreter ended inside a call of decompress_destripe_cbin (os._exit, a fatal signal): the call did not return
        # normally (NoCrash); before the first call / after the last one it is a failure of c06_run itself
        first = sc.get("prev") or sc
        return {"exc": "", "died": True,
                "runs": [{"exc": f"Died: the interpreter ended inside the call (exit status {p.returncode})", "ns": first["ns"],
                          "nbatch": first["nbatch"], "nproc": first["nproc"], "ns2add": first.get("ns2add", 0), "events": [],
                          "size_rows": -1, "size_exact": True}]}
    if not line:
        raise tlc.TLCError(f"real run produced no result: {sc}\n{p.stdout[-1500:]}\n{p.stderr[-1500:]}")
    res = json.loads(line[-1][7:])
    if res["exc"]:
        raise tlc.TLCError(f"harness failure in c06_run: {res['exc']}")
    return res


def rowbytes(sc):
    return (sc.get("nc_out") or 385) * (4 if sc.get("odtype") == "float32" else 2)


def lastb_of(ns, nb):
    return 0 if ns <= nb else -(-(ns - nb) // (nb - 2 * T))


def to_trace(sc, res, k, notes=None):
    """hook events of run k of a scenario -> record for DestripeFileTrace (row units). The record is always one the trace
    specification consumes to its end (per worker: Start, writes, and a last write that is `done` or a Crash), so that the property
    layer is evaluated whatever the hooks recorded: a write whose fields are no integers is a write that cannot be placed
    (`ragged`: FinalFileCanonical), events out of order / repeated / unreadable are listed in `notes` (reported as drift)."""
    notes = [] if notes is None else notes
    runs = res["runs"]
    r = runs[k]
    ROW = rowbytes(sc)
    # parameters of this call (an append scenario may start with a call on another recording)
    ns, nb, npx, pad = r.get("ns", sc["ns"]), r.get("nbatch", sc["nbatch"]), r.get("nproc", sc["nproc"]), \
        r.get("ns2add", sc.get("ns2add", 0))
    off = sum(x.get("ns", sc["ns"]) + x.get("ns2add", sc.get("ns2add", 0)) for x in runs[:k])
    lastb = lastb_of(ns, nb)
    # rows of the previous (canonical) runs; only used to make row ids relative
    rms_off_rows = sum(lastb_of(x.get("ns", sc["ns"]), x.get("nbatch", sc["nbatch"])) + 1 for x in runs[:k])
    workers = [[] for _ in range(npx)]
    by_w = {}
    for e in r["events"]:
        bad = []
        w, seq = ival(e, "worker", bad), ival(e, "seq", bad)
        if bad or not isinstance(e.get("ev"), str) or not 0 <= w < npx:
            notes.append(f"run {k}: event without a worker (0..{npx - 1}) / sequence number / name: {str(e)[:100]}")
            continue
        by_w.setdefault(w, []).append((seq, len(by_w.get(w, [])), e))
    for w in range(npx):
        evs = []
        for e in [x[2] for x in sorted(by_w.get(w, []), key=lambda x: x[:2])]:
            if evs and e["ev"] == "WriteBatch" and {x: e[x] for x in e if x != "seq"} == {x: evs[-1][x] for x in evs[-1] if x != "seq"} \
                    and ival(e, "pos_after", []) != ival(e, "pos_before", []):
                # the very same write (same file positions before and after) recorded twice: one write
                notes.append(f"run {k} worker {w}: WriteBatch recorded twice")
                continue
            evs.append(e)
        out = workers[w]
        i = 0
        started = ended = False
        while i < len(evs):
            e = evs[i]
            bad = []
            if e["ev"] == "WorkerStart":
                seek = evs[i + 1] if i + 1 < len(evs) and evs[i + 1]["ev"] == "Seek" else None
                if started:
                    notes.append(f"run {k} worker {w}: WorkerStart recorded again")
                    i += 2 if seek else 1
                    continue
                writes = any(x["ev"] == "WriteBatch" for x in evs[i + 1:])
                if seek is None and writes:
                    notes.append(f"run {k} worker {w}: writes but no Seek recorded")
                nothing = seek is None and not r["exc"] and not writes
                pos = ival(seek, "pos", bad) // ROW if seek else min(off + (0 if w == 0 else ival(e, "first_s", bad) + T), LIM)
                out.append({"ev": "Start", "b": ival(e, "n_batch", bad), "maxs": ival(e, "max_s", bad), "pos": pos, "nothing": bool(nothing)})
                if bad:
                    notes.append(f"run {k} worker {w}: WorkerStart / Seek fields {bad} are no (32-bit) integers")
                started = True
                ended = nothing
                i += 2 if seek else 1
                continue
            if e["ev"] == "WriteBatch":
                if ended:
                    notes.append(f"run {k} worker {w}: WriteBatch recorded after the worker was done")
                    i += 1
                    continue
                pb, pa, rows = ival(e, "pos_before", bad), ival(e, "pos_after", bad), ival(e, "rows", bad)
                # ragged: the bytes written are not `rows` whole rows starting at a row boundary of the output
                ev = {"ev": "Write", "s0": ival(e, "first_s", bad), "s1": ival(e, "last_s", bad), "p0": pb // ROW,
                      "rows": rows, "i0": ival(e, "ind2save", bad, 0),
                      "rmsrow": ival(e, "rms_pos", bad) // (384 * 4) - 1 - rms_off_rows, "padrows": 0, "padpos": 0, "done": False,
                      "ragged": bool(pb % ROW or pa - pb != rows * ROW)}
                j = i + 1
                if j < len(evs) and evs[j]["ev"] == "Pad":
                    qb, qa, qrows = ival(evs[j], "pos_before", bad), ival(evs[j], "pos_after", bad), ival(evs[j], "rows", bad)
                    ev["padrows"] = qrows
                    ev["padpos"] = qb // ROW
                    if qb % ROW or qa - qb != qrows * ROW:
                        ev["ragged"] = True
                    j += 1
                if bad:         # a write that cannot be placed
                    ev["ragged"] = True
                    ev["rows"], ev["padrows"] = max(ev["rows"], 0), max(ev["padrows"], 0)
                    notes.append(f"run {k} worker {w}: WriteBatch / Pad fields {bad} are no (32-bit) integers")
                if j < len(evs) and evs[j]["ev"] == "WorkerDone":
                    ev["done"] = True
                    ended = True
                    j += 1
                if not started:
                    notes.append(f"run {k} worker {w}: WriteBatch recorded before any WorkerStart")
                    out.append({"ev": "Start", "b": ev["s0"] // max(nb - 2 * T, 1), "maxs": min(ns, LIM), "pos": ev["p0"], "nothing": False})
                    started = True
                out.append(ev)
                i = j
                continue
            if e["ev"] == "WorkerDone" and not ended and out and out[-1]["ev"] == "Write":
                # the end of the worker, not recorded right after its last write (another event in between)
                notes.append(f"run {k} worker {w}: WorkerDone recorded apart from the last write")
                out[-1]["done"] = True
                ended = True
            elif e["ev"] in ("Pad", "WorkerDone", "Seek"):
                notes.append(f"run {k} worker {w}: {e['ev']} recorded out of place")
            i += 1
        if not ended:
            out.append({"ev": "Crash"})
    ok = not any(x["exc"] for x in runs)
    nruns = len(runs)
    last = k == nruns - 1
    # observations made on the final files: attributed to every call of the scenario (to the last one only when the
    # calls are of different recordings: the saturation file then has the last recording's length)
    fin = ok and (last or not sc.get("prev"))
    lsb = -1
    if "max_lsb_diff" in res and last:          # the comparison is made on the block of the scenario's own (last) call
        d = res["max_lsb_diff"]
        lsb = LIM if not isinstance(d, (int, float)) or d != d or d > LIM else int(-(-(d - 1e-6) // 1))
    # few workers: all interleavings; many: worker orders in which every worker finishes last once (+ recorded order)
    nev = sum(len(w) for w in workers)
    if npx <= 4 and nev <= 14:
        orders = []
    else:
        base = list(range(npx))
        orders = [base[i + 1:] + base[:i + 1] for i in range(npx)] + [base[::-1]]
    # size of the real file after this call (a size that is no whole number of rows is no admissible length: 0)
    realsize = -1
    if not r["exc"] and r.get("size_rows", -1) >= 0:
        realsize = min(r["size_rows"], LIM) if r.get("size_exact", True) else 0
    if ok and last:
        realsize = min(res["rows"], LIM) if res.get("size_exact", True) else 0
    # one entry per batch in both quality files of the pair (rms, timestamps): report the one that deviates
    realrms = -1
    if ok and last:
        cands = [res["rms_rows"] - rms_off_rows, res.get("time_rows", res["rms_rows"]) - rms_off_rows]
        realrms = next((c for c in cands if c != lastb + 1), cands[0])
        realrms = max(realrms, 0)
    return {"ns": ns, "NB": nb, "np": npx, "pad": pad, "off": off, "workers": workers, "orders": orders,
            "raised": bool(r["exc"]),
            "realsize": realsize, "realrms": realrms,
            "syncbad": res.get("n_sync_bad", 0) if fin else 0,
            "satlen": res.get("sat_len", ns) if fin else ns,
            "padbad": res.get("pad_bad", 0) if fin else 0,
            "appendbad": res.get("append_bad", 0) if fin else 0,
            "lsb": max(lsb, 0)}


STALE = [False, "longer", "same", "ragged"]
OPTS = ("form", "paths", "outdef", "qcdir", "nc_out", "odtype", "hexp", "kind", "rkw", "prev", "nruns", "k_filter", "reject", "wrot", "fkw")


def decorate(ctx, s, j):
    """state and configuration dimensions that must not change any clause (see c06_run.py), rotated with the seed"""
    s["form"] = "cbin" if j % 3 == 1 else "bin"
    s["paths"] = "str" if j % 2 == 0 else "path"
    s["outdef"] = s["form"] == "cbin" and j % 6 == 4
    s["qcdir"] = j % 5 == 2
    s["stale"] = STALE[j % 4] if ctx.quick else (STALE + [False, "longer", "failed", "ragged"])[j % 8]
    if j % 9 == 4:
        s["kind"] = "NP2.4"
        s["rkw"] = {"sort": False}                  # reader_kwargs: a four-shank probe is stored in an order that is not the sorted one
    elif j % 9 == 8:
        s["kind"] = ["3A", "NP2.1"][(j // 9) % 2]
    elif j % 4 == 3:
        s["hexp"] = True                            # a trace header passed explicitly
    if j % 7 == 5:
        s["fkw"] = True                             # butter_kwargs / k_kwargs other than the defaults (the caller's dictionaries)
        s["k_filter"] = s["k_filter"] or (j // 7) % 2 == 0
    if s.get("kind") or s.get("hexp") or s.get("fkw"):
        s["compare"] = True                         # all of them are visible in the data columns only


def writers(s):
    """number of workers that write at least one batch (the others return at the guard): the row size of the output
    only enters the seek of a worker other than the first one"""
    ns, nb, npx = s["ns"], s["nbatch"], s["nproc"]
    ch, st = ns // npx, nb - 2 * T
    return sum(1 for w in range(npx) if w == 0 or not (-(-(w * ch) // nb) * st + 2 * T >= ns))


def row_formats(ctx, scs):
    """output rows without the sync column (nc_out=384) / of float32 samples, on runs with several writing workers"""
    cands = [s for s in scs if writers(s) >= 2 and not s.get("prev")] or scs
    step = len(cands) if ctx.quick else 7
    for k, s in enumerate(cands):
        if (k + ctx.seed) % step == 0:
            s["nc_out"] = 384                       # positions judged by the recorded writes and the comparison with
            s["compare"] = True                     # batch-wise destriping
        elif (k + ctx.seed) % step == (3 if not ctx.quick else len(cands) // 2):
            s["odtype"] = "float32"


def choose(ctx, tuples):
    """real runs: every (hazard class x seam class) of the TLC classification, options varied"""
    rnd = random.Random(ctx.seed)
    by = {}
    for t in tuples:
        by.setdefault((t["hazard"], tuple(sorted(t["seams"]))), []).append(t)
    scs = []
    classes = sorted(by)
    per = 1 if ctx.quick else 6
    for c in classes:
        ts = sorted(by[c], key=lambda t: (t["ns"], t["nb"], t["np"]))
        rnd.shuffle(ts)
        for t in ts[:per]:
            scs.append({"ns": t["ns"], "nbatch": t["nb"], "nproc": t["np"], "cls": f"{c[0]}/{'+'.join(c[1])}"})
    if ctx.quick:
        rnd.shuffle(scs)
        hz = [s for s in scs if not s["cls"].startswith("none")][:3]
        no = [s for s in scs if s["cls"].startswith("none")][:2]
        scs = hz + no
    # mutation-aware selection: tuples at which a plausible slip in the worker arithmetic (TLC: Sens) would break the property
    muts = sorted({m for t in tuples for m in t["sens"]})
    for im, m in enumerate(muts):
        ts = sorted([t for t in tuples if m in t["sens"] and t["np"] >= 2], key=lambda t: (len(t["sens"]), t["ns"], t["nb"], t["np"]))
        rnd.shuffle(ts)
        ts = sorted(ts, key=lambda t: len(t["sens"]))          # prefer tuples that single out this variant
        # batch sizes of both kinds: every second variant is run at an odd batch size / one that is no multiple of 1024
        if (im + ctx.seed) % 2 == 0:
            ts = sorted(ts, key=lambda t: t["nb"] % 1024 == 0)  # stable: keeps the preference order within each kind
        for t in ts[:1 if ctx.quick else 5]:
            scs.append({"ns": t["ns"], "nbatch": t["nb"], "nproc": t["np"], "cls": f"sens:{m}"})
    # options: most runs plain (car, no rejection: cheap), a few with each option
    for i, s in enumerate(scs):
        s.update({"seed": ctx.seed * 1000 + i, "reject": False, "k_filter": False, "ns2add": 0, "append": False,
                  "sat": [], "compare": i % 3 == 0, "wrot": None, "stale": i % 2 == 1})
        m = i % 8
        if m == 1:
            s["ns2add"] = 37
        elif m == 2:
            s["append"] = True
        elif m == 3:
            s["k_filter"] = True
            s["compare"] = True
        elif m == 4:
            # saturated stretches across a batch seam and at the very end
            S = s["nbatch"] - 2 * T
            s["sat"] = [[max(S + T - 5, 10), min(S + T + 6, s["ns"] - 1)], [s["ns"] - 9, s["ns"]]]
            s["compare"] = True
        elif m == 5:
            s["wrot"] = 0.5
            s["compare"] = True
        elif m == 6:
            s["ns2add"] = 5
            s["append"] = True
        elif m == 7:
            # a full, non-symmetric whitening matrix: float64 / float32 / a non-contiguous read-only view
            s["wrot"] = f"{['matrix', 'matrix32', 'matrixF'][(i // 8 + ctx.seed) % 3]}:{s['seed']}"
            s["compare"] = True
        decorate(ctx, s, i + ctx.seed)
        if m == 6 and (i // 8 + ctx.seed) % 2 == 0 or m == 2 and (i // 8 + ctx.seed) % 2 == 1:
            # chronic recordings: appended to the output of an earlier call on ANOTHER recording (other length, batch size,
            # worker count, padding), not to a copy of itself
            small = sorted([t for t in tuples if t["ns"] <= 8192 and (t["ns"], t["nb"]) != (s["ns"], s["nbatch"])],
                           key=lambda t: (t["ns"], t["nb"], t["np"]))
            t = small[(97 * i + 131 * ctx.seed) % len(small)]
            s["prev"] = {"ns": t["ns"], "nbatch": t["nb"], "nproc": t["np"], "ns2add": [3, 0][(i // 8) % 2],
                         "seed": s["seed"] + 333}
            s["compare"] = True
            s["outdef"] = False                     # the default output name belongs to the input: one name per recording
        elif m == 2 and not ctx.quick and ((i // 8 + ctx.seed) // 2) % 2 == 0:
            s["nruns"] = 3                          # a chain of three runs of the same recording
    row_formats(ctx, scs)
    # rejection needs >= 0.3 s of data: two dedicated runs
    extra = [{"ns": 9100, "nbatch": 4096, "nproc": 3, "reject": True, "k_filter": True, "compare": True, "fkw": True},
             {"ns": 10240, "nbatch": 5120, "nproc": 5, "reject": True, "k_filter": False, "compare": True}]
    if not ctx.quick:
        extra += [{"ns": 12000, "nbatch": 3072, "nproc": 8, "reject": True, "k_filter": True, "compare": True},
                  {"ns": 13000, "nbatch": 4096, "nproc": 2, "reject": True, "k_filter": True, "compare": False, "ns2add": 11}]
    for j, e in enumerate(extra[:1] if ctx.quick else extra):
        e = dict({"seed": ctx.seed * 1000 + 500 + j, "ns2add": 0, "append": False, "sat": [], "wrot": None,
                  "cls": "reject", "stale": STALE[(j + 1 + ctx.seed) % 4]}, **e)
        e.update(form=["bin", "cbin"][(j + ctx.seed) % 2], paths=["path", "str"][j % 2], qcdir=(j + ctx.seed) % 3 == 0)
        scs.append(e)
    # byte identity across worker counts: same input (seed), different nproc
    base = {"ns": 7000, "nbatch": 3072, "reject": False, "k_filter": False, "ns2add": 0, "append": False, "sat": [],
            "compare": False, "wrot": None, "seed": ctx.seed * 1000 + 900, "cls": "identity"}
    # ... and across everything else that must not matter: the form of the input, the argument types, where the output
    # and the quality files go, what an earlier run left there
    def member(b, npx, group):
        j = npx + ctx.seed
        form = ["bin", "cbin"][j % 2]
        return dict(b, nproc=npx, group=group, stale=STALE[j % 4], form=form, paths=["str", "path"][(j // 2) % 2],
                    outdef=form == "cbin" and j % 4 == 1, qcdir=j % 3 == 0)
    for npx in ([1, 2, 5] if ctx.quick else [1, 2, 3, 4, 5, 6, 7, 8]):
        scs.append(member(base, npx, "id7000"))
    if not ctx.quick:
        b2 = dict(base, ns=5000, nbatch=4096, seed=ctx.seed * 1000 + 901)
        for npx in [1, 2, 3, 4, 6, 8]:
            scs.append(member(b2, npx, "id5000"))
        # an odd batch size, k-filter, floating point output
        b3 = dict(base, ns=7001, nbatch=3073, k_filter=True, odtype="float32", seed=ctx.seed * 1000 + 902)
        for npx in [1, 3, 4, 7]:
            scs.append(member(b3, npx, "id7001"))
    return scs


def model(ctx):
    # vacuity control: a preparation step that does not truncate a longer leftover must be rejected by FinalLength
    r = tlc.run("mc/MC_DestripeFile.tla", "mc/DestripeFile_notrunc.cfg", workers=4, timeout=900)
    ctx.tlc(r, "what-if: leftover not truncated")
    if r.ok or r.invariant_violated != "FinalLength":
        raise tlc.TLCError("vacuity: the what-if variant 'notrunc' must violate FinalLength")
    # unbounded: the batch loop (every row once, in order, ns rows at the end) and the hand-over between two workers (no batch is
    # skipped) as inductive invariants for ALL lengths, batch sizes and tapers (Apalache)
    from vkit import apalache
    ob = [("Init", "IndInv", 0), ("IndInit", "IndInvAndSafety", 1)]
    done = [apalache.check("apalache/DestripeLoopInd.tla", i, v, n) for i, v, n in ob]
    if not all(done):
        raise tlc.TLCError(f"inductive invariant of spec/apalache/DestripeLoopInd.tla not established: {done}")
    ctx.cov["inductive_invariant"] = {"tool": "apalache-mc 0.58", "obligations": len(ob), "discharged": sum(done),
                                      "statement": "Init => IndInv; IndInv /\\ Next => IndInv' /\\ Canonical /\\ NoDoubleWrite /\\ Handover "
                                                   "for unbounded ns, NBATCH, taper (worker arithmetic with ns div nproc: bounded boxes only)"}
    runs = [("mc/DestripeFile_quick.cfg", 8)] if ctx.quick else \
           [("mc/DestripeFile_thorough.cfg", 16), ("mc/DestripeFile_mid.cfg", 16), ("mc/DestripeFile_wide.cfg", 16)]
    for cfg, wk in runs:
        r = tlc.run("mc/MC_DestripeFile.tla", cfg, workers=wk, timeout=3400, heap="12g", coverage=True)
        ctx.tlc(r, cfg)
        if r.ok:
            tlc.require_all_actions_taken(r)
        if not r.ok:
            raise tlc.TLCError(f"the model of the current tree violates {r.invariant_violated} ({cfg}); "
                               f"the implementation layer must be replayed on the code before this is a finding:\n"
                               + "\n".join(str({k: v for k, v in s.items() if not k.startswith('_text')})
                                           for s in r.error_trace[-3:]))


def judge(ctx, scs, results):
    traces, owner = [], []
    for i, (sc, res) in enumerate(zip(scs, results)):
        notes = []
        for k in range(len(res["runs"])):
            traces.append(to_trace(sc, res, k, notes))
            owner.append((i, k))
        if notes:
            # the hooks recorded something that is no run of my_function as spec/sys/DestripeFile.tla describes it; the record was
            # completed so that every clause is still evaluated on it and on the real files
            ctx.spec_drift(f"decompress_destripe_cbin(ns={sc['ns']} nbatch={sc['nbatch']} nproc={sc['nproc']}): recorded events are not "
                           f"those of the hooks' protocol ({len(notes)}): " + "; ".join(notes[:3]))
    verdicts = tracecheck.validate(ctx, "trace/DestripeFileTrace.tla", "trace/DestripeFileTrace.cfg", traces,
                                   label="destripe", jvms=4, workers=2, timeout=1200)
    for v in verdicts:
        i, k = owner[v["index"]]
        sc = scs[i]
        opts = {o: sc[o] for o in OPTS if sc.get(o)}
        desc = (f"ns={sc['ns']} nbatch={sc['nbatch']} nproc={sc['nproc']} ns2add={sc['ns2add']} append={sc['append']} "
                f"leftovers={sc.get('stale') or False} run={k}" + (f" {opts}" if opts else ""))
        if v["prop"]:
            exc = results[i]["runs"][k]["exc"] or (results[i].get("oracle_exc") if v["prop"].startswith("EqualsBatchwise") else "")
            ctx.violation("destripe:" + v["prop"].split("(")[0],
                          f"decompress_destripe_cbin({desc}): {v['prop']} false on a schedule of the recorded writes"
                          + (f" [{exc}]" if exc else ""), {"scenario": sc})
        elif v["impl"]:
            ctx.spec_drift(f"decompress_destripe_cbin({desc}): recorded step {v['impl']} is not a step of "
                           f"spec/sys/DestripeFile.tla")
    return traces


def run(ctx):
    ctx.level = "model_checking"
    model(ctx)
    # spec -> code: tuples classified by TLC
    out = Path(ctx.scratch) / "tuples.json"
    r = tlc.run("mc/MC_DestripeFile.tla", "mc/DestripeFile_export.cfg", workers=2, env={"OUT_FILE": str(out)})
    ctx.tlc(r, "export")
    if not r.ok:
        raise tlc.TLCError("tuple export failed:\n" + r.out[-2000:])
    tuples = json.loads(out.read_text())
    scs = choose(ctx, tuples)
    with ThreadPoolExecutor(max_workers=4 if ctx.quick else 5) as ex:
        results = list(ex.map(lambda a: run_real(ctx, a[1], a[0]), enumerate(scs)))
    for sc, res in zip(scs, results):
        ctx.count(1, key=(sc["ns"], sc["nbatch"], sc["nproc"], sc["ns2add"], sc["append"], sc["k_filter"], sc["reject"],
                          json.dumps({o: sc[o] for o in OPTS + ("stale",) if sc.get(o)}, sort_keys=True)))
    traces = judge(ctx, scs, results)
    # byte identity across worker counts
    groups = {}
    for sc, res in zip(scs, results):
        if sc.get("group") and "sha1" in res:
            groups.setdefault(sc["group"], []).append((sc["nproc"], res["sha1"]))
    for g, lst in groups.items():
        if len({h for _, h in lst}) > 1:
            ctx.violation("destripe:WorkerCountInvariant", f"output bytes differ between worker counts {lst}",
                          {"scenario": [s for s in scs if s.get("group") == g]})
    ctx.cov["identity_groups"] = {g: len(v) for g, v in groups.items()}
    ctx.cov["numeric_postconditions"] = {
        "EqualsBatchwise(max LSB)": max([r.get("max_lsb_diff", 0) for r in results] or [0]),
        "runs_compared": sum(1 for r in results if "max_lsb_diff" in r)}
    for sc, res in list(zip(scs, results))[:3]:
        ctx.sample({"scenario": {k: v for k, v in sc.items() if k != "dir"},
                    "writes": [[ival(e, "worker", []), ival(e, "first_s", []), ival(e, "last_s", []), ival(e, "pos_before", []) // rowbytes(sc),
                                ival(e, "rows", [])] for e in res["runs"][0]["events"] if e.get("ev") == "WriteBatch"],
                    "rows": res.get("rows"), "rms_rows": res.get("rms_rows")})
    selftest(ctx, traces)
    ctx.cov["rule"] = ("model: every interleaving for every (ns, NBATCH, nproc, pad, offset) of the box; real runs: one per "
                       "(hazard x seam) class of TLC's classification of real-magnitude tuples + option variants; each run's "
                       "recorded writes are explored under all interleavings; distinct = distinct (ns,nbatch,nproc,options)")
    ctx.assumptions += ["pyfftw replaced by /verif/vendor/pyfftw (scipy.fft, single precision arrays)",
                        "SAMPLES_TAPER is the constant 1024 of the code; the exhaustive model uses T = 2 (scale-free structure)",
                        "rows written by the same batch are identical whichever worker computes them (deterministic batch function)"]


def selftest(ctx, traces):
    """corrupt accepted traces: shift one write by a row, drop a write, relabel a write's batch -> must be flagged"""
    good = [t for t in traces if sum(len(w) for w in t["workers"]) >= 4 and not t["raised"]
            and any(e["ev"] == "Write" for w in t["workers"] for e in w)][:6]
    if len(good) < 2:
        raise tlc.TLCError("selftest: no multi-write traces")
    mut = []
    for j, t in enumerate(good):
        t = copy.deepcopy(t)
        ws = [w for w in t["workers"] if any(e["ev"] == "Write" for e in w)]
        w = ws[-1]
        k = max(i for i, e in enumerate(w) if e["ev"] == "Write")
        if j % 3 == 0:
            w[k]["p0"] += 1
        elif j % 3 == 1:
            if w[k]["done"] and k > 0 and w[k - 1]["ev"] == "Write":
                w[k - 1]["done"] = True
            del w[k]
            if not any(e.get("done") or e.get("nothing") for e in w):
                w.append({"ev": "Crash"})
        else:
            w[k]["s0"] += t["NB"] - 2 * T
        mut.append(t)
    keep = ctx.cov["traces_validated_against_impl"]
    v = tracecheck.validate(ctx, "trace/DestripeFileTrace.tla", "trace/DestripeFileTrace.cfg", mut, label="selftest", jvms=1)
    ctx.cov["traces_validated_against_impl"] = keep
    flagged = {x["index"] for x in v if x["prop"]}
    if len(flagged) != len(mut):
        raise tlc.TLCError(f"binding self-test: only {len(flagged)}/{len(mut)} corrupted traces were rejected")
    ctx.cov["selftest_corrupted_traces_rejected"] = len(flagged)


def replay(ctx, sc):
    scs = sc["scenario"] if isinstance(sc.get("scenario"), list) else [sc.get("scenario", sc)]
    results = [run_real(ctx, s, i) for i, s in enumerate(scs)]
    judge(ctx, scs, results)
    hs = {r.get("sha1") for r in results}
    if len(scs) > 1 and len(hs) > 1:
        ctx.violation("destripe:WorkerCountInvariant", "output bytes differ between worker counts", {"scenario": scs})
