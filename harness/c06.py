"""C06 - chunked destripe-to-file writes every sample exactly once, for any worker count.

1. TLC: spec/sys/DestripeFile.tla - every interleaving of 1..N workers over boxes of (ns, NBATCH, nproc, pad,
   append offset): FinalFileCanonical, OnlyOwnerWrites, FinalLength, FinalRms, FinalPad, NoCrash.
2. spec -> code: TLC classifies real-magnitude tuples (T = 1024) by seam position / hazard; the harness runs the
   real decompress_destripe_cbin (pyfftw stand-in, loky workers) on tuples of every class.
3. code -> spec: the hook events of each run (per worker) go to spec/trace/DestripeFileTrace.tla, which explores
   ALL interleavings of the recorded writes and judges every terminal state with the property layer, together
   with the projections made on the real output (sync column bit-exact, length, rms rows, saturation entries,
   data within 1 LSB of batch-wise in-memory destriping).
4. byte identity across worker counts (same input, same options).
"""
import copy
import json
import os
import random
import shutil
import subprocess
import sys
from concurrent.futures import ThreadPoolExecutor
from pathlib import Path

from vkit import tlc, tracecheck

VERIF = Path(__file__).resolve().parents[1]
ROW = 385 * 2
T = 1024


def run_real(ctx, sc, idx):
    d = Path(ctx.scratch) / f"run{idx}"
    (d / "tr").mkdir(parents=True, exist_ok=True)
    sc = dict(sc, dir=str(d))
    env = dict(os.environ)
    env.update({"IBL_NEUROPIXEL_VERIF": "1", "IBL_NEUROPIXEL_VERIF_TRACE": str(d / "tr"),
                "OMP_NUM_THREADS": "1", "OPENBLAS_NUM_THREADS": "1", "MKL_NUM_THREADS": "1",
                "PYTHONPATH": f"{os.environ.get('VERIF_REPO', '/repo')}/src:{VERIF}/harness:{VERIF}/vendor",
                "JOBLIB_TEMP_FOLDER": str(d)})
    try:
        p = subprocess.run([sys.executable, str(VERIF / "harness" / "c06_run.py"), json.dumps(sc)], env=env,
                           capture_output=True, text=True, timeout=1500)
    except subprocess.TimeoutExpired:
        shutil.rmtree(d, ignore_errors=True)
        raise tlc.TLCError(f"real run timed out: {sc}")
    shutil.rmtree(d, ignore_errors=True)
    line = [x for x in p.stdout.splitlines() if x.startswith("RESULT ")]
    if not line:
        raise tlc.TLCError(f"real run produced no result: {sc}\n{p.stdout[-1500:]}\n{p.stderr[-1500:]}")
    res = json.loads(line[-1][7:])
    if res["exc"]:
        raise tlc.TLCError(f"harness failure in c06_run: {res['exc']}")
    return res


def to_trace(sc, res, k):
    """hook events of run k of a scenario -> record for DestripeFileTrace (row units)"""
    r = res["runs"][k]
    ns, pad = sc["ns"], sc.get("ns2add", 0)
    off = k * (ns + pad)
    nb = sc["nbatch"]
    lastb = 0 if ns <= nb else -(-(ns - nb) // (nb - 2 * T))
    rms_off_rows = k * (lastb + 1)     # rows of the previous (canonical) run; only used to make row ids relative
    workers = [[] for _ in range(sc["nproc"])]
    by_w = {}
    for e in r["events"]:
        by_w.setdefault(e["worker"], []).append(e)
    for w in range(sc["nproc"]):
        evs = sorted(by_w.get(w, []), key=lambda e: e["seq"])
        out = workers[w]
        i = 0
        ended = False
        while i < len(evs):
            e = evs[i]
            if e["ev"] == "WorkerStart":
                seek = evs[i + 1] if i + 1 < len(evs) and evs[i + 1]["ev"] == "Seek" else None
                nothing = seek is None and not r["exc"]
                pos = seek["pos"] // ROW if seek else off + (0 if w == 0 else e["first_s"] + T)
                out.append({"ev": "Start", "b": e["n_batch"], "maxs": e["max_s"], "pos": pos, "nothing": bool(nothing)})
                ended = nothing
                i += 2 if seek else 1
                continue
            if e["ev"] == "WriteBatch":
                ev = {"ev": "Write", "s0": e["first_s"], "s1": e["last_s"], "p0": e["pos_before"] // ROW,
                      "rows": e["rows"], "i0": e["ind2save"][0],
                      "rmsrow": e["rms_pos"] // (384 * 4) - 1 - rms_off_rows, "padrows": 0, "padpos": 0, "done": False}
                j = i + 1
                if j < len(evs) and evs[j]["ev"] == "Pad":
                    ev["padrows"] = evs[j]["rows"]
                    ev["padpos"] = evs[j]["pos_before"] // ROW
                    j += 1
                if j < len(evs) and evs[j]["ev"] == "WorkerDone":
                    ev["done"] = True
                    ended = True
                    j += 1
                out.append(ev)
                i = j
                continue
            i += 1
        if not ended:
            out.append({"ev": "Crash"})
    lsb = -1
    if "max_lsb_diff" in res and k == 0:
        lsb = int(-(-(res["max_lsb_diff"] - 1e-6) // 1))
    ok = not any(x["exc"] for x in res["runs"])
    nruns = len(res["runs"])
    # few workers: all interleavings; many: worker orders in which every worker finishes last once (+ recorded order)
    nev = sum(len(w) for w in workers)
    npx = sc["nproc"]
    if npx <= 4 and nev <= 14:
        orders = []
    else:
        base = list(range(npx))
        orders = [base[i + 1:] + base[:i + 1] for i in range(npx)] + [base[::-1]]
    return {"ns": ns, "NB": nb, "np": sc["nproc"], "pad": pad, "off": off, "workers": workers, "orders": orders,
            "realsize": (res["rows"] if k == nruns - 1 else -1) if ok else -1,
            "realrms": (res["rms_rows"] - rms_off_rows if k == nruns - 1 else -1) if ok else -1,
            "syncbad": res.get("n_sync_bad", 0) if ok else 0, "satlen": res.get("sat_len", ns) if ok else ns,
            "padbad": res.get("pad_bad", 0) if ok else 0, "appendbad": res.get("append_bad", 0) if ok else 0,
            "lsb": max(lsb, 0)}


def choose(ctx, tuples):
    """real runs: every (hazard class x seam class) of the TLC classification, options varied"""
    rnd = random.Random(ctx.seed)
    by = {}
    for t in tuples:
        by.setdefault((t["hazard"], tuple(sorted(t["seams"]))), []).append(t)
    scs = []
    classes = sorted(by)
    per = 1 if ctx.quick else 6
    for c in classes:
        ts = sorted(by[c], key=lambda t: (t["ns"], t["nb"], t["np"]))
        rnd.shuffle(ts)
        for t in ts[:per]:
            scs.append({"ns": t["ns"], "nbatch": t["nb"], "nproc": t["np"], "cls": f"{c[0]}/{'+'.join(c[1])}"})
    if ctx.quick:
        rnd.shuffle(scs)
        hz = [s for s in scs if not s["cls"].startswith("none")][:3]
        no = [s for s in scs if s["cls"].startswith("none")][:2]
        scs = hz + no
    # mutation-aware selection: tuples at which a plausible slip in the worker arithmetic (TLC: Sens) would break the property
    muts = sorted({m for t in tuples for m in t["sens"]})
    for m in muts:
        ts = sorted([t for t in tuples if m in t["sens"] and t["np"] >= 2], key=lambda t: (len(t["sens"]), t["ns"], t["nb"], t["np"]))
        rnd.shuffle(ts)
        ts = sorted(ts, key=lambda t: len(t["sens"]))          # prefer tuples that single out this variant
        for t in ts[:1 if ctx.quick else 5]:
            scs.append({"ns": t["ns"], "nbatch": t["nb"], "nproc": t["np"], "cls": f"sens:{m}"})
    # options: most runs plain (car, no rejection: cheap), a few with each option
    for i, s in enumerate(scs):
        s.update({"seed": ctx.seed * 1000 + i, "reject": False, "k_filter": False, "ns2add": 0, "append": False,
                  "sat": [], "compare": i % 3 == 0, "wrot": None, "stale": i % 2 == 1})
        m = i % 8
        if m == 1:
            s["ns2add"] = 37
        elif m == 2:
            s["append"] = True
        elif m == 3:
            s["k_filter"] = True
            s["compare"] = True
        elif m == 4:
            # saturated stretches across a batch seam and at the very end
            S = s["nbatch"] - 2 * T
            s["sat"] = [[max(S + T - 5, 10), min(S + T + 6, s["ns"] - 1)], [s["ns"] - 9, s["ns"]]]
            s["compare"] = True
        elif m == 5:
            s["wrot"] = 0.5
            s["compare"] = True
        elif m == 6:
            s["ns2add"] = 5
            s["append"] = True
        elif m == 7:
            s["wrot"] = f"matrix:{s['seed']}"       # a full, non-symmetric whitening matrix
            s["compare"] = True
    # rejection needs >= 0.3 s of data: two dedicated runs
    extra = [{"ns": 9100, "nbatch": 4096, "nproc": 3, "reject": True, "k_filter": True, "compare": True},
             {"ns": 10240, "nbatch": 5120, "nproc": 5, "reject": True, "k_filter": False, "compare": True}]
    if not ctx.quick:
        extra += [{"ns": 12000, "nbatch": 3072, "nproc": 8, "reject": True, "k_filter": True, "compare": True},
                  {"ns": 13000, "nbatch": 4096, "nproc": 2, "reject": True, "k_filter": True, "compare": False, "ns2add": 11}]
    for j, e in enumerate(extra[:1] if ctx.quick else extra):
        e = dict({"seed": ctx.seed * 1000 + 500 + j, "ns2add": 0, "append": False, "sat": [], "wrot": None,
                  "cls": "reject", "stale": j % 2 == 0}, **e)
        scs.append(e)
    # byte identity across worker counts: same input (seed), different nproc
    base = {"ns": 7000, "nbatch": 3072, "reject": False, "k_filter": False, "ns2add": 0, "append": False, "sat": [],
            "compare": False, "wrot": None, "seed": ctx.seed * 1000 + 900, "cls": "identity"}
    for npx in ([1, 2, 5] if ctx.quick else [1, 2, 3, 4, 5, 6, 7, 8]):
        scs.append(dict(base, nproc=npx, group="id7000", stale=npx % 2 == 0))
    if not ctx.quick:
        b2 = dict(base, ns=5000, nbatch=4096, seed=ctx.seed * 1000 + 901)
        for npx in [1, 2, 3, 4, 6, 8]:
            scs.append(dict(b2, nproc=npx, group="id5000"))
    return scs


def model(ctx):
    # vacuity control: a preparation step that does not truncate a longer leftover must be rejected by FinalLength
    r = tlc.run("mc/MC_DestripeFile.tla", "mc/DestripeFile_notrunc.cfg", workers=4, timeout=900)
    ctx.tlc(r, "what-if: leftover not truncated")
    if r.ok or r.invariant_violated != "FinalLength":
        raise tlc.TLCError("vacuity: the what-if variant 'notrunc' must violate FinalLength")
    runs = [("mc/DestripeFile_quick.cfg", 8)] if ctx.quick else \
           [("mc/DestripeFile_thorough.cfg", 16), ("mc/DestripeFile_mid.cfg", 16), ("mc/DestripeFile_wide.cfg", 16)]
    for cfg, wk in runs:
        r = tlc.run("mc/MC_DestripeFile.tla", cfg, workers=wk, timeout=3400, heap="12g", coverage=True)
        ctx.tlc(r, cfg)
        if r.ok:
            tlc.require_all_actions_taken(r)
        if not r.ok:
            raise tlc.TLCError(f"the model of the current tree violates {r.invariant_violated} ({cfg}); "
                               f"the implementation layer must be replayed on the code before this is a finding:\n"
                               + "\n".join(str({k: v for k, v in s.items() if not k.startswith('_text')})
                                           for s in r.error_trace[-3:]))


def judge(ctx, scs, results):
    traces, owner = [], []
    for i, (sc, res) in enumerate(zip(scs, results)):
        for k in range(len(res["runs"])):
            traces.append(to_trace(sc, res, k))
            owner.append((i, k))
    verdicts = tracecheck.validate(ctx, "trace/DestripeFileTrace.tla", "trace/DestripeFileTrace.cfg", traces,
                                   label="destripe", jvms=4, workers=2, timeout=1200)
    for v in verdicts:
        i, k = owner[v["index"]]
        sc = scs[i]
        desc = (f"ns={sc['ns']} nbatch={sc['nbatch']} nproc={sc['nproc']} ns2add={sc['ns2add']} append={sc['append']} "
                f"leftovers={bool(sc.get('stale'))} run={k}")
        if v["prop"]:
            exc = results[i]["runs"][k]["exc"]
            ctx.violation("destripe:" + v["prop"].split("(")[0],
                          f"decompress_destripe_cbin({desc}): {v['prop']} false on a schedule of the recorded writes"
                          + (f" [{exc}]" if exc else ""), {"scenario": sc})
        elif v["impl"]:
            ctx.spec_drift(f"decompress_destripe_cbin({desc}): recorded step {v['impl']} is not a step of "
                           f"spec/sys/DestripeFile.tla")
    return traces


def run(ctx):
    ctx.level = "model_checking"
    model(ctx)
    # spec -> code: tuples classified by TLC
    out = Path(ctx.scratch) / "tuples.json"
    r = tlc.run("mc/MC_DestripeFile.tla", "mc/DestripeFile_export.cfg", workers=2, env={"OUT_FILE": str(out)})
    ctx.tlc(r, "export")
    if not r.ok:
        raise tlc.TLCError("tuple export failed:\n" + r.out[-2000:])
    tuples = json.loads(out.read_text())
    scs = choose(ctx, tuples)
    with ThreadPoolExecutor(max_workers=4 if ctx.quick else 5) as ex:
        results = list(ex.map(lambda a: run_real(ctx, a[1], a[0]), enumerate(scs)))
    for sc, res in zip(scs, results):
        ctx.count(1, key=(sc["ns"], sc["nbatch"], sc["nproc"], sc["ns2add"], sc["append"], sc["k_filter"], sc["reject"]))
    traces = judge(ctx, scs, results)
    # byte identity across worker counts
    groups = {}
    for sc, res in zip(scs, results):
        if sc.get("group") and "sha1" in res:
            groups.setdefault(sc["group"], []).append((sc["nproc"], res["sha1"]))
    for g, lst in groups.items():
        if len({h for _, h in lst}) > 1:
            ctx.violation("destripe:WorkerCountInvariant", f"output bytes differ between worker counts {lst}",
                          {"scenario": [s for s in scs if s.get("group") == g]})
    ctx.cov["identity_groups"] = {g: len(v) for g, v in groups.items()}
    ctx.cov["numeric_postconditions"] = {
        "EqualsBatchwise(max LSB)": max([r.get("max_lsb_diff", 0) for r in results] or [0]),
        "runs_compared": sum(1 for r in results if "max_lsb_diff" in r)}
    for sc, res in list(zip(scs, results))[:3]:
        ctx.sample({"scenario": {k: v for k, v in sc.items() if k != "dir"},
                    "writes": [[e["worker"], e["first_s"], e["last_s"], e["pos_before"] // ROW, e["rows"]]
                               for e in res["runs"][0]["events"] if e["ev"] == "WriteBatch"],
                    "rows": res.get("rows"), "rms_rows": res.get("rms_rows")})
    selftest(ctx, traces)
    ctx.cov["rule"] = ("model: every interleaving for every (ns, NBATCH, nproc, pad, offset) of the box; real runs: one per "
                       "(hazard x seam) class of TLC's classification of real-magnitude tuples + option variants; each run's "
                       "recorded writes are explored under all interleavings; distinct = distinct (ns,nbatch,nproc,options)")
    ctx.assumptions += ["pyfftw replaced by /verif/vendor/pyfftw (scipy.fft, single precision arrays)",
                        "SAMPLES_TAPER is the constant 1024 of the code; the exhaustive model uses T = 2 (scale-free structure)",
                        "rows written by the same batch are identical whichever worker computes them (deterministic batch function)"]


def selftest(ctx, traces):
    """corrupt accepted traces: shift one write by a row, drop a write, relabel a write's batch -> must be flagged"""
    good = [t for t in traces if sum(len(w) for w in t["workers"]) >= 4][:6]
    if len(good) < 2:
        raise tlc.TLCError("selftest: no multi-write traces")
    mut = []
    for j, t in enumerate(good):
        t = copy.deepcopy(t)
        ws = [w for w in t["workers"] if any(e["ev"] == "Write" for e in w)]
        w = ws[-1]
        k = max(i for i, e in enumerate(w) if e["ev"] == "Write")
        if j % 3 == 0:
            w[k]["p0"] += 1
        elif j % 3 == 1:
            if w[k]["done"] and k > 0 and w[k - 1]["ev"] == "Write":
                w[k - 1]["done"] = True
            del w[k]
            if not any(e.get("done") or e.get("nothing") for e in w):
                w.append({"ev": "Crash"})
        else:
            w[k]["s0"] += t["NB"] - 2 * T
        mut.append(t)
    keep = ctx.cov["traces_validated_against_impl"]
    v = tracecheck.validate(ctx, "trace/DestripeFileTrace.tla", "trace/DestripeFileTrace.cfg", mut, label="selftest", jvms=1)
    ctx.cov["traces_validated_against_impl"] = keep
    flagged = {x["index"] for x in v if x["prop"]}
    if len(flagged) != len(mut):
        raise tlc.TLCError(f"binding self-test: only {len(flagged)}/{len(mut)} corrupted traces were rejected")
    ctx.cov["selftest_corrupted_traces_rejected"] = len(flagged)


def replay(ctx, sc):
    scs = sc["scenario"] if isinstance(sc.get("scenario"), list) else [sc.get("scenario", sc)]
    results = [run_real(ctx, s, i) for i, s in enumerate(scs)]
    judge(ctx, scs, results)
    hs = {r.get("sha1") for r in results}
    if len(scs) > 1 and len(hs) > 1:
        ctx.violation("destripe:WorkerCountInvariant", "output bytes differ between worker counts", {"scenario": scs})
