"""./check <ID> [--tier quick|thorough] [--seed N] [--replay PATH]

Loads harness/<id>.py, gives it a context, turns what it reports into the interface of the task:
evidence file, VIOLATION / KNOWN-FINDING lines, exit status 0 / 1 (/ 2 for machinery failure).
"""
import argparse
import importlib
import json
import os
import shutil
import sys
import tempfile
import time
import traceback
from pathlib import Path

VERIF = Path(__file__).resolve().parents[1]
sys.path.insert(0, str(VERIF / "harness"))

from vkit import findings  # noqa: E402
from vkit.tlc import TLCError  # noqa: E402

LEVELS = {"exploration", "fault_enumeration", "model_checking", "proof", "translation_validation", "other"}


class Ctx:
    def __init__(self, pid, tier, seed, replay=None):
        self.pid = pid
        self.tier = tier
        self.seed = seed
        self.replay = replay
        self.scratch = Path(tempfile.mkdtemp(prefix=f"verif_{pid}_"))
        self.t0 = time.time()
        self.violations = []
        self.known_hits = {}
        self.drift = []
        self.observations = []
        self.level = "model_checking"
        self.cov = {"states": 0, "transitions": 0, "traces_validated_against_impl": 0, "samples": [],
                    "evaluations": 0, "distinct_nontrivial": 0, "rule": "", "tlc_runs": []}
        self.assumptions = []
        self.known = findings.load(pid)
        self._distinct = set()

    # ---- bookkeeping -------------------------------------------------------------------
    @property
    def quick(self):
        return self.tier == "quick"

    def tlc(self, res, label):
        """account a TLC run in the evidence"""
        self.cov["states"] += res.distinct
        self.cov["transitions"] += res.generated
        self.cov["tlc_runs"].append({"model": label, "generated": res.generated, "distinct": res.distinct,
                                     "depth": res.depth, "wall_s": round(res.wall, 2)})

    def count(self, n=1, key=None):
        """one real-code evaluation; `key` identifies a distinct non-trivial case"""
        self.cov["evaluations"] += n
        if key is not None:
            self._distinct.add(key)

    def sample(self, s, cap=6):
        if len(self.cov["samples"]) < cap:
            self.cov["samples"].append(s)

    def traces(self, n):
        self.cov["traces_validated_against_impl"] += n

    def log(self, *a):
        print(*a, flush=True)

    # ---- verdicts ----------------------------------------------------------------------
    def violation(self, key, what, scenario):
        """`key` is the scenario-class key (see KNOWN_FINDINGS.txt), `what` a one-line
        description naming the failing clause, `scenario` a JSON-able record sufficient to
        re-run the case."""
        k = findings.match(self.known, key)
        if k is not None:
            hit = self.known_hits.setdefault(k["key"], {"finding": k, "n": 0, "first": what})
            hit["n"] += 1
            return
        if len(self.violations) < 50:
            self.violations.append({"key": key, "what": what, "scenario": scenario})
        else:
            self.violations.append(None)

    def observe(self, what):
        """behaviour outside the given properties that the growing specification covers: reported, never failed"""
        self.observations.append(what)
        print(f"OBSERVATION property={self.pid} {what}", flush=True)

    def spec_drift(self, what):
        self.drift.append(what)
        print(f"SPEC-DRIFT property={self.pid} {what}", flush=True)


def main():
    ap = argparse.ArgumentParser()
    ap.add_argument("pid")
    ap.add_argument("--tier", default=os.environ.get("VERIF_TIER", "quick"), choices=["quick", "thorough"])
    ap.add_argument("--seed", type=int, default=int(os.environ.get("VERIF_SEED", "0") or 0))
    ap.add_argument("--replay", default=None)
    a = ap.parse_args()
    pid = a.pid.upper()
    ctx = Ctx(pid, a.tier, a.seed, a.replay)
    evfile = VERIF / "evidence" / f"{pid}.json"
    if os.environ.get("VERIF_REPO", "/repo") != "/repo":
        # development runs against a scratch worktree (seeded changes) never touch the committed evidence
        (VERIF / ".scratch" / "evidence_dev").mkdir(parents=True, exist_ok=True)
        evfile = VERIF / ".scratch" / "evidence_dev" / f"{pid}.json"
    rc = 0
    try:
        # the library is also pip-installed (editable) from /repo/src: make sure the tree under test is the one that gets imported
        want = str((Path(os.environ.get("VERIF_REPO", "/repo")) / "src").resolve())
        for name in ("spikeglx", "neuropixel", "ibldsp"):
            m = importlib.import_module(name)
            if not str(Path(m.__file__).resolve()).startswith(want + os.sep):
                raise TLCError(f"module {name} was imported from {m.__file__}, not from the tree under test {want}")
        mod = importlib.import_module(pid.lower())
        if a.replay:
            sc = json.loads(Path(a.replay).read_text())
            mod.replay(ctx, sc.get("scenario", sc))
        else:
            mod.run(ctx)
            if ctx.quick and ctx.drift and not ctx.violations and os.environ.get("VERIF_NO_ESCALATION") != "1":
                # DESIGN 2.4: the implementation layer no longer describes this code, so the exhaustive model result does
                # not transfer to it: fall back to the deepest exploration of the real code that exists for this property
                print(f"SPEC-DRIFT property={pid} escalating to the thorough tier ({len(ctx.drift)} drifting step(s))", flush=True)
                deep = Ctx(pid, "thorough", a.seed)
                try:
                    mod.run(deep)
                finally:
                    shutil.rmtree(deep.scratch, ignore_errors=True)
                ctx.violations += deep.violations
                for k, h in deep.known_hits.items():
                    ctx.known_hits.setdefault(k, h)
                ctx.cov["escalated_to_thorough"] = {k: deep.cov[k] for k in ("states", "evaluations", "traces_validated_against_impl")}
                ctx._distinct |= deep._distinct
                for k in ("states", "transitions", "evaluations", "traces_validated_against_impl"):
                    ctx.cov[k] += deep.cov[k]
    except TLCError as e:
        print(f"MACHINERY-FAILURE property={pid} {e}", flush=True)
        rc = 2
    except Exception:
        traceback.print_exc()
        print(f"MACHINERY-FAILURE property={pid} unexpected exception in the harness", flush=True)
        rc = 2
    except SystemExit as e:
        # library code that ends the interpreter must not end the check with its own exit code and without a word
        print(f"MACHINERY-FAILURE property={pid} SystemExit({e.code}) escaped from the code under test / the harness", flush=True)
        rc = 2
    finally:
        shutil.rmtree(ctx.scratch, ignore_errors=True)

    for key, hit in sorted(ctx.known_hits.items()):
        print(f"KNOWN-FINDING: property={pid} key={key} {hit['finding']['text']} "
              f"[{hit['n']} case(s) this run; first: {hit['first']}]", flush=True)
    nviol = len(ctx.violations)
    if nviol and rc in (0, 2):
        # a property-layer violation observed on the real code stands even if a later stage of the machinery failed
        # (e.g. a self-test that needs accepted traces and finds none)
        rc = 1
        (VERIF / "replays").mkdir(exist_ok=True)
        for i, v in enumerate([v for v in ctx.violations if v][:10]):
            path = VERIF / "replays" / f"{pid}_{i}.json"
            path.write_text(json.dumps(v, indent=1, default=str))
            print(f"VIOLATION property={pid} replay={path} :: {v['key']} :: {v['what']}", flush=True)
        if nviol > 10:
            print(f"... {nviol - 10} further violating cases not listed", flush=True)

    if not a.replay:
        cov = dict(ctx.cov)
        cov["distinct_nontrivial"] = max(cov["distinct_nontrivial"], len(ctx._distinct))
        cov["known_findings_hit"] = {k: h["n"] for k, h in ctx.known_hits.items()}
        cov["spec_drift"] = ctx.drift
        cov["observations_outside_the_properties"] = ctx.observations
        ev = {"property_id": pid, "tier": a.tier, "seed": a.seed, "level": ctx.level, "coverage": cov,
              "assumptions": ctx.assumptions, "wall_s": round(time.time() - ctx.t0, 2), "violations": nviol,
              "status": {0: "held", 1: "violation", 2: "machinery-failure"}[rc]}
        evfile.parent.mkdir(exist_ok=True)
        evfile.write_text(json.dumps(ev, indent=1, default=str))
    print(f"[{pid}] tier={a.tier} seed={a.seed} rc={rc} wall={time.time() - ctx.t0:.1f}s "
          f"states={ctx.cov['states']} evals={ctx.cov['evaluations']} traces={ctx.cov['traces_validated_against_impl']}",
          flush=True)
    sys.exit(rc)


if __name__ == "__main__":
    main()
