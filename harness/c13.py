"""C13 - extracted waveforms equal the source data and the saved files agree row by row.

1. TLC: spec/sys/WaveformExtract.tla - every spike train of a box (times at both file edges, on chunk boundaries,
   duplicates across units) x max_wf x chunk size x every admissible per-unit selection x every interleaving of the
   chunk jobs: per-unit quota, row order, every row written exactly once with the window of its own spike.
2. code -> spec: real extract_wfs_cbin calls (loky workers, hook in write_wfs_chunk) on recordings whose every sample
   is distinguishable; the table the code chose, the recorded chunk jobs and projections of the saved files (each
   traces row vs the source window on the neighbour channels, channel map, templates, loader) are validated by
   spec/trace/WaveformTrace.tla.
3. the same input extracted with different chunk sizes / worker counts must give identical files.
4. the state a call can find: output folders that already hold the four files of an earlier extraction (larger, legacy
   4-D, shorter, cut off), argument arrays reused by later calls / read-only / strided, unit ids that are negative, large
   or in no order, units without any extractable spike, max_wf beyond every unit (and the defaults of every keyword).
5. direct extract_wfs_array calls (the gather itself): other trough offsets / lengths / neighbourhood radii, with and
   without the NaN row, other array types; the loader with every option of load_waveforms.

Whatever the code under test hands back is read defensively (exc_text, as_int, decode_jobs, SURPRISE): a table cell that is
no integer, a returned triple that is no triple of arrays, files that cannot be read or compared, hook records that are no
ChunkJob events become the negative observation of the clause they belong to (Files:*, TracesEqualSource, Content, Loader,
Raised), never an exception of the harness.
"""
import copy
import hashlib
import json
import os
import shutil
from pathlib import Path

import numpy as np

from vkit import metagen, tlc, tracecheck

LEN, TROUGH = 128, 42        # the defaults of extract_wfs_cbin; a scenario may carry its own pair ("win")
DEFAULT_WIN = (128, 42)


class window:
    """sets the module's LEN / TROUGH to a scenario's spike_length_samples / trough_offset while its train is built, the
    real call is made and its files are judged (everything here runs in the harness process, one scenario at a time)"""

    def __init__(self, sc):
        self.win = tuple(sc.get("win") or DEFAULT_WIN)

    def __enter__(self):
        global LEN, TROUGH
        self.old = (LEN, TROUGH)
        LEN, TROUGH = self.win

    def __exit__(self, *a):
        global LEN, TROUGH
        LEN, TROUGH = self.old


def make_rec(ctx, kind, ns, rng, tag):
    root = Path(ctx.scratch) / f"wf_{tag}"
    shutil.rmtree(root, ignore_errors=True)
    nshank = 4 if kind == "NP2.4" else 1
    sites = metagen.dense_sites(kind, nshank=nshank)
    txt, info = metagen.make_meta(kind, sites, ns=ns)
    d = metagen.random_int16(rng, ns, info["nc"])
    b = metagen.write_recording(root, "rec_g0_t0.imec0", txt, d)
    return b, d


# unit labels are arbitrary integers: negative (sorters mark unassigned spikes with -1), beyond 16 / 31 bits, in no order
# (keys: the unit numbers make_train uses; values stay within 32 bits for TLC)
IDMAPS = [None,
          {1: 12, 3: -7, 5: 40000, 7: -1, 8: 5, 9: 70001, 11: -300, 13: 2},
          {1: 65536, 3: 2147483000, 5: 65535, 7: 100000, 8: 70000, 9: 32768, 11: 1000000, 13: 32767}]
EMPTY_UNIT = 8      # a unit none of whose spikes can be extracted (all within the margins): quota 0, between the others


def build_train(sc):
    """the spike train of a scenario (run and replay)"""
    if sc.get("noneok"):
        # no spike far enough from both ends: every unit's quota is 0 (the call must still succeed, with empty outputs)
        ns = sc["ns"]
        return [(0, 3, 10), (5, 3, 10), (TROUGH, 5, 200), (ns - (LEN - TROUGH), 5, 0), (ns - 1, 7, 383)]
    t = make_train(sc["ns"], [500, 777, 1000, 3000, 6500, 10000], np.random.default_rng(sc["seed"]), sc["nunits"],
                   sc.get("train_maxwf", sc["maxwf"]), sc["nspk"], variant=sc["seed"] % 2, empty=sc.get("empty", False))
    m = IDMAPS[sc.get("ids", 0)]
    if m:
        t = [(a, m[u], c) for a, u, c in t]
    return t


def make_train(ns, chunk_sizes, rng, nunits, maxwf, nspk, variant=None, empty=False):
    """sorted spike train with the awkward cases: both file edges, chunk boundaries, duplicates across units, unit sizes
    below / at / above max_wf, peak channels at the probe ends"""
    lim = ns - (LEN - TROUGH)
    special = [0, 1, TROUGH - 1, TROUGH, TROUGH + 1, TROUGH + 2, lim - 2, lim - 1, lim, lim + 1, ns - 1]
    for c in chunk_sizes:
        for k in range(1, ns // c + 1):
            special += [k * c - 1, k * c, k * c + 1, k * c + TROUGH, k * c - TROUGH, k * c - (LEN - TROUGH)]
    special = sorted({s for s in special if 0 <= s < ns})
    sizes = [max(1, maxwf - 2), maxwf, maxwf + 3] + [int(x) for x in rng.integers(1, 2 * maxwf + 2, max(0, nunits - 3))]
    spikes = []
    for u, sz in enumerate(sizes[:nunits]):
        unit = 3 + 2 * u
        smp = set(rng.choice(special, size=min(len(special), max(2, sz // 2)), replace=False).tolist())
        while len(smp) < sz:
            smp.add(int(rng.integers(0, ns)))
        peak = int(rng.choice([0, 1, 2, 191, 192, 381, 382, 383]))
        for s in smp:
            spikes.append((int(s), unit, peak if rng.random() < 0.7 else int(rng.integers(0, 384))))
    # duplicates across units: same sample in two units
    for _ in range(4):
        s, u, p = spikes[int(rng.integers(0, len(spikes)))]
        other = 3 + 2 * ((u - 3) // 2 + 1) % (2 * nunits)
        if other != u and (s, other) not in {(a, b) for a, b, _ in spikes}:
            spikes.append((s, other, p))
    # the first and the last valid sample are always present (in the largest unit, so that they can be drawn)
    big = 3 + 2 * 2
    spikes += [(TROUGH + 1, 3, 383), (lim - 1, 3, 0), (lim - 2, big, 190)]   # unit 3 is below max_wf: always drawn
    spikes = sorted(set(spikes), key=lambda x: (x[0], x[1]))
    # spike number 0 must sometimes be a valid, selectable spike (F8): put one at a valid time first; the other trains
    # carry a small unit (1) of its own made of spikes too close to either end (never to be extracted) and two valid ones
    coin = rng.random() < 0.7
    if (variant == 0) if variant is not None else coin:
        first_valid = (TROUGH + 1, spikes[0][1], spikes[0][2])
        spikes = [s for s in spikes if s[0] > TROUGH + 1]
        spikes.insert(0, first_valid)
    else:
        spikes = [s for s in spikes if s[1] != 1]
        spikes += [(0, 1, 100), (TROUGH - 1, 1, 383), (TROUGH, 1, 200), (TROUGH + 5, 1, 10), (lim - 7, 1, 300), (lim, 1, 0)]
        spikes = sorted(set(spikes), key=lambda x: (x[0], x[1]))
    if empty:
        early = [] if spikes[0][0] > TROUGH else [(1, EMPTY_UNIT, 50), (TROUGH, EMPTY_UNIT, 383)]   # spike 0 stays what it was
        spikes = sorted(set(spikes + early + [(lim, EMPTY_UNIT, 60), (lim + 3, EMPTY_UNIT, 0), (ns - 1, EMPTY_UNIT, 191)]),
                        key=lambda x: (x[0], x[1]))
    seen, out = set(), []
    for s in spikes:
        if (s[0], s[1]) not in seen:
            seen.add((s[0], s[1]))
            out.append(s)
    return out[:nspk]


def sha(p):
    return hashlib.sha1(Path(p).read_bytes()).hexdigest()


# ---- defensive observation of what the code under test hands back (return values, saved files, hook events): anything
# that is not what the property promises becomes the negative observation of the clause it belongs to, never an
# exception of the harness.  SURPRISE = what decoding a foreign value can raise (not a blanket: a NameError / AssertionError
# / TLCError of the harness itself still ends the run with exit 2)
SURPRISE = (TypeError, ValueError, IndexError, KeyError, AttributeError, OverflowError, ArithmeticError, LookupError)
INT_LIM = 2 ** 31 - 1    # TLC integers are 32-bit (unit labels go up to there)
EV_LIM = 10 ** 9         # fields of a hook event: the trace spec adds two of them


def exc_text(e, n=150):
    """one-line, printable, quote-free text of an exception of the real code (goes through JSON -> TLC -> a regular
    expression over TLC's output: no quotes, backslashes, newlines or non-ASCII characters)"""
    try:
        msg = str(e)
    except Exception:  # noqa  (an exception whose __str__ raises)
        msg = "<unprintable>"
    txt = f"{type(e).__name__}: {msg}"[:n]
    return "".join(c if (32 <= ord(c) < 127 and c not in '"\\') else ("'" if c == '"' else " ") for c in txt).strip()


def as_int(x, lim=INT_LIM):
    """the integer a table cell / event field stands for, None when it is not an integer of at most `lim` in size
    (None, NaN, inf, a string, a fraction, a list, a complex number ...)"""
    try:
        if isinstance(x, (bool, np.bool_, str, bytes)) or x is None:
            return None
        if isinstance(x, (int, np.integer)):
            v = int(x)
        else:
            f = float(x)
            if not np.isfinite(f) or f != int(f):
                return None
            v = int(f)
    except SURPRISE:
        return None
    return v if abs(v) <= lim else None


def decode_jobs(lines):
    """the ChunkJob events of the hook -> (jobs for the trace record, number of records that are no well-formed ChunkJob
    event).  A malformed record is left out: the rows it should account for then count as never written (clause Content)."""
    jobs, bad = [], 0
    for line in lines:
        try:
            e = json.loads(line)
        except ValueError:
            bad += 1
            continue
        if not isinstance(e, dict) or e.get("ev") != "ChunkJob":
            bad += 0 if isinstance(e, dict) and isinstance(e.get("ev"), str) else 1
            continue
        c, first, ln = as_int(e.get("i_chunk"), 10 ** 4), as_int(e.get("snip_first"), EV_LIM), as_int(e.get("snip_len"), EV_LIM)
        cols = []
        for k in ("rows", "samples", "local"):
            v = e.get(k)
            cols.append([as_int(x, EV_LIM) for x in v] if isinstance(v, list) else None)
        if None in (c, first, ln) or any(col is None or None in col for col in cols) or len({len(col) for col in cols}) != 1:
            bad += 1
            continue
        jobs.append({"c": c, "rows": cols[0], "samples": cols[1], "local": cols[2], "snip_first": first, "snip_len": ln})
    jobs.sort(key=lambda j: j["c"])
    return jobs, bad


FILES = ("waveforms.traces.npy", "waveforms.table.pqt", "waveforms.channels.npz", "waveforms.templates.npy")


def plant_leftovers(out, mode, rng):
    """what an earlier extraction into the same folder left under the four names: 1 a larger one, 2 a larger one in the
    legacy 4-D layout (plus a file of somebody else), 3 a shorter one, 4 one that was cut off while writing"""
    import pandas as pd

    def table(n):
        return pd.DataFrame({"index": np.arange(n), "sample": np.sort(rng.integers(50, 5000, n)), "cluster": np.sort(rng.integers(0, 9, n)),
                             "peak_channel": rng.integers(0, 384, n), "waveform_index": np.arange(n),
                             "index_within_clusters": np.arange(n)})
    if mode in (1, 3):
        n, nu = (700, 60) if mode == 1 else (2, 1)
        np.save(out / FILES[0], rng.standard_normal((n, 40, LEN)).astype(np.float32))
        table(n).to_parquet(out / FILES[1])
        np.savez(out / FILES[2], channels=rng.integers(0, 385, (n, 40)))
        np.save(out / FILES[3], rng.standard_normal((nu, 40, LEN)).astype(np.float32))
    elif mode == 2:
        np.save(out / FILES[0], rng.standard_normal((20, 16, 40, LEN)).astype(np.float32))
        table(320).to_parquet(out / FILES[1])
        np.savez(out / FILES[2], channels=rng.integers(0, 385, (320, 40)).astype(float))
        np.save(out / FILES[3], rng.standard_normal((20, 40, LEN)).astype(np.float32))
        (out / "notes.txt").write_text("not ours")
    elif mode == 4:
        np.save(out / FILES[0], rng.standard_normal((300, 40, LEN)).astype(np.float32))
        with open(out / FILES[0], "r+b") as f:
            f.truncate(128 + 4 * 40 * LEN * 17 + 33)
        (out / FILES[1]).write_bytes(b"PAR1" + bytes(rng.integers(0, 256, 900, dtype=np.uint8)))
        np.save(out / FILES[3], rng.standard_normal((3, 40, LEN)).astype(np.float32))


# the integer types spike sorters hand over (kilosort writes uint64 spike times, uint32 clusters); the result must not
# depend on them (the runs of a group differ in it as they differ in chunk size and worker count)
DTS = [(np.int64, np.int64, np.int64), (np.uint64, np.uint32, np.int64), (np.int32, np.int32, np.int32),
       (np.uint32, np.int64, np.uint16), (np.uint64, np.int64, np.int64)]


def arguments(train, sc, idx, master):
    """the three spike arrays of a run.  `master` (one per train) holds int64 arrays that every run of the train whose
    type is int64 receives *as they are* (a call that changed its caller's arrays would hand a different train to the
    later runs); the other runs get read-only copies, every third one a strided view."""
    k, g = sc.get("k", idx), sc.get("g", 0)
    dts = (DTS[0] if k in (0, 2) else DTS[1 + (g + k) % 4]) if "k" in sc else DTS[idx % 5]
    if min(t[1] for t in train) < 0 and dts[1] is np.uint32:
        dts = (dts[0], np.int32, dts[2])
    if "a" not in master:
        master["a"] = tuple(np.array([t[j] for t in train], dtype=np.int64) for j in range(3))
    out = []
    for j in range(3):
        if dts[j] is np.int64:
            out.append(master["a"][j])
        else:
            a = master["a"][j].astype(dts[j])
            if k % 3 == 1:      # every second element of a longer buffer
                buf = np.full(2 * a.size + 1, 7, dtype=dts[j])
                buf[1::2] = a
                a = buf[1::2]
            a.setflags(write=False)
            out.append(a)
    return out


def check_loader(we, folder, tab, traces, chans, templ, iwc, absent):
    """WaveformsLoader on the folder just written: every option of load_waveforms selects rows of the saved files (in the
    order of the files), one loader object serving all the calls; returns a description of the first disagreement"""
    cols = [c for c in ("sample", "cluster", "peak_channel", "waveform_index", "index_within_clusters") if c in tab]
    clu = tab["cluster"].to_numpy()
    uniq = [int(u) for u in np.unique(clu)]
    n = len(tab)
    wl = we.WaveformsLoader(folder)

    def rows(labels, indices):
        m = np.ones(n, bool) if labels is None else np.isin(clu, np.asarray(labels))
        if indices is not None:
            m &= np.isin(iwc, np.atleast_1d(np.asarray(indices)))
        return np.flatnonzero(m)

    def call(what, labels=None, indices=None, **kw):
        sel = rows(labels, indices)
        a = {}
        if labels is not None:
            a["labels"] = labels
        if indices is not None:
            a["indices"] = indices
        r = wl.load_waveforms(**a, **kw)
        if kw.get("return_info", True):
            if not (isinstance(r, tuple) and len(r) == 3):
                return f"{what}: no (waveforms, table, channels) triple"
            w, info, ch = r
            if not np.array_equal(np.asarray(ch), chans[sel]):
                return f"{what}: channels are not rows {sel[:5].tolist()}.. of the channels file"
            if len(info) != sel.size or any(not np.array_equal(info[c].to_numpy(), tab[c].to_numpy()[sel]) for c in cols):
                return f"{what}: table rows are not rows {sel[:5].tolist()}.. of the saved table"
        else:
            w = r
            if isinstance(w, tuple):
                return f"{what}: return_info=False returned a tuple"
        if not (np.asarray(w).shape == traces[sel].shape and np.array_equal(np.asarray(w), traces[sel], equal_nan=True)):
            return f"{what}: waveforms are not rows {sel[:5].tolist()}.. of the traces file"
        # the caller post-processes what it was given, in place (baseline removal, nan_to_num): that is the caller's copy
        for arr in ((w, ch) if kw.get("return_info", True) else (w,)):
            try:
                arr[...] = 7
            except (ValueError, TypeError):
                pass
        return ""

    few = uniq[::-1][:3]
    checks = [lambda: call("load_waveforms(labels=[u], indices=[0, 2])", [uniq[0]], [0, 2])]
    for u in uniq:
        checks.append(lambda u=u: call(f"load_waveforms(labels=[{u}])", [u]))
        checks.append(lambda u=u: call(f"load_waveforms(labels=[{u}], indices=[0, 2])", [u], [0, 2]))
    checks += [
        lambda: call("load_waveforms()"),
        lambda: call("load_waveforms(return_info=False)", return_info=False),
        lambda: call("load_waveforms(flatten=True)", flatten=True),
        lambda: call(f"load_waveforms(labels=array({few + absent}))", np.array(few + absent)),
        lambda: call(f"load_waveforms(labels=array({few + absent}), indices=array([1, 0, 10**6]))", np.array(few + absent), np.array([1, 0, 10 ** 6])),
        lambda: call(f"load_waveforms(labels={tuple(uniq[:2])}, indices=1, return_info=False, flatten=True)", tuple(uniq[:2]), 1,
                     return_info=False, flatten=True),
        lambda: call("load_waveforms(indices=[0])", None, [0]),
        lambda: call(f"load_waveforms(labels={absent})", list(absent)),
        lambda: call("load_waveforms() again", None),
    ]
    for c in checks:
        bad = c()
        if bad:
            return bad
    counts = np.unique(clu, return_counts=True)[1]
    facts = {"nw": (wl.nw, n), "ns": (wl.ns, traces.shape[2]), "nc": (wl.nc, traces.shape[1]), "nu": (wl.nu, len(uniq)),
             "max_wf": (wl.max_wf, counts.max())}
    for name, (got, want) in facts.items():
        if int(got) != int(want):
            return f"WaveformsLoader.{name} = {got}, the saved files have {want}"
    if not (np.array_equal(np.asarray(wl.templates), templ, equal_nan=True) and np.array_equal(np.asarray(wl.channels), chans)
            and np.array_equal(np.asarray(wl.traces), traces, equal_nan=True)):
        return "WaveformsLoader.templates / .channels / .traces are not the saved arrays"
    repr(wl)
    # what the calls above did to the arrays they were handed must not have reached the saved files, nor what a loader returns
    p = Path(folder)
    if not (np.array_equal(np.load(p / "waveforms.traces.npy"), traces, equal_nan=True)
            and np.array_equal(np.load(p / "waveforms.channels.npz")["channels"], chans)):
        return "a caller writing into the arrays load_waveforms returned changed the saved files"
    w2 = we.WaveformsLoader(folder).load_waveforms(return_info=False)
    if not np.array_equal(np.asarray(w2), traces, equal_nan=True):
        return "load_waveforms() on a new loader does not return the traces file after a caller wrote into earlier results"
    return ""


def one_extract(ctx, binf, d, train, sc, idx, master=None):
    """one real call; returns the trace record"""
    import pandas as pd
    import spikeglx
    from ibldsp import waveform_extraction as we
    from ibldsp.utils import make_channel_index
    out = Path(ctx.scratch) / f"wfout_{idx}"
    shutil.rmtree(out, ignore_errors=True)
    out.mkdir(parents=True)
    if sc.get("left"):
        plant_leftovers(out, sc["left"], np.random.default_rng(1000 + idx))
    trdir = Path(os.environ["IBL_NEUROPIXEL_VERIF_TRACE"])
    for f in trdir.glob("*.ndjson"):
        f.unlink()
    ss, sc_, sp = arguments(train, sc, idx, {} if master is None else master)
    ns = d.shape[0]
    # keywords left out take the documented defaults (max_wf 256, chunks of 3000 samples, half of the CPUs, a fresh generator)
    rec = {"kind": "cbin", "a": {}, "ns": ns, "maxwf": 256 if sc["maxwf"] is None else sc["maxwf"],
           "chunk": 3000 if sc["chunk"] is None else sc["chunk"], "njobs": sc["njobs"], "train": [list(t) for t in train],
           "table": [], "jobs": [], "content": [], "exc": "",
           "obs": {"rows_ok": True, "table_ok": True, "order_ok": True, "chan_ok": True, "templ_ok": True, "loader_ok": True},
           "detail": {}, "hash": None}
    src = binf
    before = None
    if sc.get("cbin"):
        # the compressed form of the same recording as input (decompress_to_scratch path): same result required
        cdir = Path(ctx.scratch) / f"wfcbin_{idx}"
        shutil.rmtree(cdir, ignore_errors=True)
        cdir.mkdir(parents=True)
        for f in (binf, binf.with_suffix(".meta")):
            shutil.copy(f, cdir / f.name)
        srx = spikeglx.Reader(cdir / binf.name)
        srx.compress_file(keep_original=False, chunk_duration=0.1)
        srx.close()
        src = (cdir / binf.name).with_suffix(".cbin")
        before = sorted(p.name for p in cdir.iterdir())
    if sc.get("link"):
        # the recording reached through a symbolic link (seed round i): the binary lives in a store under another name, the session
        # folder holds the link and the metadata - what the parent's reader and every worker's reader must open
        ldir = Path(ctx.scratch) / f"wflink_{idx}"
        shutil.rmtree(ldir, ignore_errors=True)
        (ldir / "store").mkdir(parents=True)
        (ldir / "session").mkdir()
        blob = ldir / "store" / "blob_0001.dat"
        shutil.copy(binf, blob)
        src = ldir / "session" / binf.name
        src.symlink_to(blob)
        shutil.copy(binf.with_suffix(".meta"), src.with_suffix(".meta"))
    kw = {"max_wf": sc["maxwf"], "chunksize_samples": sc["chunk"], "n_jobs": sc["njobs"]}
    kw = {a: b for a, b in kw.items() if b is not None}
    if not sc.get("noseed"):
        kw["seed"] = sc.get("xseed", sc["seed"])
    if (LEN, TROUGH) != DEFAULT_WIN:
        kw["spike_length_samples"], kw["trough_offset"] = LEN, TROUGH
    if sc["njobs"] is None and sc["maxwf"] is None:
        import joblib
        if joblib.cpu_count() < 2:      # the default is half of the CPUs: not a worker count on a single-CPU machine
            kw["n_jobs"] = 1
    if sc.get("cbin") == "scratch":
        kw["scratch_dir"] = Path(ctx.scratch) / f"wfscr_{idx}"
    if sc.get("explicit"):
        # the geometry handed over instead of read from the file, and the recording named by a string
        srh = spikeglx.Reader(binf)
        kw["h"] = srh.geometry
        srh.close()
        src = str(src)
    try:
        we.extract_wfs_cbin(src, out, ss, sc_, sp, preprocess_steps=[], **kw)
    except Exception as e:  # noqa
        rec["exc"] = exc_text(e)
        return rec
    src = Path(src)
    if before is not None:
        after = sorted(p.name for p in src.parent.iterdir())
        if after != before:
            rec["source_dir_changed"] = {"before": before, "after": after}
        shutil.rmtree(src.parent, ignore_errors=True)
        shutil.rmtree(Path(ctx.scratch) / f"wfscr_{idx}", ignore_errors=True)
    lines = []
    for f in sorted(trdir.glob("*.ndjson")):
        lines += f.read_text(errors="replace").splitlines()
    rec["jobs"], malformed = decode_jobs(lines)
    if malformed:
        rec["detail"]["hook"] = f"{malformed} record(s) of the write_wfs_chunk hook are no well-formed ChunkJob event (left out)"
    # ---- files
    try:
        tab = pd.read_parquet(out / "waveforms.table.pqt").reset_index(drop=True)   # row position = row of the traces file
        traces = np.load(out / "waveforms.traces.npy")
        chans = np.load(out / "waveforms.channels.npz")["channels"]
        templ = np.load(out / "waveforms.templates.npy")
        if traces.ndim != 3 or chans.ndim != 2 or templ.ndim != 3 or not {"sample", "cluster", "peak_channel", "waveform_index"} <= set(tab):
            raise ValueError(f"shapes {traces.shape} {chans.shape} {templ.shape}, columns {list(tab)}")
    except Exception as e:  # noqa
        # the folder does not hold a readable set of the four files (e.g. what an earlier run left is still there)
        rec["obs"]["rows_ok"] = False
        rec["detail"]["files"] = exc_text(e, 200)
        shutil.rmtree(out, ignore_errors=True)
        return rec
    key = {(t[0], t[1]): i + 1 for i, t in enumerate(train)}
    rows = []
    n = len(tab)
    # a table cell that is no integer (None, NaN, a string, a fraction, beyond 32 bits) names no spike of the train
    cells = [[as_int(tab[c].iloc[r], EV_LIM if c == "waveform_index" else INT_LIM) for c in ("sample", "cluster", "peak_channel", "waveform_index")]
             for r in range(n)]
    for smp, clu, pch, widx in cells:
        k = (smp, clu)
        if None in (smp, clu, pch) or k not in key or train[key[k] - 1][2] != pch:
            rec["obs"]["table_ok"] = False
            rec["detail"]["table_row"] = [smp, clu, pch, widx]
            continue
        if widx is None:        # the row is a spike of the train, its waveform_index is no row number (clause RowOrder)
            rec["obs"]["order_ok"] = False
            rec["detail"]["widx"] = f"waveform_index of (sample {smp}, cluster {clu}) is no integer row number"
            widx = -1
        rows.append((key[k], widx))
    rec["table"] = [{"sp": a, "widx": b} for a, b in sorted(rows)]
    rec["obs"]["rows_ok"] = bool(traces.shape[0] == n and chans.shape[0] == n and traces.shape[2] == LEN)
    # saved table is sorted by (cluster, sample) and row r describes traces row r
    exp_iwc = np.zeros(n, dtype=np.int64)
    try:
        wi = tab["waveform_index"].to_numpy()
        rec["obs"]["order_ok"] = bool(rec["obs"]["order_ok"] and np.array_equal(wi, np.arange(n)))
        iwc = tab["index_within_clusters"].to_numpy() if "index_within_clusters" in tab else None
        exp_iwc = tab.groupby("cluster").cumcount().to_numpy()
        if iwc is None or not np.array_equal(iwc, exp_iwc):
            rec["obs"]["order_ok"] = False
            rec["detail"]["iwc"] = "index_within_clusters is not the running index inside each cluster"
    except SURPRISE as e:
        rec["obs"]["order_ok"] = False
        rec["detail"]["iwc"] = f"waveform_index / cluster / index_within_clusters columns cannot be read as indices: {exc_text(e)}"
    sr = spikeglx.Reader(binf)
    geom = np.c_[sr.geometry["x"], sr.geometry["y"]]
    # independent reading of the neighbourhood: ascending channels within 200 um, padded with nc
    dist = np.sqrt(((geom[:, None, :] - geom[None, :, :]) ** 2).sum(-1))
    try:
        width = int(make_channel_index(geom).shape[1])
    except Exception:  # noqa  (the library's neighbourhood table only gives the padded width: take it from the distances)
        width = int((dist <= 200.0).sum(1).max())
    # source traces as the reader hands them out (geometry order; the reader itself is the subject of C01)
    full = np.vstack([sr[:, :-sr.nsync].T, np.full((1, ns), np.nan, dtype=np.float32)])
    content = []
    if rec["obs"]["rows_ok"]:
        for r in range(n):
            s, pk = cells[r][0], cells[r][2]
            if s is None or pk is None or not 0 <= pk < geom.shape[0]:
                # the row names no sample / no channel of the probe: its waveform is the window of nothing
                content.append(0)
                rec["obs"]["chan_ok"] = False
                continue
            near = np.flatnonzero(dist[pk] <= 200.0)
            cind = np.full(width, geom.shape[0])
            cind[: near.size] = near
            want = full[cind][:, s - TROUGH: s - TROUGH + LEN]
            try:
                ok = want.shape == traces[r].shape and np.array_equal(traces[r], want, equal_nan=True)
            except SURPRISE:        # a traces file of an element type that cannot be compared with numbers
                ok = False
            content.append(1 if ok else 0)
            if not np.array_equal(chans[r], cind):
                rec["obs"]["chan_ok"] = False
        # templates: row i = median over the rows of the i-th cluster present in the table
        try:
            for i, (cl, g) in enumerate(tab.groupby("cluster", sort=True)):
                med = np.nanmedian(traces[g.index.min(): g.index.max() + 1], axis=0)
                if i >= templ.shape[0] or templ[i].shape != med.shape or not np.allclose(templ[i], med, rtol=1e-6, atol=0, equal_nan=True):
                    rec["obs"]["templ_ok"] = False
        except SURPRISE as e:
            rec["obs"]["templ_ok"] = False
            rec["detail"]["templates"] = f"templates cannot be compared with the medians of the traces rows: {exc_text(e)}"
    # content indexed by waveform_index (row r <-> widx r when order_ok)
    rec["content"] = content
    # loader returns what was saved
    present = {c[1] for c in cells if c[1] is not None}
    absent = [int(u) for u in sorted({t[1] for t in train} - present)] + [max(present, default=0) + 17]
    try:
        # an empty extraction (no spike far enough from both ends) leaves empty files: there is nothing for the loader to return
        bad = check_loader(we, out if idx % 2 else str(out), tab, traces, chans, templ, exp_iwc, absent) if len(tab) else ""
    except Exception as e:  # noqa
        bad = exc_text(e, 200)
    if bad:
        rec["obs"]["loader_ok"] = False
        rec["detail"]["loader"] = bad
    sr.close()
    rec["hash"] = [sha(out / "waveforms.traces.npy"), sha(out / "waveforms.channels.npz"), sha(out / "waveforms.templates.npy"),
                   hashlib.sha1(tab.to_csv().encode()).hexdigest()]
    shutil.rmtree(out, ignore_errors=True)
    return rec


def nstates(t):
    return 3 if t["exc"] or t.get("kind") == "array" else len(t["jobs"]) + 4


def strip(t):
    r = {k: t[k] for k in ("maxwf", "chunk", "train", "table", "jobs", "content", "exc", "obs")}
    r["kind"], r["a"] = t.get("kind", "cbin"), t.get("a", {})
    return r


# direct calls of the gather: (trough_offset, spike_length_samples, radius or None for make_channel_index's own default,
# NaN row given / to be added, array type, form of the frame, verbose)
ARRAY_CASES = [(42, 128, None, "given", "float32", 0, False), (42, 128, 200.0, "add", "int16", 1, False),
               (20, 64, 100.0, "given", "float64", 1, True), (0, 10, 40.0, "add", "float32", 0, False),
               (30, 121, 300.0, "given", "float32", 1, False), (9, 10, 26.0, "add", "float64", 0, False),
               (100, 400, 75.0, "given", "float32", 0, True), (63, 64, 0.0, "add", "int16", 1, False),
               (1, 2, 250.0, "given", "float64", 0, False), (42, 128, 200.0, "add", "float32", 1, True)]


def one_array(ctx, binf, sc):
    """one direct extract_wfs_array call on an array of the recording's geometry whose every value is distinguishable"""
    import pandas as pd
    import spikeglx
    from ibldsp import waveform_extraction as we
    from ibldsp.utils import make_channel_index
    T, L, radius, nan, dt, dfk, verbose = sc["array"]
    rng = np.random.default_rng(sc["seed"])
    sr = spikeglx.Reader(binf)
    geom = np.c_[sr.geometry["x"], sr.geometry["y"]]
    sr.close()
    nc, nsa = geom.shape[0], int(sc["nsa"])
    data = rng.integers(-30000, 30000, (nsa, nc)).astype(dt).T          # (nc, ns), not contiguous, as the chunk jobs pass it
    lo, hi = T, nsa - (L - T) - 1                                       # first and last sample whose window lies inside
    smp = [lo, lo + 1, hi - 1, hi] + [int(x) for x in rng.integers(lo, hi + 1, sc["n"])]
    smp = sorted(smp + [smp[-1], smp[-2]])                              # the same sample on two peak channels
    peaks = [int(rng.choice([0, 1, 2, nc // 2 - 1, nc // 2, nc - 3, nc - 2, nc - 1])) if rng.random() < 0.6 else int(rng.integers(0, nc))
             for _ in smp]
    rec = {"kind": "array", "a": {"ns": nsa, "trough": T, "len": L, "samples": smp}, "ns": sc["ns"], "maxwf": 0, "chunk": 1,
           "train": [], "table": [], "jobs": [], "content": [], "exc": "", "detail": {}, "hash": None,
           "obs": {"rows_ok": True, "table_ok": True, "order_ok": True, "chan_ok": True, "templ_ok": True, "loader_ok": True}}
    full = np.vstack([data.astype(np.float64), np.full((1, nsa), np.nan)])
    arr = data if nan == "add" else np.vstack([data, np.full((1, nsa), np.nan, dtype=dt)])
    arr.setflags(write=False)
    if dfk == 0:
        df = pd.DataFrame({"sample": smp, "peak_channel": peaks})
    else:       # a slice of a larger table: other columns, an index that does not start at 0, 32-bit columns
        df = pd.DataFrame({"cluster": 5, "sample": np.array(smp, dtype=np.int32), "peak_channel": np.array(peaks, dtype=np.int32),
                           "waveform_index": np.arange(len(smp))[::-1]}, index=np.arange(len(smp)) + 1000)
    kw = {}
    if (T, L) != (42, 128) or dfk:
        kw.update(trough_offset=T, spike_length_samples=L)
    if nan == "add":
        kw["add_nan_trace"] = True
    if verbose:
        kw["verbose"] = True
    try:
        nb = make_channel_index(geom) if radius is None else make_channel_index(geom, radius=radius)
        res = we.extract_wfs_array(arr, df, nb, **kw)
        wfs, cind, third = res
    except Exception as e:  # noqa
        rec["exc"] = exc_text(e)
        return rec
    # independent reading of the neighbourhood: ascending channels within the radius, padded with nc
    dist = np.sqrt(((geom[:, None, :] - geom[None, :, :]) ** 2).sum(-1))
    within = dist <= (200.0 if radius is None else radius)
    width = int(within.sum(1).max())
    # what came back is read defensively: anything that is not (array (n, width, L), array (n, width), the trough offset)
    # is the negative observation of Files:rows; a row that cannot be compared with numbers does not equal the source
    try:
        wfs, cind = np.asarray(wfs), np.asarray(cind)
        same = np.asarray(third == T)
        rec["obs"]["rows_ok"] = bool(wfs.shape == (len(smp), width, L) and cind.shape == (len(smp), width)
                                     and same.size == 1 and bool(same.all()))
    except SURPRISE as e:
        rec["obs"]["rows_ok"] = False
        rec["detail"]["shape"] = f"the returned triple cannot be read as (waveforms, channels, trough offset): {exc_text(e)}"
        return rec
    if rec["obs"]["rows_ok"]:
        for i, (s_, pk) in enumerate(zip(smp, peaks)):
            near = np.flatnonzero(within[pk])
            want_c = np.full(width, nc)
            want_c[: near.size] = near
            if not np.array_equal(cind[i], want_c):
                rec["obs"]["chan_ok"] = False
            try:
                got = wfs[i] if np.iscomplexobj(wfs[i]) else wfs[i].astype(np.float64)     # (a cast would drop an imaginary part)
                same = np.array_equal(got, full[want_c][:, s_ - T: s_ - T + L], equal_nan=True)
            except SURPRISE:
                same = False
            rec["content"].append(1 if same else 0)
    else:
        rec["detail"]["shape"] = [[int(x) for x in wfs.shape], [int(x) for x in cind.shape], [len(smp), width, L]]
    return rec


def write_cfg(ctx, ns, L=None, T=None):
    L, T = (LEN if L is None else L), (TROUGH if T is None else T)
    f = Path(ctx.scratch) / f"WaveformTrace_{ns}_{L}_{T}.cfg"
    f.write_text(f'SPECIFICATION Spec\nCONSTANTS\n  Variant = "fixed"\n  NS = {ns}\n  LEN = {L}\n  TROUGH = {T}\n'
                 f'INVARIANT Consumed\nCHECK_DEADLOCK FALSE\n')
    return f


def validate(ctx, traces, label):
    out = []
    by = {}
    for i, t in enumerate(traces):
        by.setdefault((t["ns"],) + tuple(t.get("win") or DEFAULT_WIN), []).append(i)
    for (ns, L, T), idx in sorted(by.items()):
        vs = tracecheck.validate(ctx, "trace/WaveformTrace.tla", write_cfg(ctx, ns, L, T), [strip(traces[i]) for i in idx],
                                 label=f"{label}{ns}_{L}_{T}", nstates=nstates, jvms=4, workers=2, timeout=1500)
        for v in vs:
            v["index"] = idx[v["index"]]
            out.append(v)
    return out


def describe(sc):
    if "array" in sc:
        T, L, radius, nan, dt, dfk, verbose = sc["array"]
        return (f"extract_wfs_array({sc['kind']} geometry, {dt} array of {sc['nsa']} samples, NaN row {nan}, trough_offset={T}, "
                f"spike_length_samples={L}, radius={radius}, frame form {dfk}, seed={sc['seed']})")
    extra = "".join(f", {k}={sc[k]}" for k in ("ids", "empty", "left", "cbin", "noseed", "explicit") if sc.get(k))
    return (f"extract_wfs_cbin({sc['kind']}, ns={sc['ns']}, {sc['nspk']} spikes/{sc['nunits']} units, max_wf={sc['maxwf']}, "
            f"chunk={sc['chunk']}, n_jobs={sc['njobs']}, seed={sc['seed']}{extra})")


def report(ctx, scs, traces, verdicts):
    for v in verdicts:
        sc, t = scs[v["index"]], traces[v["index"]]
        if v["prop"]:
            ctx.violation("wfs:" + v["prop"].split(":")[0] + (":" + v["prop"].split(":")[1] if v["prop"].startswith("Files") else ""),
                          f"{describe(sc)}: clause {v['prop']} false {json.dumps(t['detail'])[:200]}", {"scenario": sc})
        elif v["impl"]:
            ctx.spec_drift(f"{describe(sc)}: {v['impl']} (job {v['pos']}) is not the implementation-layer step of "
                           f"spec/sys/WaveformExtract.tla")


def scenarios(ctx):
    scs = []
    base = ctx.seed * 1000
    recs = [("3B2", 7013), ("NP2.4", 12001)] if ctx.quick else [("3B2", 7013), ("NP2.4", 12001), ("NP2.1", 20011), ("3B2", 3000)]
    for ri, (kind, ns) in enumerate(recs):
        trains = 2 if ctx.quick else 5
        for ti in range(trains):
            maxwf = [8, 5, 16, 3, 12][ti % 5]
            combos = [(500, 1), (3000, 2), (10000, 4)] if ctx.quick else [(500, 1), (777, 8), (1000, 2), (3000, 4), (6500, 3), (10000, 8)]
            # chunk sizes whose last chunk is shorter / just longer than the waveform window and its margins
            # (remainders around LEN - TROUGH = 86 and LEN = 128), by the classes of spec RowsOf / SnipLen
            rems = [100, 1] if ctx.quick else [1, 85, 86, 87, 100, 127, 128, 129]
            for r in rems[ti % 2::2] if ctx.quick else rems:
                k = next((k for k in range(2, 12) if (ns - r) % k == 0 and (ns - r) // k >= 500), None)
                if k:
                    combos = combos + [((ns - r) // k, 1 + (r % 3))]
            g = ri * trains + ti
            # the state a run finds: k-th run of its train - left-overs in the output folder (none, a larger extraction, a
            # cut-off one, a legacy 4-D one, a shorter one), unit labels (small / signed / large), a unit with quota 0
            common = {"kind": kind, "ns": ns, "rec": ri, "train": ti, "seed": base + 10 * ri + ti, "nunits": 4 + ti % 3, "nspk": 400,
                      "g": g, "ids": g % 3, "empty": g % 2 == 0}
            k = 0
            for chunk, nj in combos:
                scs.append(dict(common, maxwf=maxwf, chunk=chunk, njobs=nj, group=f"r{ri}t{ti}", k=k, left=[0, 1, 4, 2, 3][k % 5]))
                k += 1
            if ti == 0:
                # same recording handed in compressed (with and without a scratch directory): same files required
                for mode in (["scratch"] if ctx.quick else ["scratch", "inplace"]):
                    scs.append(dict(scs[-1], chunk=3000, njobs=2, cbin=mode, k=k, left=[0, 1, 4, 2, 3][k % 5]))
                    k += 1
            # max_wf beyond every unit (every extractable spike is taken, whatever the generator: the keywords left at
            # their defaults belong to the same group) and max_wf = 1
            extra = []
            if not ctx.quick or ti == 1:
                extra += [dict(maxwf=1000, chunk=[3000, 777][ri % 2], njobs=2 + ri % 2, group=f"r{ri}t{ti}all"),
                          dict(maxwf=None, chunk=None if ri % 2 == 0 else 10000, njobs=None if ri % 2 == 0 else 1, noseed=True,
                               explicit=ri % 2 == 0, group=f"r{ri}t{ti}all")]
            if not ctx.quick or (ti == 1 and ri % 2 == 1):
                extra += [dict(maxwf=1, chunk=3000, njobs=2, group=f"r{ri}t{ti}one")]
            if not ctx.quick:
                extra += [dict(maxwf=256, chunk=6500, njobs=4, xseed=base + 77, group=f"r{ri}t{ti}all"),
                          dict(maxwf=1, chunk=500, njobs=4, group=f"r{ri}t{ti}one")]
            for e in extra:
                scs.append(dict(common, train_maxwf=maxwf, k=k, left=[0, 1, 4, 2, 3][k % 5], **e))
                k += 1
            # spike_length_samples / trough_offset other than the defaults ("from sample-offset to sample-offset+length"): a group
            # of its own (its own train: the margins move with the window), and a train without any extractable spike
            if ti == (ri % 2) or not ctx.quick:
                win = [[100, 30], [64, 20], [200, 60], [128, 0]][(ri + ti) % 4]
                for chunk, nj in ([(500, 1), (3000, 2)] if ctx.quick else [(500, 1), (3000, 2), (10000, 4)]):
                    scs.append(dict(common, maxwf=maxwf, chunk=chunk, njobs=nj, win=win, group=f"r{ri}t{ti}win", k=k, left=0))
                    k += 1
            if ti == 0:
                scs.append(dict(common, maxwf=maxwf, chunk=3000, njobs=2, noneok=True, group=f"r{ri}none", k=k, left=0, ids=0, empty=False))
                k += 1
        # the gather called directly
        cases = ARRAY_CASES[ri % 2::2] if ctx.quick else ARRAY_CASES
        for ci, case in enumerate(cases):
            scs.append({"kind": kind, "ns": ns, "rec": ri, "array": list(case), "nsa": 480 + 97 * ((ci + ri) % 4), "n": 12 if ctx.quick else 40,
                        "seed": base + 100 * ri + ci, "group": None})
        # the recording replaced under its own name (seed round g: a reader cached per path in the process and in its workers):
        # other samples written to a new file at the same path after all the extractions above, then extracted again - in the
        # calling process and by the (reused) workers; judged against the file as it is now
        common = {"kind": kind, "ns": ns, "rec": ri, "train": 0, "seed": base + 10 * ri, "nunits": 4, "nspk": 400, "g": ri * trains,
                  "ids": (ri * trains) % 3, "empty": (ri * trains) % 2 == 0}
        for j, (chunk, nj) in enumerate([(3000, 1), (500, 2)] if ctx.quick else [(3000, 1), (500, 2), (1000, 4), (10000, 8)]):
            scs.append(dict(common, maxwf=8, chunk=chunk, njobs=nj, group=f"r{ri}new", k=j, left=0, rewrite=j == 0))
        # ... and reached through a symbolic link (same files required as for the plain path: same group)
        scs.append(dict(common, maxwf=8, chunk=1000, njobs=2, group=f"r{ri}new", k=9, left=0, link=True))
    return scs


def run(ctx):
    import logging
    os.environ["IBL_NEUROPIXEL_VERIF_TRACE"] = str(Path(ctx.scratch) / "hooktrace")
    Path(os.environ["IBL_NEUROPIXEL_VERIF_TRACE"]).mkdir(parents=True, exist_ok=True)
    os.environ["JOBLIB_TEMP_FOLDER"] = str(ctx.scratch)
    logging.getLogger("ibllib").setLevel(logging.CRITICAL)
    ctx.level = "model_checking"
    cfg = "mc/WaveformExtract_quick.cfg" if ctx.quick else "mc/WaveformExtract_thorough.cfg"
    r = tlc.run("mc/MC_WaveformExtract.tla", cfg, workers=8, timeout=3000, heap="8g", coverage=True)
    ctx.tlc(r, cfg)
    if r.ok:
        # vacuity control on the *final* coverage report: on a busy machine TLC also prints interim reports (one a minute), and
        # Finalize is first enabled at the fourth level of the search (the counts of the last report are cumulative)
        final = r.out[max(0, r.out.rfind("The coverage statistics at")):]
        zero = [a for a in tlc.coverage_zero_actions(final) if not a.startswith("Init") and not a.endswith("Init")]
        if "End of statistics" not in final or "<MakeTable line" not in final:
            raise tlc.TLCError("vacuity control: no complete final coverage report in the TLC output")
        if zero:
            raise tlc.TLCError(f"vacuity: actions never taken in the model run: {zero}")
    if not r.ok:
        raise tlc.TLCError(f"WaveformExtract model of the current tree violates {r.invariant_violated}:\n{r.out[-2000:]}")
    # the chunk / snippet arithmetic for unbounded lengths, chunk sizes and window geometries (Apalache, one-state theorem)
    from vkit import apalache
    if not apalache.check("apalache/WaveSnipInd.tla", "Init", "Theorem", 0):
        raise tlc.TLCError("spec/apalache/WaveSnipInd.tla: OneChunk / WithinSnippet do not hold for unbounded parameters")
    ctx.cov["unbounded_theorem"] = {"tool": "apalache-mc 0.58", "statement": "for all NS, chunk >= trough_offset, 0 <= trough < length and "
                                    "every valid spike sample: exactly one chunk holds it and its window lies inside that chunk's snippet "
                                    "at the local position the code computes"}
    scs = scenarios(ctx)
    rng = np.random.default_rng(ctx.seed)
    recs, trains, masters, traces = {}, {}, {}, []
    for i, sc in enumerate(scs):
        if sc["rec"] not in recs:
            recs[sc["rec"]] = make_rec(ctx, sc["kind"], sc["ns"], rng, sc["rec"])
        elif sc.get("rewrite"):
            recs[sc["rec"]] = make_rec(ctx, sc["kind"], sc["ns"], rng, sc["rec"])
        binf, d = recs[sc["rec"]]
        if "array" in sc:
            traces.append(one_array(ctx, binf, sc))
            ctx.count(1, key=(sc["kind"], "array") + tuple(sc["array"]))
            continue
        tk = (sc["rec"], sc["train"], tuple(sc.get("win") or DEFAULT_WIN), bool(sc.get("noneok")))
        with window(sc):
            if tk not in trains:
                trains[tk] = build_train(sc)
            t = one_extract(ctx, binf, d, trains[tk], sc, i, masters.setdefault(tk, {}))
        t["win"] = list(sc.get("win") or DEFAULT_WIN)
        traces.append(t)
        ctx.count(1, key=(sc["kind"], sc["ns"], sc["train"], sc["maxwf"], sc["chunk"], sc["njobs"]))
    verdicts = validate(ctx, traces, "wfs")
    report(ctx, scs, traces, verdicts)
    # independence of chunk size and worker count: identical files for identical (recording, train, max_wf, seed)
    groups = {}
    for sc, t in zip(scs, traces):
        if t["hash"] and sc["group"]:
            groups.setdefault(sc["group"], []).append((sc["chunk"], sc["njobs"], t["hash"]))
    for g, lst in groups.items():
        if len({tuple(h) for _, _, h in lst}) > 1:
            ctx.violation("wfs:Independent", f"saved files differ between (chunk, n_jobs) settings {[(a, b) for a, b, _ in lst]}",
                          {"scenario": [s for s in scs if s["group"] == g]})
    ctx.cov["independence_groups"] = {g: len(v) for g, v in groups.items()}
    for sc, t in zip(scs, traces):
        if t.get("source_dir_changed"):
            ctx.observe(f"extract_wfs_cbin on a .cbin (scratch mode {sc.get('cbin')}) changed the recording's own folder: "
                        f"{t['source_dir_changed']} (no listed property covers this)")
    for sc, t in [x for x in zip(scs, traces) if "array" not in x[0]][:2]:
        ctx.sample({"scenario": sc, "first_spikes": t["train"][:5], "table_rows": len(t["table"]),
                    "jobs": [[j["c"], len(j["rows"]), j["snip_first"], j["snip_len"]] for j in t["jobs"][:5]]})
    selftest(ctx, traces, {v["index"] for v in verdicts})
    ctx.cov["rule"] = ("model: every train of the box x max_wf x chunk x selection x job interleaving; real runs: recordings x spike "
                       "trains (edges, chunk boundaries, duplicates across units, unit sizes around max_wf, units without extractable "
                       "spikes, signed / large labels) x (chunk, n_jobs) x what the output folder held before x max_wf beyond every "
                       "unit / 1 / default; direct extract_wfs_array calls x (trough, length, radius, NaN row, array type); "
                       "distinct = distinct (recording, train, max_wf, chunk, n_jobs) or array case")
    ctx.assumptions += ["preprocess_steps=[] so that 'equals the source traces' is literal (float32(raw) * gain)",
                        "spike trains are sorted by sample and have no duplicate (sample, cluster) pair",
                        "direct extract_wfs_array calls ask only for windows that lie inside the array (its documented precondition) "
                        "and hand over a frame sorted by sample",
                        "left-overs in the output folder are files under the four output names (and one foreign file); a stale "
                        "decompressed copy in scratch_dir is outside (spikeglx trusts it by design)",
                        "the hook emits after the memmap assignment of a chunk job; jobs of one call write disjoint rows iff "
                        "AtMostOnce holds, which makes the result schedule-independent"]


def selftest(ctx, traces, bad):
    good = [i for i, t in enumerate(traces) if i not in bad and not t["exc"] and len(t["jobs"]) >= 2 and len(t["table"]) > 5][:4]
    if len(good) < 2:
        raise tlc.TLCError("selftest: no accepted multi-job traces")
    mut = []
    for j, i in enumerate(good):
        t = copy.deepcopy(traces[i])
        if j % 4 == 0:      # chunk-local offset missing for a later chunk
            job = t["jobs"][-1]
            job["local"] = [x - TROUGH for x in job["local"]]
        elif j % 4 == 1:    # two jobs write the same row
            t["jobs"][1]["rows"][0] = t["jobs"][0]["rows"][0]
        elif j % 4 == 2:    # a traces row differs from the source
            t["content"][len(t["content"]) // 2] = 0
        else:               # a unit lost one of its spikes
            t["table"] = t["table"][1:]
        mut.append(t)
    for i, t in enumerate(traces):
        if t.get("kind") == "array" and i not in bad and not t["exc"] and t["content"]:      # a gathered window differs from the array
            t = copy.deepcopy(t)
            t["content"][-1] = 0
            mut.append(t)
            break
    keep = ctx.cov["traces_validated_against_impl"]
    v = validate(ctx, mut, "selftest")
    ctx.cov["traces_validated_against_impl"] = keep
    flagged = {x["index"] for x in v if x["prop"]}
    if len(flagged) != len(mut):
        raise tlc.TLCError(f"binding self-test: only {len(flagged)}/{len(mut)} corrupted traces were rejected")
    ctx.cov["selftest_corrupted_traces_rejected"] = len(flagged)


def replay(ctx, sc):
    import logging
    os.environ["IBL_NEUROPIXEL_VERIF_TRACE"] = str(Path(ctx.scratch) / "hooktrace")
    Path(os.environ["IBL_NEUROPIXEL_VERIF_TRACE"]).mkdir(parents=True, exist_ok=True)
    logging.getLogger("ibllib").setLevel(logging.CRITICAL)
    scs = sc["scenario"] if isinstance(sc["scenario"], list) else [sc["scenario"]]
    rng = np.random.default_rng(ctx.seed)
    traces = []
    recs, masters = {}, {}
    for i, s in enumerate(scs):
        if s["rec"] not in recs:
            for _ in range(s["rec"] + 1):      # same generator stream as in run(): recording k is the k-th drawn
                pass
            recs[s["rec"]] = make_rec(ctx, s["kind"], s["ns"], rng, s["rec"])
        if str(s.get("group") or "").endswith("new") and not s.get("replayed_history"):
            # the history of this scenario: the same call on the recording that was at this path before, then the replacement
            with window(s):
                one_extract(ctx, recs[s["rec"]][0], recs[s["rec"]][1], build_train(s), s, 900 + i, {})
            recs[s["rec"]] = make_rec(ctx, s["kind"], s["ns"], rng, s["rec"])
        binf, d = recs[s["rec"]]
        if "array" in s:
            traces.append(one_array(ctx, binf, s))
            continue
        with window(s):
            t = one_extract(ctx, binf, d, build_train(s), s, i, masters.setdefault((s["rec"], s["train"], tuple(s.get("win") or DEFAULT_WIN)), {}))
        t["win"] = list(s.get("win") or DEFAULT_WIN)
        traces.append(t)
    report(ctx, scs, traces, validate(ctx, traces, "replay"))
    hs = {tuple(t["hash"]) for t in traces if t["hash"]}
    if len(scs) > 1 and len(hs) > 1:
        ctx.violation("wfs:Independent", "saved files differ between (chunk, n_jobs) settings", sc)
