"""C14 - spike features obey their ordering, extremum and equivariance laws.

1. TLC: spec/lib/Features.tla (implementation layer transcribed from ibldsp.waveforms, NumPy tie-breaking
   and NaN handling included) => property layer, exhaustively over small boxes of integer waveforms.
2. spec -> code: TLC exports every waveform of a box with the outcome the implementation layer computes
   (mc/MC_FeaturesExport.tla); each is run through the real compute_spike_features and compared.
3. code -> spec: every real execution (exported boxes, harness-enumerated boxes, realistic integer-count
   batches) is recorded step by step (find_peak, find_tip_trough, half_peak_point, recovery_point wrapped
   from here) together with the rows returned for scaled / channel-permuted / re-batched copies, and
   validated by spec/trace/FeaturesTrace.tla: property layer on the observed values -> VIOLATION,
   implementation layer -> SPEC-DRIFT.
4. projection (not TLC): the scaling / permutation / batch laws on float-valued realistic batches, all
   columns including slopes.
5. binding self-tests: corrupted records / a corrupted expected value must be flagged.

Forms of the call (FORMS below): the property quantifies over waveform batches, not over one way of handing them
over.  Besides the base execution (float64, C-contiguous, 3-D, keyword defaults) every group of waveforms is passed
again as float32 / int16 / int32 / int64, Fortran-ordered, as an axes-swapped view of an (n, trace, time) array,
as an every-other-element view of a larger array, with return_peak_channel=True, with another (fs, duration)
pair for the same offset, with values x 2**-20 (volts instead of counts), a second time as the same array
object, in a batch of the *same shape* right after the base call with the rows rotated (state that survives
between calls), and as 2-D single waveforms.  Each of these is a <<"batch", form, row, exc>> law entry of the
record: the existing clause BatchP (the features of a waveform do not depend on the batch it came in) and, when
the copy raised, nothing else judges them.

What the real call hands back is read defensively: a result that is not one row of scalar features per waveform, or a step
that leaves something else than scalars / a vector (NotARow, check_record), counts as the call not delivering its features
(Succeeds for the base execution, the law's clause for a copy); a call that returns without having gone once through the
four steps is judged on step records rebuilt from its return value (RESEQ); the float laws treat a raising / malformed copy
as the law being false.
"""
import copy
import itertools
import json
import random
import warnings
from concurrent.futures import ThreadPoolExecutor

import numpy as np

from vkit import tlc, tracecheck

NAN = 10 ** 6       # Features.tla NaNV (outside 3 x the value range)
BAD = 5 * 10 ** 8   # a reported value that is not an integer (never equal to anything the spec computes); TLC integers are
                    # 32-bit and the property layer forms 3 * value (ScaleP) and 2 * value + value (half-peak): 3 * BAD < 2**31
FIELDS = ["ptr", "pk", "pkv", "tr", "trv", "tip", "tipv", "hpost", "hpre", "hpostv", "hprev", "rec", "recv"]
COLS = {"ptr": "peak_trace_idx", "pk": "peak_time_idx", "pkv": "peak_val", "tr": "trough_time_idx",
        "trv": "trough_val", "tip": "tip_time_idx", "tipv": "tip_val", "hpost": "half_peak_post_time_idx",
        "hpre": "half_peak_pre_time_idx", "hpostv": "half_peak_post_val", "hprev": "half_peak_pre_val",
        "rec": "recovery_time_idx", "recv": "recovery_val"}
IDX = {"ptr", "pk", "tr", "tip", "hpost", "hpre", "rec"}
TRACE = ("trace/FeaturesTrace.tla", "trace/FeaturesTrace.cfg")
# other forms of the same batch (second element of a "batch" law entry; 0 = re-batched, float64 C-contiguous)
FORMS = {1: "float32 input", 2: "int16 input", 3: "int32 input", 4: "int64 input", 5: "Fortran-ordered input",
         6: "axes-swapped view of an (n, trace, time) array", 7: "every-other-element view of a larger array",
         8: "return_peak_channel=True", 9: "fs=2000.0 (a float) with the duration of the same offset",
         10: "values x 2**-20", 11: "second call on the same array object",
         12: "batch of the same shape right after the base call, rows rotated", 13: "2-D array of one waveform"}
INT_FORMS = {2: np.int16, 3: np.int32, 4: np.int64}
FORM_COUNT = {}
UNBOUND = []        # step functions of ibldsp.waveforms the recorder could not find (see Recorder)
RESEQ = []          # first sequence of recorded steps that was not once through the four steps, in order (see run_one_batch)


def _iv(x):
    x = float(x)
    if np.isfinite(x) and x == int(x) and abs(x) < BAD:
        return int(x)
    return BAD


def _ints(a):
    """float array -> nested list of ints, BAD where the value is not an integer"""
    a = np.asarray(a, dtype=float)
    ok = np.isfinite(a) & (np.abs(a) < BAD)
    a = np.where(ok, a, 0.0)
    ok &= a == np.rint(a)
    return np.where(ok, a, BAD).astype(np.int64).tolist()


def _col(df, name):
    return _ints(df[name].to_numpy())


class NotARow(Exception):
    """what the real call handed back cannot be read as one row of integer-valued features per waveform (no data frame, a
    missing column, another number of rows, cells that are lists / strings / complex ...): for the verdict the call did
    not deliver the features, i.e. it ended abnormally (clause Succeeds for the base execution, the law's own clause for a
    copy) - never an exception of the harness"""


def _is_int(v):
    return isinstance(v, int) and not isinstance(v, bool) and abs(v) <= BAD


def check_record(n, nrows, rows, evs):
    """raises NotARow unless: one data-frame row per waveform; every reported value and every field of a step event is one
    integer (BAD for a non-integer), the inverted trace of the TipTrough event a flat list of integers"""
    if nrows != n:
        raise NotARow(f"{nrows} rows for {n} waveforms")
    for row in rows:
        if len(row) != len(FIELDS) or not all(_is_int(v) for v in row):
            raise NotARow("a reported value is not a scalar")
    for ev in evs or []:
        for e in ev:
            scalars, trace = (e[1:-1], e[-1]) if e[0] == "TipTrough" else (e[1:], [])
            if not all(_is_int(v) for v in scalars) or not isinstance(trace, list) or not all(_is_int(v) for v in trace):
                raise NotARow(f"step {e[0]} left a value that is not a scalar / a trace that is not a vector")


# ------------------------------------------------------------------------------------------------
# running the real code
# ------------------------------------------------------------------------------------------------

class Recorder:
    """wraps the four pipeline steps of ibldsp.waveforms (module globals, so compute_spike_features goes
    through the wrappers) and keeps a copy of what each step returned"""
    STEPS = ["find_peak", "find_tip_trough", "half_peak_point", "recovery_point"]

    def __init__(self):
        import ibldsp.waveforms as wf
        self.wf = wf
        self.ev = []
        self.d = None

    def __enter__(self):
        missing = [n for n in self.STEPS if not callable(getattr(self.wf, n, None))]
        if missing:
            # the pipeline is no longer made of these four module-level functions (renamed / merged / inlined):
            # nothing to wrap; run_one_batch rebuilds the step records from the public return values
            if not UNBOUND:
                UNBOUND.extend(missing)
            self.orig = {}
            return self
        self.orig = {n: getattr(self.wf, n) for n in self.STEPS}
        rec = self

        def find_peak(arr_in):
            df = rec.orig["find_peak"](arr_in)
            rec.ev.append(("FindPeak", [_col(df, COLS[k]) for k in ("ptr", "pk", "pkv")]))
            return df

        def find_tip_trough(arr_peak, arr_peak_real, df):
            df, arr = rec.orig["find_tip_trough"](arr_peak, arr_peak_real, df)
            cols = [_col(df, COLS[k]) for k in ("pk", "pkv", "tr", "trv", "tip", "tipv")]
            cols.append(_col(df, "invert_sign_peak"))
            cols.append(_ints(arr))
            rec.ev.append(("TipTrough", cols))
            return df, arr

        def half_peak_point(arr_peak, df):
            df = rec.orig["half_peak_point"](arr_peak, df)
            rec.ev.append(("HalfPeak", [_col(df, COLS[k]) for k in ("hpost", "hpre", "hpostv", "hprev")]))
            return df

        def recovery_point(arr_peak, df, idx_from_trough=5):
            rec.d = max(-BAD, min(BAD, int(idx_from_trough)))     # (the record goes to TLC: 32-bit integers)
            df = rec.orig["recovery_point"](arr_peak, df, idx_from_trough=idx_from_trough)
            rec.ev.append(("Recovery", [_col(df, COLS[k]) for k in ("rec", "recv")]))
            return df

        for n, f in (("find_peak", find_peak), ("find_tip_trough", find_tip_trough),
                     ("half_peak_point", half_peak_point), ("recovery_point", recovery_point)):
            setattr(self.wf, n, f)
        return self

    def __exit__(self, *a):
        for n, f in self.orig.items():
            setattr(self.wf, n, f)


def to_float(m):
    a = np.array(m, dtype=float)
    a[a == NAN] = np.nan
    return a


def as_form(arr, form):
    """the argument handed to compute_spike_features: always a fresh array (the function overwrites NaN in its
    argument), in the requested form"""
    a = np.array(arr, dtype=float)
    if form == 1:
        a = a.astype(np.float32)
    elif form in INT_FORMS:
        a = a.astype(INT_FORMS[form])            # callers pass NaN-free integer counts within int16 only
    elif form == 5:
        a = np.asfortranarray(a)
    elif form == 6:
        a = np.swapaxes(np.ascontiguousarray(np.swapaxes(a, -1, -2)), -1, -2)
    elif form == 7:
        fill = 3.0 * float(np.max(np.abs(np.nan_to_num(a)), initial=0.0)) + 7.0     # would be the extremum if it were read
        big = np.full(a.shape[:-2] + (2 * a.shape[-2] + 1, 2 * a.shape[-1] + 1), fill)
        big[..., 1::2, 1::2] = a
        a = big[..., 1::2, 1::2]
    elif form == 10:
        a = a * 2.0 ** -20                       # exact: the values are integers below 2**53 / 2**20
    return a


def form_kwargs(d, form):
    """keyword arguments of the call for `d` samples offset.  d = None: the default arguments (fs = 30000,
    0.16 ms -> 5 samples)"""
    kw = {} if d is None else {"fs": 1000, "recovery_duration_ms": d}
    if form == 9:
        # callers pass the offset the base call was observed to use; dd / 2 * 2000.0 / 1000 is dd exactly, whatever
        # way the code turns the duration into samples
        dd = 5 if d is None else d
        kw = {"fs": 2000.0, "recovery_duration_ms": dd / 2.0}
    if form == 8:
        kw["return_peak_channel"] = True
    return kw


def call(arr, d, form=0):
    """compute_spike_features on a fresh copy of `arr` in the given form (FORMS); d samples offset"""
    import ibldsp.waveforms as wf
    arg = as_form(arr, form)
    kw = form_kwargs(d, form)
    with warnings.catch_warnings():
        warnings.simplefilter("ignore")
        if form == 11:
            wf.compute_spike_features(arg, **kw)
        out = wf.compute_spike_features(arg, **kw)
    return out[0] if form == 8 else out


def synthesized_events(arr, d):
    """fallback when the four step functions cannot be wrapped: the step records are rebuilt from what the public
    call returns (the data frame and, with return_peak_channel=True, the real peak trace).  The property layer
    judges the same observed values; the implementation layer can only be compared as far as they go."""
    import ibldsp.waveforms as wf
    kw = form_kwargs(d, 0)
    with warnings.catch_warnings():
        warnings.simplefilter("ignore")
        df, real = wf.compute_spike_features(np.array(arr, dtype=float), return_peak_channel=True, **kw)
    pkv = df[COLS["pkv"]].to_numpy(dtype=float)
    real = np.asarray(real, dtype=float).reshape(len(pkv), -1)
    a = real * np.where(pkv > 0, -1.0, 1.0)[:, None]
    isg = _ints(-np.sign(pkv))
    ev = [("FindPeak", [_col(df, COLS[k]) for k in ("ptr", "pk", "pkv")]),
          ("TipTrough", [_col(df, COLS[k]) for k in ("pk", "pkv", "tr", "trv", "tip", "tipv")] + [isg, _ints(a)]),
          ("HalfPeak", [_col(df, COLS[k]) for k in ("hpost", "hpre", "hpostv", "hprev")]),
          ("Recovery", [_col(df, COLS[k]) for k in ("rec", "recv")])]
    return df, ev


def run_one_batch(arr, d, events, form=0):
    """-> (rows, evs, dobs): rows[i] = the 13 reported values; evs[i] = step events of waveform i.
    arr: (n, T, C), or (T, C) for the 2-D form"""
    n = arr.shape[0] if arr.ndim == 3 else 1
    if events:
        with Recorder() as r:
            try:
                if r.orig:
                    df = call(arr, d)
                    seq = [name for name, _ in r.ev]
                    if seq != NAMES:
                        # the call returned without going once through each of the four steps in order (a step skipped,
                        # inlined, done twice): the step-by-step record would be dropped as out of sequence and nothing
                        # would judge the returned values.  As when the steps cannot be wrapped at all: rebuild the step
                        # records from what the public call returns, report the drift (unbound_note)
                        if not RESEQ:
                            RESEQ.append(seq)
                        dkeep = r.d
                        df, r.ev = synthesized_events(arr, d)
                        r.d = dkeep if dkeep is not None else (5 if d is None else d)
                else:
                    df, r.ev = synthesized_events(arr, d)
                    r.d = 5 if d is None else d
            except Exception as e:
                e._c14_events = r.ev
                e._c14_d = r.d
                raise
        evs = [[[name] + [c[i] for c in cols] for name, cols in r.ev] for i in range(n)]
        dobs = r.d
    else:
        df = call(arr, d, form)
        evs, dobs = None, None
    back = 2.0 ** 20 if form == 10 else 1.0
    cols = {k: (_col(df, COLS[k]) if k in IDX else _ints(df[COLS[k]].to_numpy(dtype=float) * back)) for k in FIELDS}
    rows = [[cols[k][i] for k in FIELDS] for i in range(n)]
    check_record(n, len(df), rows, evs)
    return rows, evs, dobs


class Budget:
    def __init__(self, n):
        self.left = n
        self.skipped = 0


def robust(mats, d, events, budget, form=0):
    """features of each waveform of `mats` (same shape), computed in one batch; when the batch raises it is
    bisected until the raising waveforms are isolated.  -> list of dict(row, ev, exc, d) (None = skipped
    because the attribution budget is exhausted).  form: see FORMS (13 = one 2-D call per waveform)"""
    out = [None] * len(mats)
    arrs = [to_float(m) for m in mats]
    if form:
        FORM_COUNT[form] = FORM_COUNT.get(form, 0) + len(mats)
    if form == 13:
        for i, a in enumerate(arrs):
            try:
                rows, _, _ = run_one_batch(a, d, False, form)
                out[i] = {"row": rows[0], "ev": None, "exc": "", "d": None}
            except Exception as e:
                out[i] = {"row": [], "ev": [], "exc": type(e).__name__, "d": None}
        return out

    def rec(idx):
        if not idx:
            return
        try:
            rows, evs, dobs = run_one_batch(np.stack([arrs[i] for i in idx]), d, events, form)
            for j, i in enumerate(idx):
                out[i] = {"row": rows[j], "ev": evs[j] if evs else None, "exc": "", "d": dobs}
        except Exception as e:
            if len(idx) == 1:
                ev = []
                for name, cols in getattr(e, "_c14_events", []):
                    # the steps recorded before the call raised (as far as each left one scalar per field)
                    try:
                        one = [name] + [c[0] for c in cols]
                        check_record(1, 1, [], [[one]])
                    except (NotARow, IndexError, TypeError):
                        break
                    ev.append(one)
                out[idx[0]] = {"row": [], "ev": ev, "exc": type(e).__name__, "d": getattr(e, "_c14_d", None)}
                budget.left -= 1
                return
            if budget.left <= 0:
                budget.skipped += len(idx)
                return
            h = len(idx) // 2
            rec(idx[:h])
            rec(idx[h:])
    rec(list(range(len(mats))))
    return out


def offset_of(o, dd):
    """the recovery offset of a record: the one the call was observed to hand to recovery_point; when the call raised, the
    one it was asked for (Succeeds speaks about the arguments: an offset the code made up - huge, negative - must not turn
    the input into one on which raising is allowed)"""
    return o["d"] if o["d"] is not None and o["exc"] == "" else dd


def admissible_py(m):
    """grouping aid only (which waveforms may share a batch); the verdict uses Features!Admissible"""
    a = np.nan_to_num(to_float(m))
    return a.shape[0] >= 2 and np.max(np.abs(a[0])) < np.max(np.abs(a))


def evaluate(ctx, mats, d, rnd, budget, single_cap, nforms=len(FORMS), form_cap=10 ** 6, cap2d=10 ** 6):
    """all real executions for a group of same-shape waveforms -> trace records.  nforms of the FORMS (all, or that
    many drawn per group) are applied to at most form_cap (2-D single calls: cap2d) waveforms of the group each;
    form 12 always takes the whole group (it needs the shape of the base call)"""
    mats = list(mats)
    T, C = len(mats[0]), len(mats[0][0])
    dd = 5 if d is None else d
    adm = [i for i, m in enumerate(mats) if admissible_py(m) and dd < T]
    aset = set(adm)
    oth = [i for i in range(len(mats)) if i not in aset]
    rnd.shuffle(oth)
    oth = oth[:single_cap]
    recs = []
    # inputs on which the call may legitimately raise: one call each
    for i in oth:
        o = robust([mats[i]], d, True, Budget(10 ** 9))[0]
        recs.append({"w": mats[i], "d": offset_of(o, dd), "exc": o["exc"], "ev": o["ev"], "ret": o["row"], "laws": []})
    if adm:
        sel = [mats[i] for i in adm]
        base = robust(sel, d, True, budget)
        n = len(sel)
        forms = sorted(FORMS) if nforms >= len(FORMS) else sorted(rnd.sample(sorted(FORMS), nforms))
        flaws = {i: [] for i in range(n)}
        fb = Budget(40)         # attribution of raising copies, apart from the budget of the base executions
        if 12 in forms:
            # right after the base call: a batch of the same shape whose rows are other waveforms (anything the code
            # keeps between calls, keyed by shape or not at all, now belongs to another waveform)
            k = n // 2 + 1 if n > 1 else 0
            rot = [(i + k) % n for i in range(n)]
            for i, o in zip(rot, robust([sel[i] for i in rot], d, False, fb, form=12)):
                if o is not None:
                    flaws[i].append(["batch", 12, o["row"], o["exc"]])
        for f in forms:
            if f == 12:
                continue
            elig = [i for i in range(n) if base[i] is not None and base[i]["exc"] == ""
                    and (f not in INT_FORMS or not any(v == NAN for row in sel[i] for v in row))]
            cap = min(form_cap, cap2d) if f == 13 else form_cap
            pick = sorted(rnd.sample(elig, cap)) if len(elig) > cap else elig
            if not pick:
                continue
            dform = d
            if f == 9:
                dobs = [base[i]["d"] for i in pick if base[i]["d"] is not None]
                dform = dobs[0] if dobs else dd
            for i, o in zip(pick, robust([sel[i] for i in pick], dform, False, fb, form=f)):
                if o is not None:
                    flaws[i].append(["batch", f, o["row"], o["exc"]])
        # the same waveforms in other batches: reversed order, split in two unequal parts
        cut = max(1, n // 3)
        order = list(range(n))[::-1]
        alt = [None] * n
        for part in (order[:cut], order[cut:]):
            if part:
                for i, o in zip(part, robust([sel[i] for i in part], d, False, budget)):
                    alt[i] = o
        sc = {c: robust([scale(m, c) for m in sel], d, False, budget) for c in (2, 3)}
        perms = [rnd.sample(range(C), C) for _ in sel] if C > 1 else None
        pm = robust([[[row[j] for j in p] for row in m] for m, p in zip(sel, perms)], d, False, budget) if perms else None
        for i, m in enumerate(sel):
            o = base[i]
            if o is None:
                continue
            laws = []
            if o["exc"] == "":
                for c in (2, 3):
                    if sc[c][i] is not None:
                        laws.append(["scale", c, sc[c][i]["row"], sc[c][i]["exc"]])
                if pm is not None and pm[i] is not None:
                    laws.append(["perm", [j + 1 for j in perms[i]], pm[i]["row"], pm[i]["exc"]])
                if alt[i] is not None:
                    laws.append(["batch", 0, alt[i]["row"], alt[i]["exc"]])
                laws += flaws[i]
            recs.append({"w": m, "d": offset_of(o, dd), "exc": o["exc"], "ev": o["ev"], "ret": o["row"], "laws": laws})
    ctx.count(len(recs) * 4)
    return recs


def scale(m, c):
    return [[v if v == NAN else c * v for v in row] for row in m]


# ------------------------------------------------------------------------------------------------
# inputs
# ------------------------------------------------------------------------------------------------

def box(T, C, vals):
    for flat in itertools.product(vals, repeat=T * C):
        yield [list(flat[t * C:(t + 1) * C]) for t in range(T)]


def harness_boxes(ctx):
    """(T, C, values, d list, sample size or None = all) enumerated here; same shape as the model's boxes"""
    if ctx.quick:
        return [(5, 1, range(-3, 4), [1, 2], 6000), (4, 2, range(-2, 3), [1, 3], 3000),
                (3, 3, [-1, 0, 1, NAN], [1], 1500)]
    return [(5, 1, range(-3, 4), [0, 4], None), (6, 1, range(-3, 4), [1, 2, 5], 25000),
            (4, 2, range(-2, 3), [1, 3], 30000), (3, 2, range(-3, 4), [1, 2], 15000),
            (3, 3, [-1, 0, 1, NAN], [1, 2], 10000), (7, 1, range(-2, 3), [1, 3, 6], 12000)]


_TEMPLATE = {}


def template():
    if "t" not in _TEMPLATE:
        from neurowaveforms.model import generate_waveform
        _TEMPLATE["t"] = np.asarray(generate_waveform(), dtype=float).T     # (121, 40) time x trace
    return _TEMPLATE["t"]


def gauss(t, mu, s):
    return np.exp(-0.5 * ((t - mu) / s) ** 2)


def realistic_float(rnd, nrnd, T, C, p):
    """one realistic multi-channel spike, float, time x trace, main deflection near sample p"""
    kind = rnd.choice(["model", "model", "biphasic", "triphasic", "weakpos"])
    t = np.arange(T, dtype=float)
    c0 = rnd.randrange(C)
    pol = rnd.choice([-1.0, 1.0])
    amp = rnd.choice([40.0, 120.0, 400.0, 1500.0])
    if kind == "model":
        tpl = template()
        sel = np.arange(C) + rnd.randint(0, 40 - C)
        stretch = rnd.choice([0.5, 0.75, 1.0, 1.5])
        src = (t - p) * (1.0 / stretch) + 42.0          # template extremum is at sample 42
        w = np.stack([np.interp(src, np.arange(121.0), tpl[:, k], left=0.0, right=0.0) for k in sel], axis=1)
        w = w / max(np.max(np.abs(w)), 1e-12) * amp * pol
    else:
        s1 = rnd.uniform(1.0, 4.0)
        decay = np.exp(-np.abs(np.arange(C) - c0) / rnd.uniform(1.0, 6.0))
        delay = (np.arange(C) - c0) * rnd.uniform(-0.3, 0.3)
        cols = []
        for k in range(C):
            mu = p + delay[k]
            v = -gauss(t, mu, s1)
            if kind in ("biphasic", "triphasic"):
                v = v + rnd.uniform(0.2, 0.7) * gauss(t, mu + rnd.uniform(2, 5) * s1, rnd.uniform(1.5, 3) * s1)
            if kind == "triphasic":
                v = v + rnd.uniform(0.1, 0.4) * gauss(t, mu - rnd.uniform(2, 4) * s1, s1)
            if kind == "weakpos":
                v = -v - rnd.uniform(0.6, 1.0) * gauss(t, mu + rnd.uniform(2, 5) * s1, rnd.uniform(1, 2) * s1)
            cols.append(v * decay[k])
        w = np.stack(cols, axis=1) * amp * (1.0 if kind == "weakpos" else pol)
    w = w + nrnd.normal(0.0, amp * rnd.choice([0.0, 0.01, 0.05, 0.15]), size=w.shape)
    # unfiltered data: a baseline that is not zero (common to all traces, or one per trace)
    r = rnd.random()
    if r < 0.2:
        w = w + rnd.choice([-1.0, 1.0]) * rnd.uniform(0.05, 0.4) * amp
    elif r < 0.3:
        w = w + nrnd.uniform(-0.3, 0.3, size=(1, C)) * amp
    return w


def realistic_cases(ctx, rnd, nrnd, n, maxcells):
    """-> list of float arrays (T, C) with NaN-padded traces; T 10..200, C 1..40, extremum positions
    sweeping the whole window including the last samples"""
    out = []
    while len(out) < n:
        T = rnd.choice([10, 11, 12, 16, 25, 40, 64, 82, 121, 128, 200, rnd.randint(10, 200)])
        C = rnd.choice([1, 2, 3, 4, 8, 16, 32, 40, rnd.randint(1, 40)])
        if T * C > maxcells:
            continue
        where = rnd.random()
        if where < 0.35:
            p = T - 1 - rnd.randint(0, 7)                # last samples
        elif where < 0.45:
            p = rnd.randint(1, 4)
        else:
            p = rnd.randint(1, T - 1)
        w = realistic_float(rnd, nrnd, T, C, max(1, p))
        if C > 1 and rnd.random() < 0.3:
            k = rnd.randint(1, max(1, C // 2))
            cols = list(range(C - k, C)) if rnd.random() < 0.7 else rnd.sample(range(C), k)
            w[:, cols] = np.nan
        out.append(w)
    return out


def to_counts(w):
    m = np.rint(w)
    m = np.clip(m, -30000, 30000)
    return [[NAN if np.isnan(v) else int(v) for v in row] for row in m]


# ------------------------------------------------------------------------------------------------
# validation
# ------------------------------------------------------------------------------------------------

NAMES = ["FindPeak", "TipTrough", "HalfPeak", "Recovery"]


def nstates(t):
    n = 1
    for k, e in enumerate(t["ev"]):
        n += 1
        if k >= len(NAMES) or e[0] != NAMES[k]:
            return n + 1                      # abort, report
    return n + 2                              # return / raise, report


def wkey(t):
    return json.dumps([t["w"], t["d"]])


def validate(ctx, recs, label, jvms=4):
    verdicts = tracecheck.validate(ctx, TRACE[0], TRACE[1], recs, label=label, jvms=jvms, workers=2,
                                   nstates=nstates, timeout=1500)
    ndrift = 0
    for v in verdicts:
        t = recs[v["index"]]
        if not v["prop"] and v["impl"]:
            ndrift += 1
            if ndrift > 8:
                continue
        report(ctx, t, v, label)
    if ndrift > 8:
        ctx.spec_drift(f"... {ndrift - 8} further executions of [{label}] differ from the implementation layer of spec/lib/Features.tla")
    return verdicts


def report(ctx, t, v, label):
    T, C = len(t["w"]), len(t["w"][0])
    small = json.dumps(t["w"]) if T * C <= 40 else f"{T}x{C} waveform"
    if v["prop"]:
        clause = v["prop"].split(":")[0].lower()
        which = ""
        if clause == "batch":
            diff = [(FORMS.get(l[1], "another batch") + (f" raised {l[3]}" if l[3] else f" gave {dict(zip(FIELDS, l[2]))}"))
                    for l in t["laws"] if l[0] == "batch" and (l[3] or list(l[2]) != list(t["ret"]))]
            which = "; the same waveform as " + " / ".join(diff[:3]) if diff else ""
        ctx.violation("feat:" + clause, f"compute_spike_features({small}, offset {t['d']}): property-layer clause "
                      f"{v['prop']} false on the observed values {dict(zip(FIELDS, t['ret'])) if t['ret'] else t['exc']}{which} [{label}]",
                      {"kind": "int", "w": t["w"], "d": t["d"], "laws": [l[:2] for l in t["laws"]]})
    elif v["impl"]:
        ctx.spec_drift(f"compute_spike_features({small}, offset {t['d']}): step {v['impl']} is not the step of "
                       f"spec/lib/Features.tla (all property-layer clauses hold) [{label}]")


def unbound_note(ctx):
    if RESEQ:
        ctx.spec_drift(f"compute_spike_features no longer goes once through find_peak, find_tip_trough, half_peak_point, "
                       f"recovery_point in this order (steps recorded during a call that returned: {RESEQ[0]}): the step records "
                       f"were rebuilt from the returned data frame and peak trace (property layer judged on those)")
    if UNBOUND:
        ctx.spec_drift(f"ibldsp.waveforms no longer has the step function(s) {', '.join(UNBOUND)} that spec/lib/Features.tla "
                       f"transcribes: the step records were rebuilt from the returned data frame and peak trace "
                       f"(property layer judged on those; the implementation layer is compared as far as they go)")


def _t(ctx, what):
    import time
    now = time.time()
    ctx.log(f"[C14] {what}: +{now - getattr(ctx, '_c14_t', ctx.t0):.1f}s")
    ctx._c14_t = now


def run(ctx):
    ctx.level = "model_checking"
    rnd = random.Random(ctx.seed)
    nrnd = np.random.default_rng(ctx.seed)
    FORM_COUNT.clear()
    del RESEQ[:]
    # 1. model: implementation layer => property layer, exhaustive boxes (parallel JVMs)
    cfgs = (["Features_quick", "Features_quick2", "Features_quickN"] if ctx.quick else
            ["Features_thorough1", "Features_thorough2", "Features_thorough3", "Features_thoroughN", "Features_quick2"])
    with ThreadPoolExecutor(max_workers=4) as ex:
        res = list(ex.map(lambda c: tlc.run("mc/MC_Features.tla", f"mc/{c}.cfg", workers=4, timeout=3000, heap="6g"), cfgs))
    model_cex = []
    for c, r in zip(cfgs, res):
        ctx.tlc(r, c)
        if not r.ok:
            st = r.error_trace[-1] if r.error_trace else {}
            model_cex.append((c, r.invariant_violated, st))
    # vacuity control by reachability (TLC's -coverage exhausts the heap on the recursive operators of this module): the states
    # the invariants speak about (admissible & done; raised) must be reachable, which takes every action of the pipeline.
    # And the model of the tree before the fix: commits must reproduce both defects (the spec can tell them apart).
    for cfg, inv in (("Features_reach_NoAdmissibleDone", "NoAdmissibleDone"), ("Features_reach_NoRaise", "NoRaise"),
                     ("Features_orig", "Half"), ("Features_orig_succeeds", "Succeeds")):
        r = tlc.run("mc/MC_Features.tla", f"mc/{cfg}.cfg", workers=2, timeout=600)
        ctx.tlc(r, cfg)
        if r.ok or r.invariant_violated != inv:
            raise tlc.TLCError(f"{cfg}: TLC should report {inv} violated (reachability / orig-variant counterexample) but reports "
                               f"{r.invariant_violated}")
    ctx.cov["orig_variant_counterexamples"] = ["Half (F7b: swapped rows stored before re-inversion)", "Succeeds (F7: trough + offset = length)"]
    _t(ctx, "model checking")
    # 2. spec -> code: exported cases with expected outcomes
    recs = []
    exported = []
    for q in (["q1", "q2"] if ctx.quick else ["t1", "t2"]):
        out = ctx.scratch / f"export_{q}.json"
        r = tlc.run("mc/MC_FeaturesExport.tla", f"mc/FeaturesExport_{q}.cfg", workers=1, timeout=900,
                    env={"OUT_FILE": str(out)})
        ctx.tlc(r, f"export_{q}")
        if not r.ok or not out.exists():
            raise tlc.TLCError(f"export {q} failed:\n{r.out[-2000:]}")
        exported += json.loads(out.read_text())
    budget = Budget(400)
    # forms of the call: every form on (a sample of) every box group; a few forms drawn per realistic shape
    fbox = {"nforms": 5 if ctx.quick else len(FORMS), "form_cap": 100 if ctx.quick else 2500, "cap2d": 4 if ctx.quick else 150}
    freal = {"nforms": 1 if ctx.quick else 4}
    groups = {}
    for k, c in enumerate(exported):
        for d in range(len(c["exp"])):
            groups.setdefault((len(c["w"]), len(c["w"][0]), d), []).append(k)
    expected = {}
    for (T, C, d), ks in sorted(groups.items()):
        rs = evaluate(ctx, [exported[k]["w"] for k in ks], d, rnd, budget, 60 if ctx.quick else 300, **fbox)
        for k in ks:
            expected[json.dumps([exported[k]["w"], d])] = exported[k]["exp"][d]
        recs += rs
    nexp = len(recs)
    _t(ctx, f"exported cases replayed ({nexp})")
    mism = compare_expected(recs, expected)
    ctx.cov["spec_to_code_cases"] = nexp
    # 3. code -> spec on further boxes
    for T, C, vals, ds, cap in harness_boxes(ctx):
        allw = box(T, C, list(vals))
        if cap is None:
            ws = list(allw)
        else:
            total = len(list(vals)) ** (T * C)
            pick = set(rnd.sample(range(total), min(cap, total)))
            ws = [w for i, w in enumerate(allw) if i in pick]
        for d in ds:
            recs += evaluate(ctx, ws, d, rnd, budget, 40 if ctx.quick else 200, **fbox)
    _t(ctx, f"harness boxes ({len(recs) - nexp})")
    # realistic integer-count batches through the default arguments (5 samples offset)
    nreal = 500 if ctx.quick else 5000
    real = realistic_cases(ctx, rnd, nrnd, nreal, 1600 if ctx.quick else 8000)
    byshape = {}
    for w in real:
        byshape.setdefault(w.shape, []).append(to_counts(w))
    real_recs = []
    for shape, ms in byshape.items():
        # mostly the default arguments (5 samples); otherwise another offset that fits the window
        dreal = None if rnd.random() < 0.6 else rnd.choice([x for x in (0, 1, 2, 8, 15, 30, shape[0] - 2, shape[0] - 1)
                                                            if x < shape[0]])
        real_recs += evaluate(ctx, ms, dreal, rnd, budget, 10 ** 6, **freal)
    ctx.cov["realistic_int_waveforms"] = len(real_recs)
    ctx.cov["copies_in_other_forms"] = {FORMS[f]: FORM_COUNT.get(f, 0) for f in sorted(FORMS)}
    for t in recs + real_recs:
        ctx.count(0, key=hash(wkey(t)) if t["exc"] == "" and t["laws"] else None)
    if budget.skipped:
        ctx.log(f"[C14] {budget.skipped} waveforms of raising batches not attributed (budget); verdict rests on the others")
    unbound_note(ctx)
    _t(ctx, f"realistic executions ({len(real_recs)})")
    rnd.shuffle(recs)
    verdicts = validate(ctx, recs, "boxes")
    _t(ctx, "boxes validated")
    if real_recs:
        validate(ctx, real_recs, "realistic")
    _t(ctx, "realistic validated")
    bad = {wkey(recs[v["index"]]) for v in verdicts}
    for key, exp, got in mism:
        if key not in bad:
            raise tlc.TLCError(f"spec->code: exported expectation {exp} differs from the real outcome {got} for {key} but "
                               f"the trace spec accepted that execution: the two bindings disagree")
    for c, inv, st in model_cex:
        replay_model_cex(ctx, c, inv, st)
    # 4. projection: laws on float-valued batches, all columns
    float_laws(ctx, real, rnd, full=not ctx.quick)
    for t in (recs[:2] + real_recs[:1]):
        ctx.sample({"w": t["w"] if len(t["w"]) * len(t["w"][0]) <= 40 else f"{len(t['w'])}x{len(t['w'][0])}",
                    "offset": t["d"], "reported": dict(zip(FIELDS, t["ret"])), "exc": t["exc"],
                    "laws": [l[:2] for l in t["laws"]]})
    _t(ctx, "float laws")
    # 5. binding self-tests
    selftest(ctx, recs, {v["index"] for v in verdicts}, expected)
    ctx.cov["rule"] = ("model: every integer waveform of the boxes (lengths 2..MaxT, values, 1-3 traces, NaN samples), every "
                       "recovery offset; spec->code: every exported case x offset replayed; code->spec: one recorded real "
                       "execution (4 step events + returned row + scaled x2,x3 / permuted / re-batched copies + copies handed "
                       "over in the other forms of FORMS: element types, memory layouts, 2-D, options, second call, same "
                       "shape next call) per waveform; non-trivial = admissible-looking waveform that returned and has law copies")
    ctx.cov["exhaustive"] = True
    ctx.cov["numeric_postconditions"] = ("scaling (x0.5, x2, x4), permutation and batch laws on float-valued realistic batches "
                                         "incl. slopes/durations/ratio are decided by projection (rtol 1e-9), not by TLC")
    ctx.assumptions += ["waveform values are integers (ADC counts) in everything TLC decides; |v| <= 30000",
                        "half-peak: a sample exactly at half the peak may or may not count as 'back within half'",
                        "permutation law demanded only when a single trace carries the global extremum",
                        "integer element types are exercised on NaN-free waveforms within int16; a read-only array is not "
                        "accepted by the unchanged code (it zeroes NaN in its argument) and is not demanded",
                        "precondition 'largest deflection not on the first sample' read as: no trace attains the global "
                        "|maximum| at sample 0; recovery offset < length"]


def compare_expected(recs, expected):
    """spec -> code comparison (python side): [(key, expected, observed)] for disagreeing cases"""
    mism = []
    for t in recs:
        key = wkey(t)
        exp = expected.get(key)
        if exp is None:
            continue
        if exp["exc"] != t["exc"]:
            mism.append((key, exp["exc"] or "returns", t["exc"] or "returns"))
        elif exp["exc"] == "" and [exp[k] for k in FIELDS] != t["ret"]:
            mism.append((key, {k: exp[k] for k in FIELDS}, dict(zip(FIELDS, t["ret"]))))
    return mism


def float_laws(ctx, real, rnd, full=True):
    """full: every extra factor / element type on every shape; otherwise one far factor on a quarter of the shapes and
    float32 on a seventh"""
    byshape = {}
    for w in real:
        a = np.nan_to_num(w)
        if np.max(np.abs(a[0])) < np.max(np.abs(a)) and w.shape[0] > 5:
            byshape.setdefault(w.shape, []).append(w)
    n = 0
    valcols = [c for c in COLS.values() if c.endswith("_val")] + ["depolarisation_slope", "repolarisation_slope", "recovery_slope"]
    for shape, ws in byshape.items():
        arr64 = np.stack(ws)
        C = shape[1]
        nz = np.abs(arr64[np.nan_to_num(arr64) != 0])
        # factors that are exact in binary floating point; the far ones (volts instead of counts, and back) only when
        # no sample is so small that the product would lose bits
        far = [c for c in (2.0 ** -20, 2.0 ** 20) if nz.size and nz.min() > 1e-200]
        if not full and far:
            far = [rnd.choice(far)] if rnd.random() < 0.25 else []
        kinds = [(np.float64, [0.5, 2.0, 4.0] + far, True)]
        if full or rnd.random() < 0.15:
            kinds.append((np.float32, [2.0], False))
        for dtype, factors, with_perm in kinds:
            arr = arr64.astype(dtype)
            form = 0 if dtype is np.float64 else 1          # call() hands the batch over as float64 / float32
            tag = "" if dtype is np.float64 else f" ({np.dtype(dtype).name})"

            def broken(what, i, text, scale_c=1.0):
                ctx.violation("feat:" + what + "-float", f"{what} law (projection){tag}: {text}"
                              + (f" (factor {scale_c!r})" if what == "scale" else ""),
                              {"kind": "float", "law": what, "w": np.where(np.isnan(ws[i]), None, ws[i]).tolist()})
            try:
                base = call(arr, None, form)
            except Exception:
                continue        # an integer-count twin of this batch is judged by the trace spec
            try:
                basecols = {col: base[col].to_numpy(dtype=float) for col in base.columns}
                if any(v.shape != (len(ws),) for v in basecols.values()):
                    raise NotARow(f"not one value per waveform ({len(base)} rows)")
            except Exception as e:
                # the call returned, but not one row of numbers for each waveform of the batch: no waveform has its features
                broken("batch", 0, f"the call on a {shape} batch of {len(ws)} returned something that is not one row of numbers "
                       f"per waveform: {type(e).__name__}: {str(e)[:100]}")
                continue
            n += len(ws)

            def cmp(copy_arr, what, scale_c=1.0, ptr_map=None, order=None, form=form):
                """the copy is run through the real code and compared column by column; a copy on which the call raises,
                or that comes back without a column / with another number of rows / with cells that are no numbers, does
                not have the features the law demands"""
                try:
                    df = call(copy_arr, None, form)
                    if order is not None:
                        df = df.iloc[np.argsort(order)].reset_index(drop=True)
                    got = {col: df[col].to_numpy(dtype=float) for col in basecols}
                    if any(v.shape != (len(ws),) for v in got.values()):
                        raise NotARow("not one value per waveform")
                except Exception as e:
                    broken(what, 0, f"the base batch {shape} returned its features, the copy did not: {type(e).__name__}: "
                           f"{str(e)[:100]}", scale_c)
                    return
                for col, a in basecols.items():
                    b = got[col]
                    if col == "peak_trace_idx" and ptr_map is not None:
                        # a reported trace that is no trace of the waveform maps to none (NaN: never equal)
                        a = np.array([ptr_map[i].get(int(v), np.nan) if np.isfinite(v) else np.nan for i, v in enumerate(a)], dtype=float)
                        a = np.where(np.isnan(a), np.inf, a)
                    if col in valcols:
                        a = a * scale_c
                    ok = np.isclose(a, b, rtol=1e-9 if dtype is np.float64 else 1e-5, atol=0.0, equal_nan=True) | ((a == b))
                    if not np.all(ok):
                        i = int(np.where(~ok)[0][0])
                        broken(what, i, f"column {col} of waveform {i} of a {shape} batch is {b[i]!r}, required {a[i]!r}", scale_c)
                        return
            for c in factors:
                cmp(arr * dtype(c), "scale", scale_c=c)
            order = list(range(len(ws)))[::-1]
            cmp(arr[order], "batch", order=order)
            if C > 1 and with_perm:
                uniq = [np.sum(np.max(np.abs(np.nan_to_num(w)), axis=0) == np.max(np.abs(np.nan_to_num(w)))) == 1 for w in ws]
                if all(uniq):
                    perms = [rnd.sample(range(C), C) for _ in ws]
                    parr = np.stack([w[:, p] for w, p in zip(ws, perms)])
                    inv = [{old: new for new, old in enumerate(p)} for p in perms]
                    cmp(parr, "permutation", ptr_map=inv, form=0)
    ctx.count(n * 6)
    ctx.cov["float_law_waveforms"] = n


# ------------------------------------------------------------------------------------------------
# self-tests, counterexamples, replay
# ------------------------------------------------------------------------------------------------

def selftest(ctx, recs, bad, expected):
    cands = [t for i, t in enumerate(recs) if i not in bad and t["exc"] == "" and len(t["ev"]) == 4 and admissible_py(t["w"])
             and t["d"] < len(t["w"]) and any(l[0] == "scale" for l in t["laws"]) and any(l[0] == "batch" for l in t["laws"])
             and t["ret"][FIELDS.index("rec")] >= 1][:60]
    if len(cands) < 14:
        if ctx.violations or ctx.drift:
            ctx.log("[C14] binding self-test skipped: too few accepted executions on this tree (violations / drift reported above)")
            return
        raise tlc.TLCError("selftest: not enough accepted executions")
    mut, want = [], []
    NK = 8
    for j, t0 in enumerate(cands[:4 * NK]):
        t = copy.deepcopy(t0)
        kind = j % NK
        if kind == 0:
            t["ev"][1][5] = t["ev"][1][1]              # tip := peak index  -> Order
            want.append("prop")
        elif kind == 1:
            t["ev"][3][1] -= 1                          # recovery index      -> Recovery
            want.append("prop")
        elif kind == 2:
            del t["ev"][2]                              # HalfPeak event dropped -> Sequence
            want.append("impl")
        elif kind == 3:
            law = next(l for l in t["laws"] if l[0] == "scale")
            law[2] = list(law[2])
            law[2][FIELDS.index("pk")] += 1             # index moved under scaling -> Scale
            want.append("prop")
        elif kind == 4:
            t["ret"] = list(t["ret"])
            t["ret"][FIELDS.index("hpre")] += 1         # returned row differs from the steps -> Return
            want.append("impl")
        elif kind == 5:
            t["ev"][1][2] += 1                          # peak value not the trace's value -> Peak
            want.append("prop")
        elif kind == 6:
            t["exc"] = "IndexError"                     # the call raised on an admissible input -> Succeeds
            t["ev"] = t["ev"][:3]
            t["ret"], t["laws"] = [], []
            want.append("prop")
        else:
            # the copy handed over in another form raised / came back with another half-peak point -> Batch
            law = next((l for l in t["laws"] if l[0] == "batch" and l[1] != 0), None) or next(l for l in t["laws"] if l[0] == "batch")
            if j % (2 * NK) < NK:
                law[2], law[3] = [], "ValueError"
            else:
                law[2] = list(law[2])
                law[2][FIELDS.index("hpostv")] += 1
            want.append("prop")
        mut.append(t)
    keep = ctx.cov["traces_validated_against_impl"]
    v = tracecheck.validate(ctx, TRACE[0], TRACE[1], mut, label="selftest", jvms=1, nstates=nstates)
    ctx.cov["traces_validated_against_impl"] = keep
    got = {x["index"]: x for x in v}
    for i, wnt in enumerate(want):
        x = got.get(i)
        if x is None or not x[wnt]:
            raise tlc.TLCError(f"binding self-test: corrupted record {i} (kind {i % NK}) was not flagged as {wnt}: {x}")
    ctx.cov["selftest_corrupted_records_flagged"] = len(mut)
    # spec -> code comparator: one perturbed expectation must be noticed
    t = next((t for t in recs if wkey(t) in expected and t["exc"] == "" and expected[wkey(t)]["exc"] == ""), None)
    if t is None:
        if ctx.violations or ctx.drift:
            return
        raise tlc.TLCError("selftest: no exported case returned")
    e2 = dict(expected)
    e2[wkey(t)] = dict(e2[wkey(t)], hpost=e2[wkey(t)]["hpost"] + 1)
    if not compare_expected([t], e2):
        raise tlc.TLCError("binding self-test: a perturbed expected value was not noticed by the spec->code comparison")


def parse_w(s):
    return tlc.parse_value(s)


def replay_model_cex(ctx, cfg, inv, st):
    """the model (which mirrors the code) violates the property layer: reproduce on the real code"""
    try:
        w = parse_w(st["w"])
        d = int(st.get("d", "-1"))
    except Exception as e:
        raise tlc.TLCError(f"{cfg}: model violates {inv}, counterexample not parsable: {e}")
    w = [list(r) for r in w]
    ds = [d] if d >= 0 else list(range(0, len(w)))
    hit = False
    for dd in ds:
        recs = evaluate(ctx, [w], dd, random.Random(0), Budget(100), 1)
        for v in tracecheck.validate(ctx, TRACE[0], TRACE[1], recs, label="cex", jvms=1, nstates=nstates):
            if v["prop"]:
                hit = True
                report(ctx, recs[v["index"]], v, f"model counterexample {cfg}:{inv}")
    if not hit:
        raise tlc.TLCError(f"{cfg}: model violates {inv} at w={w} but the real code does not: the model is wrong")


def replay(ctx, sc):
    if sc.get("kind") == "float":
        w = np.array([[np.nan if v is None else v for v in row] for row in sc["w"]], dtype=float)
        float_laws(ctx, [w, w[::1].copy()], random.Random(ctx.seed))
        return
    rnd = random.Random(ctx.seed)
    recs = evaluate(ctx, [sc["w"]], None if sc.get("default_args") else sc["d"], rnd, Budget(100), 1)
    # the permutation that failed, if any, is re-applied
    for l in sc.get("laws", []):
        if l[0] == "perm" and recs and recs[0]["exc"] == "":
            p = [j - 1 for j in l[1]]
            o = robust([[[row[j] for j in p] for row in sc["w"]]], sc["d"], False, Budget(10))[0]
            recs[0]["laws"] = [x for x in recs[0]["laws"] if x[0] != "perm"] + [["perm", l[1], o["row"], o["exc"]]]
    unbound_note(ctx)
    validate(ctx, recs, "replay", jvms=1)
