"""C11 - truncated or inconsistent files open and expose exactly the complete samples.

1. TLC: spec/sys/ReaderOpen.tla - the acquisition process stops at *every* byte length, the three ways of
   opening (Reader, OnlineReader, Reader on .cbin) as the code takes them; property layer (OpenSucceeds,
   Exposed, WithinFile, Duration) checked exhaustively over a box.  The pre-fix variant of the
   implementation layer must violate it (model self-test).
2. spec -> code: TLC exports every (kind, F, q, r, meta, quiet) of the box with the observables the property
   layer expects; each becomes a real file + .meta (x sampling rates) opened by the real code.
3. code -> spec: every real execution (the exported ones, the 385-channel ones with every trailing count
   0..769, sparse files of 1e6..1e9 frames, .cbin/.ch announcing fewer / more samples than the .meta, chopped
   .cbin) is one trace validated by spec/trace/ReaderOpenTrace.tla; the property layer is evaluated on what
   the constructor and the reads handed out.
4. binding self-test: corrupted copies of accepted traces must be rejected.

Numeric clause decided by projection (not by TLC): `rl * fs` and `meta.fileTimeSecs * fs` are floats; they
are projected to a frame count when within 1e-6 (relative) of an integer, else to a flag value.
"""
import copy
import json
import logging
import os
import random
import shutil
from pathlib import Path

import numpy as np

from vkit import metagen, tlc, tracecheck

MOD, CFG = "trace/ReaderOpenTrace.tla", "trace/ReaderOpenTrace.cfg"
FS_ALL = [30000, 2500, 30003.0003, 32768.5]
KIND3B = "3B2"


# ------------------------------------------------------------------------------------------
# synthesis of one recording
# ------------------------------------------------------------------------------------------
def _fts_text(m, fs):
    """fileTimeSecs as SpikeGLX writes it: positional decimal (never exponent notation)"""
    return np.format_float_positional(m / fs, unique=True, trim="-")


_META_CACHE = {}


def _meta_text(nc, m, fs):
    """metadata of an imec AP stream with nc - 1 data channels + 1 sync channel announcing m frames
    (m = -1: metadata as it is while the acquisition runs, without fileSizeBytes / fileTimeSecs)"""
    key = (nc, fs)
    if key not in _META_CACHE:
        sites = metagen.dense_sites(KIND3B)[:nc - 1]
        txt, _ = metagen.make_meta(KIND3B, sites, ns=12345, fs=fs, file_time_secs="@FTS@", file_size_bytes="@FSB@")
        _META_CACHE[key] = txt
    txt = _META_CACHE[key]
    if m < 0:
        return "\n".join(ln for ln in txt.splitlines() if "@FTS@" not in ln and "@FSB@" not in ln) + "\n"
    return txt.replace("@FTS@", _fts_text(m, fs)).replace("@FSB@", str(m * nc * 2))


def _proj_frames(x):
    """projection of a duration x fs onto a frame count: <<whole part, is whole>>"""
    if x is None:
        return -1, True
    x = float(x)
    k = int(round(x))
    if abs(x - k) <= 1e-6 * max(1.0, abs(x)):
        return k, True
    return int(np.floor(x)), False


def _selectors(q, large=False):
    if large:
        return [("slice", 0, 3), ("slice", q - 3, q + 2), ("slice", q, q + 4), ("index", -1, 0), ("index", q - 1, 0),
                ("index", q, 0), ("index", -q, 0), ("index", 0, 0)]
    return [("slice", 0, q + 3), ("slice", 0, q), ("slice", max(q - 1, 0), q + 2), ("slice", q, q + 4),
            ("slice", 1, max(q - 1, 1)), ("index", -1, 0), ("index", q - 1, 0), ("index", q, 0), ("index", -q, 0),
            ("index", -q - 1, 0), ("index", 0, 0)]


class _Sparse:
    """content of a sparse file: zeros except a few marked frames"""

    def __init__(self, q, nc, marks):
        self.q, self.nc, self.marks = q, nc, marks      # marks: {frame: row int16[nc]}

    def rows(self, a, b):
        a, b = min(a, self.q), min(b, self.q)
        out = np.zeros((max(0, b - a), self.nc), dtype=np.int16)
        for f, row in self.marks.items():
            if a <= f < b:
                out[f - a] = row
        return out


def _expected(content, q, nc, sel):
    """what NumPy returns for the selector on the array of the q complete frames of the file (None: IndexError)"""
    if sel[0] == "slice":
        a, b = sel[1], sel[2]
        if isinstance(content, _Sparse):
            return content.rows(a, b)
        return content[:q][a:b]
    i = sel[1]
    if not -q <= i < q:
        return None
    i = i % q
    if isinstance(content, _Sparse):
        return content.rows(i, i + 1)[0]
    return content[i]


def observe(binfile, case, fs, nc, content, selectors, early=None):
    """opens `binfile` with the real code and records one trace.  `early` = bytes the file holds while a Reader(open=False)
    is constructed; the file as described by `case` is put in place afterwards and the same object is opened then"""
    import spikeglx
    kind, q = case["kind"], case["q"]
    t = dict(case)
    t.setdefault("cq", -1)
    t.setdefault("cr", 0)
    t.update({"outcome": "raised", "exc": "", "ns": -1, "rows": -1, "ncok": False, "rlf": -1, "ftsq": -1,
              "ftsw": True, "reads": [], "fs": repr(fs), "nc": nc})
    cls = spikeglx.OnlineReader if kind == "online" else spikeglx.Reader
    sr = None
    try:
        if early is not None:
            final = Path(binfile).read_bytes()
            Path(binfile).write_bytes(early)
            sr = cls(binfile, sort=False, ignore_warnings=bool(case["quiet"]), open=False)
            Path(binfile).write_bytes(final)
            sr.open()
        else:
            sr = cls(binfile, sort=False, ignore_warnings=bool(case["quiet"]))
    except Exception as e:  # the property says the constructor succeeds
        t["exc"] = type(e).__name__
        if sr is not None:
            try:
                sr.close()
            except Exception:
                pass
        return t
    try:
        t["outcome"] = "opened"
        t["ns"] = int(sr.ns)
        t["rows"] = int(sr.shape[0])
        t["ncok"] = bool(sr.shape[1] == nc and sr.nc == nc)
        t["rlf"] = _proj_frames(sr.rl * fs)[0] if _proj_frames(sr.rl * fs)[1] else -2
        fts = sr.meta.get("fileTimeSecs")
        t["ftsq"], t["ftsw"] = _proj_frames(None if fts is None else fts * fs)
        s2v = sr.sample2volts
        for sel in selectors:
            exp = _expected(content, q, nc, sel)
            try:
                got = sr[slice(sel[1], sel[2])] if sel[0] == "slice" else sr[sel[1]]
            except IndexError:
                t["reads"].append([sel[0], sel[1], sel[2], -1, True])
                continue
            except Exception as e:
                t["reads"].append([sel[0], sel[1], sel[2], -3, False])
                t["exc"] = t["exc"] or f"read:{type(e).__name__}"
                continue
            got = np.asarray(got)
            rows = int(got.shape[0]) if sel[0] == "slice" else 1
            eq = False
            if exp is not None and got.shape == exp.shape:
                eq = bool(np.array_equal(got, exp.astype(np.float32) * s2v))
            t["reads"].append([sel[0], sel[1], sel[2], rows, eq])
    finally:
        sr.close()
        del sr
    return t


def make_small(folder, case, fs, rng):
    """a real file of q * F + r bytes with random content; returns (binfile, nc, content)"""
    F, q, r = case["F"], case["q"], case["r"]
    nc = F // 2
    folder = Path(folder)
    folder.mkdir(parents=True, exist_ok=True)
    data = metagen.random_int16(rng, q + 1, nc)
    data[:, -1] = rng.integers(0, 2 ** 15, size=q + 1)
    binfile = folder / "rec_g0_t0.imec0.ap.bin"
    if case["kind"] == "cbin":
        import mtscomp
        np.ascontiguousarray(data[:q]).tofile(binfile)
        cbin = binfile.with_suffix(".cbin")
        for f in (cbin, binfile.with_suffix(".ch")):
            if f.exists():
                f.unlink()
        nchunk = 5
        mtscomp.compress(binfile, cbin, binfile.with_suffix(".ch"), sample_rate=fs, n_channels=nc, dtype=np.int16,
                         chunk_duration=nchunk / fs, n_threads=1, check_after_compress=False)
        binfile.unlink()
        chop = case.get("chop", 0)
        if chop:
            rd = mtscomp.Reader()
            rd.open(cbin, binfile.with_suffix(".ch"))
            sub = folder / "chopped"
            shutil.rmtree(sub, ignore_errors=True)
            rd.chop(chop, out=sub / cbin.name)
            rd.close()
            cbin = sub / cbin.name
        binfile = cbin
    else:
        binfile.write_bytes(data.tobytes()[:q * F + r])
    binfile.with_suffix(".meta").write_text(_meta_text(nc, case["meta"], fs))
    return binfile, nc, data


def make_sparse(folder, case, fs, rng):
    """a sparse file of q * F + r bytes (q up to 1e9): zeros except the first / last frames and the trailing bytes"""
    F, q, r = case["F"], case["q"], case["r"]
    nc = F // 2
    folder = Path(folder)
    folder.mkdir(parents=True, exist_ok=True)
    binfile = folder / "big_g0_t0.imec0.ap.bin"
    marks = {f: metagen.random_int16(rng, 1, nc)[0] for f in {0, 1, q - 2, q - 1} if 0 <= f < q}
    with open(binfile, "wb") as fid:
        fid.truncate(q * F + r)
        for f, row in marks.items():
            fid.seek(f * F)
            fid.write(row.tobytes())
        if r:
            fid.seek(q * F)
            fid.write(bytes([0x7f]) * r)
    assert os.stat(binfile).st_size == q * F + r
    binfile.with_suffix(".meta").write_text(_meta_text(nc, case["meta"], fs))
    return binfile, nc, _Sparse(q, nc, marks)


def run_case(ctx, sc, rng=None):
    """scenario {case:{kind,F,q,r,meta,quiet[,chop]}, fs, sparse} -> trace"""
    rng = rng or np.random.default_rng(sc.get("seed", 0))
    case = dict(sc["case"])
    folder = Path(ctx.scratch) / "c11"
    if sc.get("sparse"):
        binfile, nc, content = make_sparse(folder, case, sc["fs"], rng)
        t = observe(binfile, case, sc["fs"], nc, content, _selectors(case["q"], large=True))
        binfile.unlink()
    else:
        mk = dict(case)
        if case.get("chop"):
            # the stream that is physically there after chopping: chop * 5 frames of the q0 compressed ones
            mk["q"] = sc["q0"]
        binfile, nc, content = make_small(folder, mk, sc["fs"], rng)
        early = None
        if case.get("cq", -1) >= 0:
            # what an early constructor saw: the same recording at another stage of writing (longer: more frames follow)
            more = metagen.random_int16(rng, case["cq"] + 1, nc)
            early = (content.tobytes() + more.tobytes())[:case["cq"] * case["F"] + case["cr"]]
        t = observe(binfile, case, sc["fs"], nc, content, _selectors(case["q"]), early=early)
    t.pop("chop", None)
    return t


def nstates(t):
    return 3 + (len(t["reads"]) if t["outcome"] == "opened" else 0)


def key_of(t, clause):
    c = clause.split(":")[0]
    area = "read" if c.startswith("Read") else "open"
    sub = ""
    if c == "OpenSucceeds":
        sub = ":" + (t["exc"] or "raised")
        if t["meta"] < 0:
            sub += ":running-acquisition-meta"
        elif t["kind"] == "offline" and 2 * t["r"] >= t["F"]:
            sub += ":trailing-part-at-least-half-a-frame"
    return f"{area}:{t['kind']}:{c}{sub}"


# ------------------------------------------------------------------------------------------
# scenario sets
# ------------------------------------------------------------------------------------------
def scenarios(ctx, exported):
    rnd = random.Random(ctx.seed)
    out = []
    # (a) spec -> code: every exported case, on one sampling rate each in quick (rotating), all in thorough
    for i, rec in enumerate(exported):
        c = rec["case"]
        rates = FS_ALL if not ctx.quick else [FS_ALL[i % len(FS_ALL)]]
        for fs in rates:
            out.append({"case": c, "fs": fs, "exp": rec["exp"], "seed": rnd.randrange(2 ** 31)})
    # (b) 385 channels: every number of trailing bytes 0..769
    F = 770
    for r in range(F):
        qs = [50] if ctx.quick else [1, 50, 51]
        for q in qs:
            metas = [q] if ctx.quick else [q, q + 3, max(q - 1, 0)]
            for m in metas:
                for kind in ("offline", "online"):
                    if ctx.quick and kind == "online" and r % 7:
                        continue
                    out.append({"case": {"kind": kind, "F": F, "q": q, "r": r, "meta": m, "quiet": bool(r % 2)},
                                "fs": FS_ALL[(r + q) % len(FS_ALL)], "seed": rnd.randrange(2 ** 31)})
        if r % (97 if ctx.quick else 11) == 0:
            out.append({"case": {"kind": "online", "F": F, "q": 50, "r": r, "meta": -1, "quiet": bool(r % 2)},
                        "fs": 30000, "seed": rnd.randrange(2 ** 31)})
        if r % (41 if ctx.quick else 7) == 0:
            # Reader(open=False) constructed at another stage of the file (matching the metadata or not), opened afterwards
            for cq, cr, m in ((50, 0, 50), (50, 0, 40), (40, r, 40), (61, 5, 50), (30, 0, 30)):
                q = 40 if cq != 40 else 47
                out.append({"case": {"kind": "offline", "F": F, "q": q, "r": r, "meta": m, "quiet": True, "cq": cq, "cr": cr},
                            "fs": FS_ALL[(r + cq) % len(FS_ALL)], "seed": rnd.randrange(2 ** 31)})
    # (c) sparse files: float rounding of round(size / 2 / nc / fs * fs) at 1e6 .. 1e9 frames
    qs = [10 ** 6, 10 ** 7, 10 ** 8, 10 ** 9, 2 ** 24 + 1, 2 ** 30 - 1]
    nrand = 6 if ctx.quick else 60
    qs += [rnd.randrange(10 ** 6, 10 ** 9) for _ in range(nrand)]
    for q in qs:
        for F in (10, 770):
            rs = [0, 1, F // 2 - 1, F // 2, F // 2 + 1, F - 1]
            if ctx.quick:
                rs = [0, rnd.choice(rs[1:3]), rnd.choice(rs[3:])]
            for r in rs:
                for fs in (FS_ALL if not ctx.quick else [rnd.choice(FS_ALL)]):
                    for kind in ("offline", "online"):
                        m = rnd.choice([q, q, q + 1, q - 1, q + rnd.randrange(1, 10 ** 5), 0])
                        out.append({"case": {"kind": kind, "F": F, "q": q, "r": r, "meta": m, "quiet": True},
                                    "fs": fs, "sparse": True, "seed": rnd.randrange(2 ** 31)})
    # (d) compressed streams announcing fewer / more samples than the metadata; chopped streams
    for F in (10, 770):
        for q0 in ([7, 23] if ctx.quick else [1, 4, 5, 6, 7, 10, 11, 23, 40]):
            for m in sorted({q0, max(q0 - 3, 0), q0 + 1, q0 + 9, 0}):
                fs = rnd.choice(FS_ALL)
                out.append({"case": {"kind": "cbin", "F": F, "q": q0, "r": 0, "meta": m, "quiet": bool((q0 + m) % 2)}, "fs": fs,
                            "seed": rnd.randrange(2 ** 31)})
            nchunks = -(-q0 // 5)
            for chop in range(1, nchunks):
                out.append({"case": {"kind": "cbin", "F": F, "q": chop * 5, "r": 0, "meta": q0, "quiet": bool(chop % 2),
                                     "chop": chop}, "q0": q0, "fs": rnd.choice(FS_ALL), "seed": rnd.randrange(2 ** 31)})
    return out


def export_cases(ctx):
    out = Path(ctx.scratch) / "readeropen_cases.json"
    cfg = "mc/ReaderOpen_quick.cfg" if ctx.quick else "mc/ReaderOpen_export.cfg"
    r = tlc.run("mc/MC_ReaderOpen.tla", cfg, workers=4, timeout=900, env={"OUT_FILE": str(out)})
    ctx.tlc(r, cfg)
    return r, (json.loads(out.read_text()) if out.exists() else [])


def _quiet_libs():
    logging.getLogger("ibllib").setLevel(logging.CRITICAL)
    import mtscomp
    mtscomp.tqdm = lambda x, **kw: x
    mtscomp.logger.setLevel(logging.CRITICAL)


def check_records(ctx, scs, trs, label):
    """direct comparison with the exported property-layer expectation + trace validation; both must agree"""
    direct = {}
    for i, (sc, t) in enumerate(zip(scs, trs)):
        exp = sc.get("exp")
        if not exp:
            continue
        if t["outcome"] != exp["outcome"]:
            direct[i] = "OpenSucceeds"
        elif t["ns"] != exp["ns"] or t["rows"] != exp["ns"]:
            direct[i] = "Exposed"
        elif t["rlf"] != exp["rlf"]:
            direct[i] = "Duration"
    verdicts = tracecheck.validate(ctx, MOD, CFG, trs, label=label, jvms=4, workers=2, nstates=nstates)
    byidx = {v["index"]: v for v in verdicts}
    for i, clause in direct.items():
        v = byidx.get(i)
        if v is None or v["prop"].split(":")[0] != clause:
            raise tlc.TLCError(f"binding disagreement on {scs[i]['case']}: replay against the exported expectation fails "
                               f"{clause}, the trace spec says {v}")
    classes, pending = {}, []
    for v in verdicts:
        i = v["index"]
        sc, t = scs[i], trs[i]
        c = t
        desc = (f"{c['kind']} reader, {c['q']} frames + {c['r']} trailing bytes of {c['F']}-byte frames, metadata announces "
                f"{c['meta'] if c['meta'] >= 0 else 'nothing yet'}, fs={t['fs']}"
                + (f", object constructed with open=False when the file held {c['cq']} frames + {c['cr']} bytes" if c.get("cq", -1) >= 0 else ""))
        if v["prop"]:
            key = key_of(t, v["prop"])
            classes[key] = classes.get(key, 0) + 1
            got = (f"raised {t['exc']}" if t["outcome"] != "opened" else
                   f"ns={t['ns']} shape[0]={t['rows']} rl*fs={t['rlf']} reads={t['reads'][max(v['pos'] - 1, 0)] if t['reads'] else []}")
            pending.append((classes[key], key, f"{desc}: property-layer clause {v['prop']} false ({got})",
                            {k: sc[k] for k in sc if k != "exp"}))
        elif v["impl"]:
            ctx.spec_drift(f"{desc}: step {v['impl']} is not a step of spec/sys/ReaderOpen.tla (every property-layer "
                           f"formula holds)")
    # one representative of every class first (only the first violations get a replay file)
    for _, key, what, sc in sorted(pending, key=lambda x: x[0]):
        ctx.violation(key, what, sc)
    for k, n in sorted(classes.items()):
        ctx.log(f"[C11] {n} real execution(s) violate the property layer in class {k}")
    return {v["index"] for v in verdicts}


def run(ctx):
    ctx.level = "model_checking"
    _quiet_libs()
    # 1. model: implementation layer => property layer, every stopping point of the writer
    cfg = "mc/ReaderOpen_quick.cfg" if ctx.quick else "mc/ReaderOpen_thorough.cfg"
    r, exported = export_cases(ctx)
    if not ctx.quick:
        r2 = tlc.run("sys/ReaderOpen.tla", cfg, workers=4, timeout=1800)
        ctx.tlc(r2, cfg)
        if not r2.ok:
            r = r2
    scs_cex = []
    if not r.ok:
        scs_cex = model_cex_scenarios(r)
    # model self-test: the implementation layer as it was before the fix: commits must violate the property layer
    ro = tlc.run("sys/ReaderOpen.tla", "mc/ReaderOpen_orig.cfg", workers=2, timeout=600)
    if ro.ok or ro.invariant_violated not in ("OpenSucceeds", "Exposed", "WithinFile"):
        raise tlc.TLCError("model self-test: the pre-fix implementation layer (round to nearest frame, KeyError in the "
                           f"mismatch message) is not rejected by the property layer: {ro.invariant_violated}")
    ctx.cov["model_selftest_orig_variant_rejected"] = ro.invariant_violated
    # 1b. the same arithmetic for unbounded frame sizes / lengths / announced counts, discharged symbolically (Apalache)
    from vkit import apalache
    if not apalache.check("apalache/ReaderOpenInd.tla", "Init", "Theorem", 0):
        raise tlc.TLCError("spec/apalache/ReaderOpenInd.tla: the unbounded form of ByteFormsAgree / Exposed / OpenSucceeds does not hold")
    ctx.cov["unbounded_theorem"] = {"tool": "apalache-mc 0.58", "statement": "for all f >= 2, q >= 1, 0 <= r < f, m >= 0: byte and frame "
                                    "forms of the size test agree, n frames fit iff n <= q, the repaired open() exposes q frames and "
                                    "does not raise (offline and online reader)"}
    # 2 + 3. real executions
    scs = scs_cex + scenarios(ctx, exported)
    rng = np.random.default_rng(ctx.seed)
    trs = []
    for sc in scs:
        t = run_case(ctx, sc, rng)
        trs.append(t)
        c = sc["case"]
        nontrivial = c["r"] != 0 or c["meta"] != c["q"]
        ctx.count(1, key=(c["kind"], c["F"], c["q"], c["r"], c["meta"], c["quiet"], sc["fs"], c.get("cq", -1), c.get("cr", 0)) if nontrivial else None)
    bad = check_records(ctx, scs, trs, "readeropen")
    if not r.ok and not (set(range(len(scs_cex))) & bad):
        raise tlc.TLCError(f"the model violates {r.invariant_violated} but the real code does not on the counterexample: "
                           f"the implementation layer of spec/sys/ReaderOpen.tla misrepresents the code")
    for t in trs[:2] + trs[-2:]:
        ctx.sample({k: t[k] for k in ("kind", "F", "q", "r", "meta", "quiet", "fs", "outcome", "exc", "ns", "rows", "rlf")}
                   | {"reads": t["reads"][:3]})
    # 4. binding self-test
    selftest(ctx, trs, bad)
    ctx.cov["rule"] = ("model: every byte length F..(MaxFrames+1)F-1 x announced frames x reader kind; real files: every "
                       "exported case (F=4,10) x sampling rates, F=770 with every trailing count 0..769, sparse files of "
                       "1e6..1e9 frames, .cbin/.ch vs .meta disagreement, chopped .cbin; non-trivial = trailing bytes "
                       "present or metadata disagreeing with the size")
    ctx.cov["exhaustive"] = True
    ctx.cov["numeric_postconditions"] = ["rl*fs and fileTimeSecs*fs projected to a frame count (1e-6 relative)",
                                         "values compared as float32(raw) * sample2volts, bit for bit"]
    ctx.assumptions += ["a physically truncated .cbin (bytes missing inside a compressed chunk) is outside: 'complete "
                        "frames physically present' is not defined for a broken zlib chunk; the compressed case is a "
                        ".ch chunk table shorter / longer than the .meta announces",
                        "metadata without fileTimeSecs (acquisition still running) is presented to OnlineReader only",
                        "growth of the file after OnlineReader was constructed is not part of the property",
                        "TLC 32-bit integers: frame counts <= 1e9, sizes are carried as (frames, trailing bytes)"]


def model_cex_scenarios(r):
    st = r.error_trace[-1] if r.error_trace else {}
    try:
        F, b = int(st["F"]), int(st["bytes"])
        case = {"kind": tlc.parse_value(st["kind"]), "F": F, "q": b // F, "r": b % F, "meta": int(st["meta"]),
                "quiet": tlc.parse_value(st["quiet"])}
        cb = int(st.get("cbytes", -1))
        if cb >= 0:
            case.update({"cq": cb // F, "cr": cb % F})
    except Exception as e:
        raise tlc.TLCError(f"model violates {r.invariant_violated}; counterexample not parsable: {e}\n{r.out[-1500:]}")
    return [{"case": case, "fs": 30000, "seed": 1}]


def selftest(ctx, trs, bad):
    cands = [i for i, t in enumerate(trs) if i not in bad and t["outcome"] == "opened" and len(t["reads"]) >= 4][:60]
    if len(cands) < 12:
        raise tlc.TLCError("selftest: not enough accepted traces")
    mut, kinds = [], []
    for j, i in enumerate(cands[:36]):
        t = copy.deepcopy(trs[i])
        k = j % 6
        if k == 0:
            t["ns"] += 1                     # one frame too many (rounding up)
            t["rows"] += 1
        elif k == 1:
            t["rows"] -= 1                   # shape disagrees with the file
        elif k == 2:
            t["rlf"] += 1                    # duration does not match the exposed count
        elif k == 3:
            t["outcome"], t["exc"], t["reads"] = "raised", "ValueError", []
        elif k == 4:
            t["reads"][1][3] += 1            # a read returned a row beyond the file
        else:
            t["reads"][0][4] = False         # values differ from the file's prefix
        mut.append(t)
        kinds.append(k)
    keep = ctx.cov["traces_validated_against_impl"]
    v = tracecheck.validate(ctx, MOD, CFG, mut, label="selftest", jvms=1, nstates=nstates)
    ctx.cov["traces_validated_against_impl"] = keep
    flagged = {x["index"] for x in v if x["prop"]}
    if len(flagged) != len(mut):
        missed = sorted({kinds[i] for i in range(len(mut)) if i not in flagged})
        raise tlc.TLCError(f"binding self-test: only {len(flagged)}/{len(mut)} corrupted traces were rejected "
                           f"(corruption kinds missed: {missed})")
    ctx.cov["selftest_corrupted_traces_rejected"] = len(flagged)


def replay(ctx, sc):
    _quiet_libs()
    t = run_case(ctx, sc)
    check_records(ctx, [sc], [t], "replay")
