"""C11 - truncated or inconsistent files open and expose exactly the complete samples.

1. TLC: spec/sys/ReaderOpen.tla - the acquisition process stops at *every* byte length, the three ways of
   opening (Reader, OnlineReader, Reader on .cbin) as the code takes them; property layer (OpenSucceeds,
   Exposed, WithinFile, Duration) checked exhaustively over a box.  The pre-fix variant of the
   implementation layer must violate it (model self-test).
2. spec -> code: TLC exports every (kind, F, q, r, meta, quiet) of the box with the observables the property
   layer expects; each becomes a real file + .meta (x sampling rates) opened by the real code.
3. code -> spec: every real execution (the exported ones, the 385-channel ones with every trailing count
   0..769, sparse files of 1e6..1e9 frames, .cbin/.ch announcing fewer / more samples than the .meta, chopped
   .cbin) is one trace validated by spec/trace/ReaderOpenTrace.tla; the property layer is evaluated on what
   the constructor and the reads handed out.
4. binding self-test: corrupted copies of accepted traces must be rejected.

Every scenario also carries an environment `env` (none of it changes what the property layer expects): the stream the
file belongs to (3B2 / 3A / NP2.4 AP, LF, nidq), how the object is obtained (Path, str, the .meta file, meta_file= /
ch_file= elsewhere, symbolic links, default keywords, a `with` block), the form of the metadata (fileSizeBytes absent /
equal to the size on disk, fileTimeSecs written with 3 decimals), stale files of other recordings next to the one
opened, another reader alive and opened in between, the API each read goes through, and the history of the object
(constructed early; an open() that failed while the file was away; opened before, with and without close(), on
another stage of the file).

Numeric clause decided by projection (not by TLC): `rl * fs` and `meta.fileTimeSecs * fs` are floats; they
are projected to a frame count when within 1e-6 (relative) of an integer, else to a flag value.

Robustness (exit 2 is not a detection): every observable of an opened reader is taken defensively.  ns / shape / nc that
are None, strings, NaN, fractions, arrays, beyond TLC's 32 bits, missing or raising are NOCOUNT (equal to no frame count:
Exposed:ns / Exposed:shape); rl / fileTimeSecs that are not finite numbers project to NOFRAMES (Duration); a read whose
result is not an array of rows (scalar, str, a missing sync part) has rows -3 and unequal values (ReadRows / ReadValues),
as has every read when sample2volts offers no per-channel factors; close() / __exit__ that raise end the opening as
`raised` with exc close:<type> (OpenSucceeds: the caller's `with` block / close raises).  Exceptions of the harness's own
logic are not caught.
"""
import copy
import functools
import json
import logging
import os
import random
from pathlib import Path

import numpy as np

from vkit import metagen, tlc, tracecheck

MOD, CFG = "trace/ReaderOpenTrace.tla", "trace/ReaderOpenTrace.cfg"
FS_ALL = [30000, 2500, 30003.0003, 32768.5]
FS_MORE = FS_ALL + [30000.0185, 2500.00154, 25000.0, 19737.0]      # drawn from where a scenario set draws its rate
KIND3B = "3B2"


# ------------------------------------------------------------------------------------------
# synthesis of one recording
# ------------------------------------------------------------------------------------------
def _fts_text(m, fs):
    """fileTimeSecs as SpikeGLX writes it: positional decimal (never exponent notation)"""
    return np.format_float_positional(m / fs, unique=True, trim="-")


_META_CACHE = {}
# stream -> (probe kind of vkit.metagen or None for nidq, metagen stream, file name)
STREAMS = {"ap": ("3B2", "ap", "rec_g0_t0.imec0.ap.bin"), "lf": ("3B2", "lf", "rec_g0_t0.imec0.lf.bin"),
           "np2": ("NP2.4", "ap", "rec_g0_t0.imec0.ap.bin"), "3A": ("3A", "ap", "rec_g0_t0.imec.ap.bin"),
           "nidq": (None, None, "rec_g0_t0.nidq.bin")}


def _meta_text(nc, m, fs, stream="ap", form="exact", size=None, fts_text=None):
    """metadata of a stream with nc - 1 data channels + 1 sync channel announcing m frames
    (m = -1: metadata as it is while the acquisition runs, without fileSizeBytes / fileTimeSecs).
    form: exact | nofsb (no fileSizeBytes key) | fsbsize (fileSizeBytes = `size`, the bytes on disk);
    fts_text: the fileTimeSecs value as written (default: the shortest decimal of m / fs)"""
    key = (nc, fs, stream)
    if key not in _META_CACHE:
        kind, mstream, _ = STREAMS[stream]
        if stream == "nidq":
            txt, _ = metagen.make_nidq_meta(0, 0, nc - 1, 1, ns=12345, fs=fs, file_time_secs="@FTS@")
            txt = txt.replace(f"fileSizeBytes={nc * 12345 * 2}\n", "fileSizeBytes=@FSB@\n")
        else:
            sites = (metagen.dense_sites(kind, nshank=4) if stream == "np2" else metagen.dense_sites(kind))[:nc - 1]
            txt, _ = metagen.make_meta(kind, sites, stream=mstream, ns=12345, fs=fs, file_time_secs="@FTS@", file_size_bytes="@FSB@")
        assert txt.count("@FTS@") == 1 and txt.count("@FSB@") == 1
        _META_CACHE[key] = txt
    txt = _META_CACHE[key]
    if m < 0:
        return "\n".join(ln for ln in txt.splitlines() if "@FTS@" not in ln and "@FSB@" not in ln) + "\n"
    if form == "nofsb":
        txt = "\n".join(ln for ln in txt.splitlines() if "@FSB@" not in ln) + "\n"
    fsb = size if (form == "fsbsize" and size is not None) else m * nc * 2
    return txt.replace("@FTS@", fts_text or _fts_text(m, fs)).replace("@FSB@", str(fsb))


TLCMAX = 2 ** 31 - 1        # TLC integers are 32-bit: what the real code hands out is projected into that range
NOCOUNT = -4                # "not a sample count" (None, a string, NaN, a fraction, an array, beyond 32 bits, raised): equals no count
NOFRAMES = (-2, False)      # a duration that is not a finite number of frames


def _proj_frames(x):
    """projection of a duration x fs onto a frame count: <<whole part, is whole>>; total: a duration that is not a
    finite real number within TLC's integers is NOFRAMES (no frame count is its projection)"""
    if x is None:
        return -1, True
    try:
        x = float(x)
    except (TypeError, ValueError, OverflowError):
        return NOFRAMES
    if not np.isfinite(x) or abs(x) >= TLCMAX:
        return NOFRAMES
    k = int(round(x))
    if abs(x - k) <= 1e-6 * max(1.0, abs(x)):
        return k, True
    return int(np.floor(x)), False


def _count(get):
    """a sample / channel count observed from the real code (`get` evaluates the attribute): the integer it is, or NOCOUNT
    when the library raised or handed out something that is not one whole number (the clauses compare it with the count of
    complete frames, which it then does not equal)"""
    try:
        v = get()
        if v is None or isinstance(v, (str, bytes, bool, np.bool_)):
            return NOCOUNT
        k = int(v)
        if not bool(k == v) or abs(k) >= TLCMAX:
            return NOCOUNT
        return k
    except Exception:
        return NOCOUNT


def _fts_frames(sr, fs):
    """projection of meta.fileTimeSecs * fs of the reader (absent key: <<-1, TRUE>>; no metadata / not a number: NOFRAMES)"""
    try:
        fts = sr.meta.get("fileTimeSecs")
        if fts is None:
            return _proj_frames(None)
        if isinstance(fts, (str, bytes, bool)):      # (read_meta_data hands numbers out as numbers)
            return NOFRAMES
        return _proj_frames(float(fts) * fs)
    except Exception:
        return NOFRAMES


def _selectors(q, large=False):
    if large:
        return [("slice", 0, 3), ("slice", q - 3, q + 2), ("slice", q, q + 4), ("index", -1, 0), ("index", q - 1, 0),
                ("index", q, 0), ("index", -q, 0), ("index", 0, 0)]
    return [("slice", 0, q + 3), ("slice", 0, q), ("slice", max(q - 1, 0), q + 2), ("slice", q, q + 4),
            ("slice", 1, max(q - 1, 1)), ("index", -1, 0), ("index", q - 1, 0), ("index", q, 0), ("index", -q, 0),
            ("index", -q - 1, 0), ("index", 0, 0)]


class _Sparse:
    """content of a sparse file: zeros except a few marked frames"""

    def __init__(self, q, nc, marks):
        self.q, self.nc, self.marks = q, nc, marks      # marks: {frame: row int16[nc]}

    def rows(self, a, b):
        a, b = min(a, self.q), min(b, self.q)
        out = np.zeros((max(0, b - a), self.nc), dtype=np.int16)
        for f, row in self.marks.items():
            if a <= f < b:
                out[f - a] = row
        return out


def _expected(content, q, nc, sel):
    """what NumPy returns for the selector on the array of the q complete frames of the file (None: IndexError)"""
    if sel[0] == "slice":
        a, b = sel[1], sel[2]
        if isinstance(content, _Sparse):
            return content.rows(a, b)
        return content[:q][a:b]
    i = sel[1]
    if not -q <= i < q:
        return None
    i = i % q
    if isinstance(content, _Sparse):
        return content.rows(i, i + 1)[0]
    return content[i]


READ_APIS_SLICE = ["getitem", "getitem2", "read", "readsync", "read_samples", "read_sync"]
READ_APIS_INDEX = ["getitem", "getitem2", "read"]
DEFAULT_READ = ("slice", 0, 10000)      # what sr.read() without arguments selects
SYNC_APIS = ("readsync", "read_samples", "read_sync", "read_default")      # calls that hand out the sync part as well


def _sync_bits(col):
    """the 16 digital lines of the sync words of an imec stream, least significant first"""
    return ((np.asarray(col).astype(np.uint16)[:, None] >> np.arange(16, dtype=np.uint16)) & 1).astype(np.int8)


def _read(sr, sel, api):
    """one read through the public API `api`: (data or None, sync or None)"""
    if sel[0] == "slice":
        sl = slice(sel[1], sel[2])
        if api == "getitem2":
            return sr[sl, :], None
        if api == "read":
            return sr.read(nsel=sl, sync=False), None
        if api == "readsync":
            return sr.read(sl)
        if api == "read_samples":
            return sr.read_samples(sel[1], sel[2])
        if api == "read_sync":
            return None, sr.read_sync(sl)
        if api == "read_default":
            assert tuple(sel) == DEFAULT_READ
            return sr.read()
        return sr[sl], None
    if api == "getitem2":
        return sr[sel[1], :], None
    if api == "read":
        return sr.read(nsel=sel[1], sync=False), None
    return sr[sel[1]], None


def _build(cls, target, aux, style, quiet, deferred):
    """the constructor call in the spelling `style`"""
    kw = {}
    if style != "default":
        kw["sort"] = False
    if quiet or style != "default":
        kw["ignore_warnings"] = bool(quiet)
    if deferred:
        kw["open"] = False
    arg = target
    if style == "str":
        arg = str(target)
    elif style == "meta":
        arg = aux["meta"]
    elif style == "metakw":
        kw["meta_file"] = aux["meta"]
    elif style == "chkw":
        kw["ch_file"] = aux["ch"]
    return cls(arg, **kw)


def _arrange(binfile, style):
    """puts the companions where `style` wants them: (path handed to the constructor, aux paths)"""
    aux, target = {}, binfile
    if style == "link":
        d = binfile.parent / "linked"
        d.mkdir(exist_ok=True)
        for f in (binfile, binfile.with_suffix(".meta"), binfile.with_suffix(".ch")):
            if f.exists():
                (d / f.name).symlink_to(f)
        target = d / binfile.name
    elif style == "metakw":
        d = binfile.parent / "elsewhere"
        d.mkdir(exist_ok=True)
        aux["meta"] = d / "header.meta"
        binfile.with_suffix(".meta").rename(aux["meta"])
    elif style == "chkw":
        d = binfile.parent / "elsewhere"
        d.mkdir(exist_ok=True)
        aux["ch"] = d / "chunks.ch"
        binfile.with_suffix(".ch").rename(aux["ch"])
    elif style == "meta":
        aux["meta"] = binfile.with_suffix(".meta")
    return target, aux


def _put(files):
    for f, b in files.items():
        Path(f).write_bytes(b)


def _do_reads(sr, selectors, apis, content, q, nc, stream):
    """-> (reads [[kind, a, b, rows observed, values equal the file]], first unexpected exception)"""
    out, exc = [], ""
    # the calibration the values are compared through is the reader's own (C01 judges it): one factor per channel; a
    # reader that has none to offer (raises, None, another length, not numbers) hands out values nobody can tie to the file
    try:
        s2v = sr.sample2volts
        if np.shape(s2v) != (nc,) or np.asarray(s2v).dtype.kind not in "fiu":
            s2v = None
    except Exception as e:
        s2v, exc = None, f"sample2volts:{type(e).__name__}"
    for j, sel in enumerate(selectors):
        api = apis[j] if apis else "getitem"
        exp = _expected(content, q, nc, sel)
        try:
            got, sy = _read(sr, sel, api)
        except IndexError:
            out.append([sel[0], sel[1], sel[2], -1, True])
            continue
        except Exception as e:
            out.append([sel[0], sel[1], sel[2], -3, False])
            exc = exc or f"read:{type(e).__name__}"
            continue
        rows, eq = -3, True
        try:        # decoding of what the library returned: anything that is not an array of rows is "no rows, other values"
            if got is not None:
                got = np.asarray(got)
                rows = (int(got.shape[0]) if got.ndim else -3) if sel[0] == "slice" else 1
                eq = False
                if exp is not None and s2v is not None and got.shape == exp.shape and got.dtype.kind in "fiu":
                    volts = exp.astype(np.float32)
                    volts *= s2v
                    eq = bool(np.array_equal(got, volts))
            if sy is None and api in SYNC_APIS:
                rows = -3       # the call hands out the sync part of the same samples: there is none
            if sy is not None:
                # the sync part of a read covers the same samples: as many rows, the bits of the sync word of each
                sy = np.asarray(sy)
                nsy = int(sy.shape[0]) if sy.ndim else -3
                if got is None:
                    rows = nsy
                elif nsy != rows:
                    rows = -3
                if stream != "nidq" and exp is not None:
                    eq = eq and bool(np.array_equal(sy, _sync_bits(exp[:, -1])))
        except (TypeError, ValueError, IndexError, AttributeError, OverflowError) as e:
            rows, eq = -3, False
            exc = exc or f"read:undecodable:{type(e).__name__}"
        out.append([sel[0], sel[1], sel[2], rows, eq])
    return out, exc


def _in_child(fn, selectors):
    """fn() evaluated in a forked copy of this process; a copy killed by a signal counts as reads that all failed"""
    import signal
    rd, wr = os.pipe()
    pid = os.fork()
    if pid == 0:
        code = 1
        try:
            signal.alarm(600)       # a read that never returns ends like one that killed the process (SIGALRM)
            os.close(rd)
            with os.fdopen(wr, "w") as fid:
                json.dump(fn(), fid)
            code = 0
        finally:
            os._exit(code)
    os.close(wr)
    with os.fdopen(rd) as fid:
        data = fid.read()
    _, status = os.waitpid(pid, 0)
    if os.WIFSIGNALED(status):
        return [[x[0], x[1], x[2], -3, False] for x in selectors], f"read:{signal.Signals(os.WTERMSIG(status)).name}"
    if not os.WIFEXITED(status) or os.WEXITSTATUS(status) != 0:
        raise tlc.TLCError("C11: the forked reader process failed")
    out, exc = json.loads(data)
    return out, exc


def observe(binfile, case, fs, nc, content, selectors, early=None, env=None, apis=None):
    """opens `binfile` with the real code and records one trace.  `early` = {file: bytes} the recording consists of at an
    earlier moment of the object's life (constructed with open=False then, or opened a first time then, see env.hist); the
    files as described by `case` are put in place afterwards and the same object is opened (again)"""
    import spikeglx
    env = env or {}
    kind, q = case["kind"], case["q"]
    style, hist, stream = env.get("style", "path"), env.get("hist", "deferred"), env.get("stream", "ap")
    t = dict(case)
    t.setdefault("cq", -1)
    t.setdefault("cr", 0)
    t.update({"outcome": "raised", "exc": "", "ns": -1, "rows": -1, "ncok": False, "rlf": -1, "ftsq": -1,
              "ftsw": True, "reads": [], "fs": repr(fs), "nc": nc,
              "env": "/".join([stream, style, env.get("form", "exact") + ("+fts3" if env.get("fts_text") else "")]
                              + [k for k in ("sib", "other") if env.get(k)] + ([hist] if early is not None else []))})
    cls = spikeglx.OnlineReader if kind == "online" else spikeglx.Reader
    binfile = Path(binfile)
    target, aux = _arrange(binfile, style)
    quiet = bool(case["quiet"])
    sr, other, entered = None, None, False
    try:
        if env.get("other"):
            other = spikeglx.Reader(env["other"], open=False)
        if early is not None:
            early = {(aux["ch"] if (Path(f).suffix == ".ch" and "ch" in aux) else f): b for f, b in early.items()}
            final = {f: Path(f).read_bytes() for f in early}
            _put(early)
            if hist in ("reopen", "reclose"):
                # opened a first time on the earlier stage of the file; what the object then holds of the duration is the
                # `meta` of the step that is judged
                sr = _build(cls, target, aux, style, quiet, False)
                t["meta"] = max(_fts_frames(sr, fs)[0], -1)      # (no number held: like no duration held)
                if hist == "reclose":
                    sr.close()
            else:
                sr = _build(cls, target, aux, style, quiet, True)
            if other is not None:
                other.open()
            if hist == "failed":
                # the file (the chunk table of a compressed file) is away while the first open() runs
                gone = aux.get("ch", binfile.with_suffix(".ch")) if kind == "cbin" else binfile
                away = gone.with_name(gone.name + ".away")
                if gone.exists():
                    gone.rename(away)
                try:
                    sr.open()
                except Exception:
                    pass
                if away.exists():
                    away.unlink()
            _put(final)
            if style == "with" and hist == "deferred":
                sr.__enter__()
                entered = True
            else:
                sr.open()
        elif style == "with":
            sr = _build(cls, target, aux, style, quiet, True)
            if other is not None:
                other.open()
            sr.__enter__()
            entered = True
        else:
            sr = _build(cls, target, aux, style, quiet, False)
            if other is not None:
                other.open()
    except Exception as e:  # the property says the constructor succeeds
        t["exc"] = type(e).__name__
        for o in (sr, other):
            if o is not None:
                try:
                    o.close()
                except Exception:
                    pass
        return t
    try:
        t["outcome"] = "opened"
        # every observable is taken defensively: what the real code hands out is compared with the count of complete
        # frames; a value that is no count (None, NaN, a string, an array, a property that raises) equals none
        t["ns"] = _count(lambda: sr.ns)
        t["rows"] = _count(lambda: tuple(sr.shape)[0])
        t["ncok"] = bool(_count(lambda: len(tuple(sr.shape))) == 2 and _count(lambda: tuple(sr.shape)[1]) == nc
                         and _count(lambda: sr.nc) == nc)
        try:
            rlx = float(sr.rl) * fs
        except Exception:     # a duration that is not a number (or cannot be had) matches no sample count
            rlx = 0.5
        t["rlf"] = _proj_frames(rlx)[0] if _proj_frames(rlx)[1] else -2
        t["ftsq"], t["ftsw"] = _fts_frames(sr, fs)
        reads = functools.partial(_do_reads, sr, selectors, apis, content, q, nc, stream)
        # an object that was opened before may, after a change of open(), still look at the map of the earlier stage of the
        # file (closed, or longer than the file now is): touching it kills the interpreter instead of raising, so these
        # reads are made by a forked copy of this process
        t["reads"], exc = _in_child(reads, selectors) if (early is not None and hist in ("reopen", "reclose")) else reads()
        t["exc"] = t["exc"] or exc
    finally:
        # leaving the `with` block / closing is the end of the opening: a reader (or the bystander) that cannot be closed
        # raised in the caller's hands all the same (OpenSucceeds:close:<exception>)
        cexc = ""
        for o, how in ((sr, "__exit__" if entered else "close"), (other, "close")):
            if o is None:
                continue
            try:
                o.__exit__(None, None, None) if how == "__exit__" else o.close()
            except Exception as e:
                cexc = cexc or f"{how}:{type(e).__name__}"
        if cexc:
            t["outcome"], t["exc"] = "raised", cexc
        sr = None
    return t


_CBIN_CACHE = {}


def _compress(folder, data, nc, fs, name="tmp_stream"):
    """(cbin bytes, ch bytes) of the frames `data`, in chunks of 5 frames"""
    import mtscomp
    d = Path(folder) / "_compress"
    d.mkdir(parents=True, exist_ok=True)
    raw = d / f"{name}.bin"
    _clean(d)
    np.ascontiguousarray(data).tofile(raw)
    mtscomp.compress(raw, raw.with_suffix(".cbin"), raw.with_suffix(".ch"), sample_rate=fs, n_channels=nc, dtype=np.int16,
                     chunk_duration=5 / fs, n_threads=1, check_after_compress=False)
    out = raw.with_suffix(".cbin").read_bytes(), raw.with_suffix(".ch").read_bytes()
    _clean(d)
    return out


def _clean(folder):
    """removes every file and link under `folder` (the directories stay: removing them is the slow part)"""
    if not os.path.isdir(folder):
        return
    for root, _, files in os.walk(folder):
        for f in files:
            os.unlink(os.path.join(root, f))


def _stale_siblings(folder, binfile, nc, fs, q, same_stem, stream):
    """files of other recordings an earlier session left around the one that is opened: a second probe's recording and
    (same_stem) the other form (.cbin + .ch next to a .bin, a .bin next to a .cbin) of another, longer recording"""
    gen = np.random.default_rng(q + nc)
    oth = metagen.random_int16(gen, q + 7, nc)
    decoy = binfile.with_name(binfile.name.replace("rec_g0", "rec_g1"))
    decoy.with_suffix(".bin").write_bytes(oth.tobytes()[:-3])
    decoy.with_suffix(".meta").write_text(_meta_text(nc, q + 9, fs, stream))
    if not same_stem:
        return
    if binfile.suffix == ".cbin":
        binfile.with_suffix(".bin").write_bytes(oth.tobytes()[:-1])
    else:
        if (nc, fs) not in _CBIN_CACHE:
            _CBIN_CACHE[(nc, fs)] = _compress(folder, metagen.random_int16(gen, 11, nc), nc, fs)
        cb, ch = _CBIN_CACHE[(nc, fs)]
        binfile.with_suffix(".cbin").write_bytes(cb)
        binfile.with_suffix(".ch").write_bytes(ch)


def make_small(folder, case, fs, rng, env=None):
    """a real file of q * F + r bytes with random content; returns (binfile, nc, content)"""
    env = env or {}
    F, q, r = case["F"], case["q"], case["r"]
    nc = F // 2
    stream = env.get("stream", "ap")
    folder = Path(folder)
    folder.mkdir(parents=True, exist_ok=True)
    data = metagen.random_int16(rng, q + 1, nc)
    data[:, -1] = rng.integers(0, 2 ** 15, size=q + 1)
    binfile = folder / STREAMS[stream][2]
    if case["kind"] == "cbin":
        import mtscomp
        np.ascontiguousarray(data[:q]).tofile(binfile)
        cbin = binfile.with_suffix(".cbin")
        for f in (cbin, binfile.with_suffix(".ch")):
            if f.exists():
                f.unlink()
        nchunk = case.get("nchunk", 5)
        # "chrate": the rate written into the .ch header - compression from the command line names the nominal rate
        # (30000 Hz) while the metadata carries the calibrated one (30003.0003 Hz): the metadata's rate is the recording's
        crate = float(case["chrate"]) if case.get("chrate") else fs
        mtscomp.compress(binfile, cbin, binfile.with_suffix(".ch"), sample_rate=crate, n_channels=nc, dtype=np.int16,
                         chunk_duration=nchunk / crate, n_threads=1, check_after_compress=False)
        binfile.unlink()
        chop = case.get("chop", 0)
        if chop:
            rd = mtscomp.Reader()
            rd.open(cbin, binfile.with_suffix(".ch"))
            sub = folder / "chopped"
            _clean(sub)
            rd.chop(chop, out=sub / cbin.name)
            rd.close()
            cbin = sub / cbin.name
        binfile = cbin
    else:
        binfile.write_bytes(data.tobytes()[:q * F + r])
    binfile.with_suffix(".meta").write_text(_meta_text(nc, env.get("m0", case["meta"]), fs, stream, env.get("form", "exact"),
                                                       q * F + r, env.get("fts_text")))
    if env.get("sib"):
        _stale_siblings(folder, binfile, nc, fs, q, env.get("style") != "meta", stream)
    if env.get("other"):
        # another recording a second reader object looks at while the judged one is constructed and opened
        o = folder / "bystander" / "oth_g0_t0.imec0.ap.bin"
        o.parent.mkdir(exist_ok=True)
        o.write_bytes(metagen.random_int16(rng, 12, 3).tobytes()[:-1])
        o.with_suffix(".meta").write_text(_meta_text(3, 4, fs))
        env["other"] = str(o)
    return binfile, nc, data


def make_sparse(folder, case, fs, rng, env=None):
    """a sparse file of q * F + r bytes (q up to 1e9): zeros except the first / last frames and the trailing bytes"""
    env = env or {}
    F, q, r = case["F"], case["q"], case["r"]
    nc = F // 2
    folder = Path(folder)
    folder.mkdir(parents=True, exist_ok=True)
    binfile = folder / STREAMS[env.get("stream", "ap")][2].replace("rec_", "big_")
    marks = {f: metagen.random_int16(rng, 1, nc)[0] for f in {0, 1, q - 2, q - 1} if 0 <= f < q}
    with open(binfile, "wb") as fid:
        fid.truncate(q * F + r)
        for f, row in marks.items():
            fid.seek(f * F)
            fid.write(row.tobytes())
        if r:
            fid.seek(q * F)
            fid.write(bytes([0x7f]) * r)
    assert os.stat(binfile).st_size == q * F + r
    binfile.with_suffix(".meta").write_text(_meta_text(nc, case["meta"], fs, env.get("stream", "ap")))
    return binfile, nc, _Sparse(q, nc, marks)


def _apis(sc, env, sels, q):
    """the public API each read goes through (None: plain indexing), drawn from the scenario's own seed"""
    if not env.get("apis"):
        return sels, None
    ra = random.Random(sc.get("seed", 0))
    if not sc.get("sparse"):
        sels = sels + [DEFAULT_READ]
    apis = []
    for j, sel in enumerate(sels):
        if tuple(sel) == DEFAULT_READ and j == len(sels) - 1 and not sc.get("sparse"):
            api = "read_default"
        else:
            api = ra.choice(READ_APIS_SLICE if sel[0] == "slice" else READ_APIS_INDEX)
        if env.get("stream") == "nidq" and sel[0] == "slice" and min(sel[2], q) - min(sel[1], q) <= 0 and api not in ("getitem", "getitem2"):
            # a nidq stream with analog sync lines: the sync part of an *empty* selection is not defined by the code
            # (percentile of nothing raises), with or without truncation: reported separately, not judged here
            api = "read"
        apis.append(api)
    return sels, apis


def run_case(ctx, sc, rng=None):
    """scenario {case:{kind,F,q,r,meta,quiet[,chop][,cq,cr]}, fs, sparse, env} -> trace"""
    rng = rng or np.random.default_rng(sc.get("seed", 0))
    case = dict(sc["case"])
    env = dict(sc.get("env") or {})
    folder = Path(ctx.scratch) / "c11"
    _clean(folder)                                # every scenario starts from the files it describes, nothing else
    if sc.get("sparse"):
        binfile, nc, content = make_sparse(folder, case, sc["fs"], rng, env)
        sels, apis = _apis(sc, env, _selectors(case["q"], large=True), case["q"])
        t = observe(binfile, case, sc["fs"], nc, content, sels, env=env, apis=apis)
        binfile.unlink()
    else:
        mk = dict(case)
        if case.get("chop"):
            # the stream that is physically there after chopping: chop * 5 frames of the q0 compressed ones
            mk["q"] = sc["q0"]
        binfile, nc, content = make_small(folder, mk, sc["fs"], rng, env)
        early = None
        cq, cr = case.get("cq", -1), case.get("cr", 0)
        if cq >= 0:
            # what the object saw earlier: the same recording at another stage of writing (longer: more frames follow)
            more = metagen.random_int16(rng, cq + 1, nc)
            if case["kind"] == "cbin":
                if cq and (nc, sc["fs"], cq) not in _CBIN_CACHE:
                    _CBIN_CACHE[(nc, sc["fs"], cq)] = _compress(folder, more[:cq], nc, sc["fs"])
                cb, ch = _CBIN_CACHE[(nc, sc["fs"], cq)] if cq else (b"", b"")
                early = {binfile: cb, binfile.with_suffix(".ch"): ch}
            else:
                early = {binfile: (content.tobytes() + more.tobytes())[:cq * case["F"] + cr]}
        sels, apis = _apis(sc, env, _selectors(case["q"]), case["q"])
        t = observe(binfile, case, sc["fs"], nc, content, sels, early=early, env=env, apis=apis)
    t["m0"] = case["meta"]
    t.pop("chop", None)
    return t


def nstates(t):
    return 3 + (len(t["reads"]) if t["outcome"] == "opened" else 0)


def key_of(t, clause):
    c = clause.split(":")[0]
    area = "read" if c.startswith("Read") else "open"
    sub = ""
    if c == "OpenSucceeds":
        sub = ":" + (t["exc"] or "raised")
        if t["meta"] < 0:
            sub += ":running-acquisition-meta"
        elif t["kind"] == "offline" and 2 * t["r"] >= t["F"]:
            sub += ":trailing-part-at-least-half-a-frame"
    return f"{area}:{t['kind']}:{c}{sub}"


# ------------------------------------------------------------------------------------------
# scenario sets
# ------------------------------------------------------------------------------------------
STYLES = ["path", "default", "str", "meta", "metakw", "link", "with"]


def _env(rnd, case, *, hists=("deferred", "failed"), sparse=False):
    """an environment for `case`: nothing in it changes what the property layer expects"""
    F, kind = case["F"], case["kind"]
    stream = rnd.choice(["ap", "lf", "np2", "3A"] + (["nidq"] if F <= 40 else []))
    styles = [x for x in STYLES + (["chkw"] if kind == "cbin" else [])
              if not (x == "default" and stream == "np2")       # the default channel sorting reorders a 4-shank probe
              and not (sparse and x in ("metakw", "with"))]
    forms = ["exact"] if (case["meta"] < 0 or sparse) else ["exact", "nofsb"] + (["fsbsize"] if kind != "cbin" else [])
    env = {"stream": stream, "style": rnd.choice(styles), "form": rnd.choice(forms), "apis": True}
    if not sparse:
        env["sib"] = rnd.random() < 0.25
        env["other"] = rnd.random() < 0.15
    if case.get("cq", -1) >= 0:
        env["hist"] = rnd.choice([h for h in hists if not (h in ("reopen", "reclose") and case["cq"] < 1)])
        if env["hist"] in ("reopen", "reclose") and env["style"] == "with":
            env["style"] = "path"
    return env


def _fts3(case, fs):
    """fileTimeSecs written with 3 decimals: the frame count it announces is whatever that text times fs rounds to"""
    text = f"{case['meta'] / fs:.3f}"
    return dict(case, meta=int(round(float(text) * fs))), text


def scenarios(ctx, exported):
    rnd = random.Random(ctx.seed)
    out = []
    # (a) spec -> code: every exported case, on one sampling rate each in quick (rotating), all in thorough
    for i, rec in enumerate(exported):
        c = rec["case"]
        rates = FS_ALL if not ctx.quick else [FS_ALL[i % len(FS_ALL)]]
        for fs in rates:
            out.append({"case": c, "fs": fs, "exp": rec["exp"], "seed": rnd.randrange(2 ** 31), "env": _env(rnd, c)})
    # (b) 385 channels: every number of trailing bytes 0..769
    F = 770
    for r in range(F):
        qs = [50] if ctx.quick else [1, 50, 51]
        for q in qs:
            metas = [q] if ctx.quick else [q, q + 3, max(q - 1, 0)]
            for m in metas:
                for kind in ("offline", "online"):
                    if ctx.quick and kind == "online" and r % 7:
                        continue
                    case = {"kind": kind, "F": F, "q": q, "r": r, "meta": m, "quiet": bool(r % 2)}
                    fs = FS_ALL[(r + q) % len(FS_ALL)]
                    env = _env(rnd, case)
                    if rnd.random() < 0.2:
                        c3, text = _fts3(case, fs)
                        if r != 0 or (kind == "offline" and c3["meta"] != q):
                            # (where open() rewrites the duration: one that is left as written, 3 decimals, is not a whole
                            # number of frames, which the model's `meta` cannot express)
                            case, env["fts_text"] = c3, text
                    out.append({"case": case, "fs": fs, "seed": rnd.randrange(2 ** 31), "env": env})
        if r % (97 if ctx.quick else 11) == 0:
            case = {"kind": "online", "F": F, "q": 50, "r": r, "meta": -1, "quiet": bool(r % 2)}
            out.append({"case": case, "fs": 30000, "seed": rnd.randrange(2 ** 31), "env": _env(rnd, case)})
        if r % (41 if ctx.quick else 7) == 0:
            # Reader(open=False) constructed at another stage of the file (matching the metadata or not), opened afterwards
            for j, (cq, cr, m) in enumerate(((50, 0, 50), (50, 0, 40), (40, r, 40), (61, 5, 50), (30, 0, 30))):
                q = 40 if cq != 40 else 47
                case = {"kind": "offline", "F": F, "q": q, "r": r, "meta": m, "quiet": True, "cq": cq, "cr": cr}
                out.append({"case": case, "fs": FS_ALL[(r + cq) % len(FS_ALL)], "seed": rnd.randrange(2 ** 31),
                            "env": _env(rnd, case, hists=("deferred",))})
                # the other histories of one object, both kinds of reader, both values of ignore_warnings: opened before on
                # that stage of the file (kept open or closed), a first open() that failed while the file was away
                for kind in (("offline", "online") if not ctx.quick else (("offline", "online")[(r // 41 + j) % 2],)):
                    case = {"kind": kind, "F": F, "q": q, "r": r, "meta": m, "quiet": bool((r + j) % 2), "cq": cq, "cr": cr}
                    hists = ("reopen", "reclose", "failed") + (("deferred",) if kind == "online" or not case["quiet"] else ())
                    out.append({"case": case, "fs": FS_ALL[(r + cq + 1) % len(FS_ALL)], "seed": rnd.randrange(2 ** 31),
                                "env": _env(rnd, case, hists=hists)})
    # (b') 5 channels: the histories around every small file: the object saw one frame more / fewer, or other trailing bytes
    # (and 3, 9, 97 channels: a nidq stream, a saved subset of a probe)
    grid = [(kind, F, q, r, cq, cr, m) for F in (10, 6, 18, 194) for kind in ("offline", "online") for q in (1, 2, 3, 4)
            for r in (0, 1, F // 2, F - 1)
            for cq, cr in ((q - 1, 0), (q + 1, 0), (q + 1, F - 1), (q, (r + 1) % F), (q + 2, 1))
            for m in (q, cq, q + 1) + ((-1,) if kind == "online" else ())]      # -1: the metadata of a running acquisition
    for kind, F, q, r, cq, cr, m in (grid if not ctx.quick else rnd.sample(grid, 72)):
        case = {"kind": kind, "F": F, "q": q, "r": r, "meta": m, "quiet": rnd.random() < 0.5, "cq": cq, "cr": cr}
        out.append({"case": case, "fs": rnd.choice(FS_MORE), "seed": rnd.randrange(2 ** 31),
                    "env": _env(rnd, case, hists=("reopen", "reclose", "failed", "deferred"))})
    # (c) sparse files: float rounding of round(size / 2 / nc / fs * fs) at 1e6 .. 1e9 frames
    qs = [10 ** 6, 10 ** 7, 10 ** 8, 10 ** 9, 2 ** 24 + 1, 2 ** 30 - 1]
    nrand = 6 if ctx.quick else 60
    qs += [rnd.randrange(10 ** 6, 10 ** 9) for _ in range(nrand)]
    for q in qs:
        for F in (10, 770):
            rs = [0, 1, F // 2 - 1, F // 2, F // 2 + 1, F - 1]
            if ctx.quick:
                rs = [0, rnd.choice(rs[1:3]), rnd.choice(rs[3:])]
            for r in rs:
                for fs in (FS_ALL + [rnd.choice(FS_MORE[len(FS_ALL):])] if not ctx.quick else [rnd.choice(FS_MORE)]):
                    for kind in ("offline", "online"):
                        m = rnd.choice([q, q, q + 1, q - 1, q + rnd.randrange(1, 10 ** 5), 0])
                        case = {"kind": kind, "F": F, "q": q, "r": r, "meta": m, "quiet": True}
                        out.append({"case": case, "fs": fs, "sparse": True, "seed": rnd.randrange(2 ** 31),
                                    "env": _env(rnd, case, sparse=True)})
    # (d) compressed streams announcing fewer / more samples than the metadata; chopped streams; the same object over
    # two stages of the compressed stream
    for F in (10, 770):
        for q0 in ([7, 23] if ctx.quick else [1, 4, 5, 6, 7, 10, 11, 23, 40]):
            for m in sorted({q0, max(q0 - 3, 0), q0 + 1, q0 + 9, 0}):
                fs = rnd.choice(FS_ALL)
                case = {"kind": "cbin", "F": F, "q": q0, "r": 0, "meta": m, "quiet": bool((q0 + m) % 2)}
                out.append({"case": case, "fs": fs, "seed": rnd.randrange(2 ** 31), "env": _env(rnd, case)})
            if q0 in (7, 10):
                # long enough for a difference between the rate in the .ch header and the metadata's to reach half a sample
                for qq, fsx, cr in ((6000 + q0, 30003.0003, 30000), (4000 + q0, 2500.2, 2500)):
                    case = {"kind": "cbin", "F": F if F == 10 else 12, "q": qq, "r": 0, "meta": qq + rnd.choice([-9, 3, 40]),
                            "quiet": bool(q0 % 2), "nchunk": 1000, "chrate": cr}
                    out.append({"case": case, "fs": fsx, "seed": rnd.randrange(2 ** 31), "env": _env(rnd, case)})
            nchunks = -(-q0 // 5)
            for chop in range(1, nchunks):
                out.append({"case": {"kind": "cbin", "F": F, "q": chop * 5, "r": 0, "meta": q0, "quiet": bool(chop % 2),
                                     "chop": chop}, "q0": q0, "fs": rnd.choice(FS_ALL), "seed": rnd.randrange(2 ** 31)})
            combos = [(h, cq, m) for h in ("deferred", "reopen", "reclose", "failed") for cq in sorted({max(q0 - 3, 1), q0 + 6})
                      for m in (q0, cq, q0 + 2)]
            for h in ("deferred", "reopen", "reclose", "failed"):
                for _, cq, m in ([rnd.choice([x for x in combos if x[0] == h])] if ctx.quick else [x for x in combos if x[0] == h]):
                    case = {"kind": "cbin", "F": F, "q": q0, "r": 0, "meta": m, "quiet": rnd.random() < 0.5, "cq": cq, "cr": 0}
                    out.append({"case": case, "fs": rnd.choice(FS_MORE), "seed": rnd.randrange(2 ** 31),
                                "env": _env(rnd, case, hists=(h,))})
    return out


def export_cases(ctx):
    out = Path(ctx.scratch) / "readeropen_cases.json"
    cfg = "mc/ReaderOpen_quick.cfg" if ctx.quick else "mc/ReaderOpen_export.cfg"
    r = tlc.run("mc/MC_ReaderOpen.tla", cfg, workers=4, timeout=900, env={"OUT_FILE": str(out)})
    ctx.tlc(r, cfg)
    return r, (json.loads(out.read_text()) if out.exists() else [])


def _quiet_libs():
    logging.getLogger("ibllib").setLevel(logging.CRITICAL)
    import mtscomp
    mtscomp.tqdm = lambda x, **kw: x
    mtscomp.logger.setLevel(logging.CRITICAL)


HIST_TEXT = {"deferred": "object constructed with open=False", "failed": "object constructed with open=False, and a first open() failed (file away),",
             "reopen": "object opened a first time (left open)", "reclose": "object opened a first time and closed"}


def check_records(ctx, scs, trs, label):
    """direct comparison with the exported property-layer expectation + trace validation; both must agree"""
    direct = {}
    for i, (sc, t) in enumerate(zip(scs, trs)):
        exp = sc.get("exp")
        if not exp:
            continue
        if t["outcome"] != exp["outcome"]:
            direct[i] = "OpenSucceeds"
        elif t["ns"] != exp["ns"] or t["rows"] != exp["ns"]:
            direct[i] = "Exposed"
        elif t["rlf"] != exp["rlf"]:
            direct[i] = "Duration"
    verdicts = tracecheck.validate(ctx, MOD, CFG, trs, label=label, jvms=4, workers=2, nstates=nstates)
    byidx = {v["index"]: v for v in verdicts}
    for i, clause in direct.items():
        v = byidx.get(i)
        if v is None or v["prop"].split(":")[0] != clause:
            raise tlc.TLCError(f"binding disagreement on {scs[i]['case']}: replay against the exported expectation fails "
                               f"{clause}, the trace spec says {v}")
    classes, pending = {}, []
    for v in verdicts:
        i = v["index"]
        sc, t = scs[i], trs[i]
        c = t
        desc = (f"{c['kind']} reader, {c['q']} frames + {c['r']} trailing bytes of {c['F']}-byte frames, metadata announces "
                f"{c['meta'] if c['meta'] >= 0 else 'nothing yet'}, fs={t['fs']}"
                + (f", {HIST_TEXT[sc.get('env', {}).get('hist', 'deferred')]} when the file held {c['cq']} frames + {c['cr']} bytes"
                   + (f" (metadata file: {c['m0']})" if c.get("m0", c["meta"]) != c["meta"] else "") if c.get("cq", -1) >= 0 else "")
                + (f" [{c['env']}]" if c.get("env") else ""))
        if v["prop"]:
            key = key_of(t, v["prop"])
            classes[key] = classes.get(key, 0) + 1
            got = (f"raised {t['exc']}" if t["outcome"] != "opened" else
                   f"ns={t['ns']} shape[0]={t['rows']} rl*fs={t['rlf']} reads={t['reads'][max(v['pos'] - 1, 0)] if t['reads'] else []}")
            pending.append((classes[key], key, f"{desc}: property-layer clause {v['prop']} false ({got})",
                            {k: sc[k] for k in sc if k != "exp"}))
        elif v["impl"]:
            ctx.spec_drift(f"{desc}: step {v['impl']} is not a step of spec/sys/ReaderOpen.tla (every property-layer "
                           f"formula holds)")
    # one representative of every class first (only the first violations get a replay file)
    for _, key, what, sc in sorted(pending, key=lambda x: x[0]):
        ctx.violation(key, what, sc)
    for k, n in sorted(classes.items()):
        ctx.log(f"[C11] {n} real execution(s) violate the property layer in class {k}")
    return {v["index"] for v in verdicts}


def run(ctx):
    ctx.level = "model_checking"
    _quiet_libs()
    # 1. model: implementation layer => property layer, every stopping point of the writer
    cfg = "mc/ReaderOpen_quick.cfg" if ctx.quick else "mc/ReaderOpen_thorough.cfg"
    # (the two model self-tests and the symbolic check do not depend on anything else: they run next to the export;
    #  all of them are over before the first real execution)
    from concurrent.futures import ThreadPoolExecutor
    from vkit import apalache
    side = ThreadPoolExecutor(max_workers=3)
    f_ro, f_rc = [side.submit(tlc.run, "sys/ReaderOpen.tla", c, workers=2, timeout=600)
                  for c in ("mc/ReaderOpen_orig.cfg", "mc/ReaderOpen_cachedsize.cfg")]
    f_ap = side.submit(apalache.check, "apalache/ReaderOpenInd.tla", "Init", "Theorem", 0)
    try:
        r, exported = export_cases(ctx)
    finally:
        side.shutdown(wait=True)
    if not ctx.quick:
        r2 = tlc.run("sys/ReaderOpen.tla", cfg, workers=4, timeout=1800)
        ctx.tlc(r2, cfg)
        if not r2.ok:
            r = r2
    scs_cex = []
    if not r.ok:
        scs_cex = model_cex_scenarios(r)
    # model self-test: the implementation layer as it was before the fix: commits must violate the property layer
    # (and the one before the third fix: the size cached by the constructor, which only the histories of an object show)
    ro, rc = f_ro.result(), f_rc.result()
    if ro.ok or ro.invariant_violated not in ("OpenSucceeds", "Exposed", "WithinFile"):
        raise tlc.TLCError("model self-test: the pre-fix implementation layer (round to nearest frame, KeyError in the "
                           f"mismatch message) is not rejected by the property layer: {ro.invariant_violated}")
    ctx.cov["model_selftest_orig_variant_rejected"] = ro.invariant_violated
    if rc.ok or rc.invariant_violated not in ("OpenSucceeds", "Exposed", "WithinFile") or int(rc.error_trace[-1].get("cbytes", -1)) < 0:
        raise tlc.TLCError("model self-test: the implementation layer that compares the metadata with the size cached by the "
                           f"constructor is not rejected on a deferred opening: {rc.invariant_violated}")
    ctx.cov["model_selftest_cachedsize_variant_rejected"] = rc.invariant_violated
    # 1b. the same arithmetic for unbounded frame sizes / lengths / announced counts, discharged symbolically (Apalache)
    if not f_ap.result():
        raise tlc.TLCError("spec/apalache/ReaderOpenInd.tla: the unbounded form of ByteFormsAgree / Exposed / OpenSucceeds does not hold")
    ctx.cov["unbounded_theorem"] = {"tool": "apalache-mc 0.58", "statement": "for all f >= 2, q >= 1, 0 <= r < f, m >= 0: byte and frame "
                                    "forms of the size test agree, n frames fit iff n <= q, the repaired open() exposes q frames and "
                                    "does not raise (offline and online reader)"}
    # 2 + 3. real executions
    scs = scs_cex + scenarios(ctx, exported)
    rng = np.random.default_rng(ctx.seed)
    trs = []
    for sc in scs:
        t = run_case(ctx, sc, rng)
        trs.append(t)
        c = sc["case"]
        nontrivial = c["r"] != 0 or c["meta"] != c["q"]
        ctx.count(1, key=(c["kind"], c["F"], c["q"], c["r"], c["meta"], c["quiet"], sc["fs"], c.get("cq", -1), c.get("cr", 0),
                          (sc.get("env") or {}).get("hist", "")) if nontrivial else None)
    bad = check_records(ctx, scs, trs, "readeropen")
    if not r.ok and not (set(range(len(scs_cex))) & bad):
        raise tlc.TLCError(f"the model violates {r.invariant_violated} but the real code does not on the counterexample: "
                           f"the implementation layer of spec/sys/ReaderOpen.tla misrepresents the code")
    for t in trs[:2] + trs[-2:]:
        ctx.sample({k: t[k] for k in ("kind", "F", "q", "r", "meta", "quiet", "fs", "outcome", "exc", "ns", "rows", "rlf")}
                   | {"reads": t["reads"][:3]})
    # 4. binding self-test
    selftest(ctx, trs, bad)
    ctx.cov["rule"] = ("model: every byte length F..(MaxFrames+1)F-1 x announced frames x reader kind; real files: every "
                       "exported case (F=4,10) x sampling rates, F=770 with every trailing count 0..769, sparse files of "
                       "1e6..1e9 frames, .cbin/.ch vs .meta disagreement, chopped .cbin; histories of one object (constructed "
                       "early, failed open, opened before with / without close) for the three kinds of reader; every scenario "
                       "in a drawn environment (AP / LF / NP2.4 / 3A / nidq stream, spelling of the constructor call, form of the "
                       "size / duration keys, stale sibling files, a second reader alive, API of each read); non-trivial = trailing "
                       "bytes present or metadata disagreeing with the size")
    ctx.cov["exhaustive"] = True
    ctx.cov["numeric_postconditions"] = ["rl*fs and fileTimeSecs*fs projected to a frame count (1e-6 relative)",
                                         "values compared as float32(raw) * sample2volts, bit for bit"]
    ctx.assumptions += ["a physically truncated .cbin (bytes missing inside a compressed chunk) is outside: 'complete "
                        "frames physically present' is not defined for a broken zlib chunk; the compressed case is a "
                        ".ch chunk table shorter / longer than the .meta announces",
                        "metadata without fileTimeSecs (acquisition still running) is presented to OnlineReader only",
                        "growth of the file after a reader was opened is judged only after the same object is opened again",
                        "the sync part of an empty selection of a nidq stream with analog sync lines (np.percentile of nothing "
                        "raises IndexError, truncated file or not) is not requested",
                        "OnlineReader on a compressed file is not a use of it",
                        "TLC 32-bit integers: frame counts <= 1e9, sizes are carried as (frames, trailing bytes)"]


def model_cex_scenarios(r):
    st = r.error_trace[-1] if r.error_trace else {}
    try:
        F, b = int(st["F"]), int(st["bytes"])
        case = {"kind": tlc.parse_value(st["kind"]), "F": F, "q": b // F, "r": b % F, "meta": int(st["meta"]),
                "quiet": tlc.parse_value(st["quiet"])}
        cb = int(st.get("cbytes", -1))
        if cb >= 0:
            case.update({"cq": cb // F, "cr": cb % F})
    except Exception as e:
        raise tlc.TLCError(f"model violates {r.invariant_violated}; counterexample not parsable: {e}\n{r.out[-1500:]}")
    return [{"case": case, "fs": 30000, "seed": 1}]


def selftest(ctx, trs, bad):
    cands = [i for i, t in enumerate(trs) if i not in bad and t["outcome"] == "opened" and len(t["reads"]) >= 4][:60]
    if len(cands) < 12:
        if ctx.violations or ctx.known_hits:
            # (a tree on which hardly any opening is accepted: the verdicts stand, there is nothing to corrupt)
            ctx.cov["selftest_corrupted_traces_rejected"] = "skipped: too few accepted traces on a violating tree"
            return
        raise tlc.TLCError("selftest: not enough accepted traces")
    mut, kinds = [], []
    for j, i in enumerate(cands[:36]):
        t = copy.deepcopy(trs[i])
        k = j % 6
        if k == 0:
            t["ns"] += 1                     # one frame too many (rounding up)
            t["rows"] += 1
        elif k == 1:
            t["rows"] -= 1                   # shape disagrees with the file
        elif k == 2:
            t["rlf"] += 1                    # duration does not match the exposed count
        elif k == 3:
            t["outcome"], t["exc"], t["reads"] = "raised", "ValueError", []
        elif k == 4:
            t["reads"][1][3] += 1            # a read returned a row beyond the file
        else:
            t["reads"][0][4] = False         # values differ from the file's prefix
        mut.append(t)
        kinds.append(k)
    keep = ctx.cov["traces_validated_against_impl"]
    v = tracecheck.validate(ctx, MOD, CFG, mut, label="selftest", jvms=1, nstates=nstates)
    ctx.cov["traces_validated_against_impl"] = keep
    flagged = {x["index"] for x in v if x["prop"]}
    if len(flagged) != len(mut):
        missed = sorted({kinds[i] for i in range(len(mut)) if i not in flagged})
        raise tlc.TLCError(f"binding self-test: only {len(flagged)}/{len(mut)} corrupted traces were rejected "
                           f"(corruption kinds missed: {missed})")
    ctx.cov["selftest_corrupted_traces_rejected"] = len(flagged)


def replay(ctx, sc):
    _quiet_libs()
    t = run_case(ctx, sc)
    check_records(ctx, [sc], [t], "replay")
