"""C17 - sliding windows cover, overlap, partition and splice exactly.

1. TLC: spec/lib/Windows.tla, exhaustive box (implementation layer => property layer).
2. code -> spec: the real WindowGenerator is executed for every triple of a box (+ random large
   ones); each execution is a trace validated by spec/trace/WindowsTrace.tla, property layer
   evaluated on every observed state.
3. binding self-test: a corrupted copy of an accepted trace must be rejected.

What one execution (`record`) covers besides the triple itself (gap audit, DESIGN 9.7):
  * hand-over forms of the three numbers, chosen by the triple: positional / keywords, Python int, np.int64 / int32 / intp,
    integral Python and NumPy floats (the constructor converts with int()); every yielded bound is *used* as a slice bound;
  * `tscale` with six sampling rates (int / float / NumPy, positional / keyword); one entry per window is required;
  * every generator of the object is a stream of windows: `slice`, `slice_array` (six signal forms: 1-D, 2-D with default /
    explicit axis, Fortran order, a list, a strided read-only float32 view; the chunks carry their positions), the bounds in
    `firstlast_valid` / `firstlast_splicing`, each with the public counter `iw` read inside the loop; the first stream that
    differs from `firstlast` is judged in its place by the same clauses;
  * histories of one object: generators abandoned after 0-2 windows, a declined use (odd overlap in `firstlast_valid`), two
    complete passes, lock-step consumption with a `tscale()` pass and a second live object in between, `nwin` read again
    at the end, amplitude vectors overwritten by the caller once read;
  * the numbers of the repository's call sites (65536 / 1024, 60000 / 576, 60000 / 0);
  * a generator that does not stop or hands out nothing is a failed call (`Raised`), not a hanging harness; so is a call that
    does not return at all (`_Watch`: WATCH_S seconds per execution, the run stops executing triples after three of them).
Robustness (what the code hands out is decoded defensively, so that a surprise becomes the verdict of its clause, not exit 2):
  `_count` (nwin that is no integer announces -1: CountPositive), `_clamp` (integers beyond what any admissible triple produces are
  recorded at a bound outside the signal: TLC reads 32 bit), `_real` / `_entries` / `_c2` (time scale entries and amplitudes that
  are not real numbers, a time scale that is not one-dimensional: Centre / Splice), `_slice_win` (a slice with a step), `wild`
  (windows of `firstlast` outside the signal: the generators that allocate per window are not run, InRange is false anyway).
"""
import copy
import random
from itertools import islice
import signal
import threading

import numpy as np
import scipy.signal

from vkit import apalache, tlc, tracecheck


BIG = 10 ** 8           # beyond every length, index and doubled centre of the admissible triples (ns <= 1e7); TLC integers are 32 bit


def _real(v):
    """an element handed out by the code as a real number (NaN when it is none: no clause holds of NaN)"""
    if isinstance(v, (bool, int, float, np.bool_, np.integer, np.floating)):
        return float(v)
    if isinstance(v, (complex, np.complexfloating)):
        return float(v.real) if v.imag == 0 else float("nan")
    if isinstance(v, np.ndarray) and v.ndim == 0:
        return _real(v[()])
    return float("nan")


def _clamp(v, lo=-BIG, hi=BIG):
    """an observed integer as TLC can read it: what lies beyond [lo, hi] is moved to the bound (it stays out of range, unequal to
    everything admissible, and the arithmetic of the clauses cannot overflow)"""
    return max(lo, min(hi, int(v)))


def _count(x):
    """the announced number of windows: an integer (or a float / 0-d array holding one); anything else announces nothing (-1)"""
    if isinstance(x, np.ndarray) and x.ndim == 0:
        x = x[()]
    if isinstance(x, (int, np.integer)) and not isinstance(x, (bool, np.bool_)):
        return _clamp(x)
    if isinstance(x, (float, np.floating)) and np.isfinite(x) and float(x).is_integer():
        return _clamp(x)
    return -1


def _rle(amp, w):
    """symbolic run-length code of an amplitude vector: 1.0 -> one, w[i] -> ("w", i)"""
    lut = {float(v): i for i, v in enumerate(w)}
    sym = []
    try:
        kind = np.asarray(amp).dtype.kind
    except Exception:
        kind = "O"
    if kind not in "biuf":               # text, None, complex numbers off the real axis: no amplitudes (NaN -> "other")
        amp = [_real(v) for v in amp]
    for v in amp:
        v = float(v)
        if v == 1.0:
            sym.append(("one", 0))
        elif v in lut:
            sym.append(("w", lut[v]))
        else:
            sym.append(("other", 0))
    segs = []
    for k, i in sym:
        if segs:
            s = segs[-1]
            if k == "one" and s[0] == "one":
                s[2] += 1
                continue
            if k == "other" and s[0] == "other":
                s[2] += 1
                continue
            if k == "w" and s[0] == "w" and (s[2] == 1 or s[3] == 1) and i == s[1] + s[2]:
                s[2] += 1
                s[3] = 1
                continue
            if k == "w" and s[0] == "w" and (s[2] == 1 or s[3] == -1) and i == s[1] - s[2]:
                s[2] += 1
                s[3] = -1
                continue
        segs.append([k, i, 1, 0])
    return [["wr" if (s[0] == "w" and s[3] == -1) else s[0], s[1], s[2]] for s in segs]


# ---- hand-over forms (audit 9.7): how the three numbers, the sampling rate and the signal reach the object ----
NFORMS = 9
FS = [1, 2, 0.5, 30000, 2500.0, np.float64(1000.0), np.int16(30000), np.uint16(40000), np.int8(100), np.int32(30000)]      # narrow NumPy integers: nothing may be computed in the type of the rate
SA_LIM = 300000        # slice_array is exercised on a real signal up to this length


def construct(ns, w, ov, form=0):
    """the constructor converts with int(): integral floats and NumPy scalars are lengths too; the repository's tests pass keywords"""
    from ibldsp.utils import WindowGenerator
    if form == 1:
        return WindowGenerator(ns=ns, nswin=w, overlap=ov)
    if form == 2:
        return WindowGenerator(np.int64(ns), np.int64(w), np.int64(ov))
    if form == 3:
        return WindowGenerator(overlap=np.int32(ov), nswin=np.int32(w), ns=np.int32(ns))
    if form == 4:
        return WindowGenerator(float(ns), float(w), float(ov))
    if form == 5:
        return WindowGenerator(ns=np.float64(ns), nswin=w, overlap=np.float64(ov))
    if form == 6:
        return WindowGenerator(np.intp(ns), w, np.int32(ov))
    if form == 7:       # unsigned lengths (sizes read from headers, len() of arrays held as unsigned): ns - nswin must not wrap
        ut = [np.uint16, np.uint32, np.uint64, np.uint8][(ns + w) % 4]
        if max(ns, w, ov) < np.iinfo(ut).max:
            return WindowGenerator(ut(ns), ut(w), ut(ov))
        return WindowGenerator(np.uint64(ns), np.uint64(w), np.uint64(ov))
    if form == 8:
        # lengths that come out of float arithmetic and are not whole (0.29 * 100 = 28.999999999999996, 2 * 30000.6): the object
        # works with their integer parts - every output, the announced count included, must speak of the same (ns, w, ov)
        return WindowGenerator(ns, float(np.nextafter(w + 1.0, 0.0)), ov + 0.5)
    return WindowGenerator(ns, w, ov)


def _c2(tsk, fs):
    """twice the centre in samples from one entry of the time scale (-99: not a half-integer number of samples)"""
    tsk = _real(tsk)                    # an entry that is not a real number is no centre
    if not np.isfinite(tsk):
        return -99
    if fs == 1 and type(fs) is int:
        return _clamp(round(2 * tsk)) if float(2 * tsk).is_integer() else -99
    x = 2.0 * tsk * float(fs)
    if not np.isfinite(x):
        return -99
    r = round(x)
    return _clamp(r) if abs(x - r) <= 1e-9 * max(1.0, abs(x)) else -99


def _entries(ts):
    """the time scale as a list of entries: one per window along ONE axis; anything else has no entry for any window"""
    try:
        return list(ts) if np.ndim(ts) == 1 else []
    except Exception:
        return []


def _signal(ns, kind):
    """a signal whose values are their own positions along the windowed axis, in six hand-over forms
    -> (sig, its array form, kwargs of slice_array, windowed axis)"""
    sig, kw, axis = _signal_forms(ns, kind if (kind != 4 or ns <= 5000) else 0)
    return sig, np.asarray(sig), kw, axis


def _signal_forms(ns, kind):
    base = np.arange(ns)
    if kind == 1:
        return np.stack([base, base + ns, base + 2 * ns]), {}, 1                  # default axis (-1) of a 2-D array
    if kind == 2:
        return np.stack([base, base + ns], axis=1), {"axis": 0}, 0
    if kind == 3:
        return np.asfortranarray(np.stack([base, base + ns])), {"axis": 1}, 1
    if kind == 4:
        return base.tolist(), {}, 0                                               # "array or sliceable object"
    if kind == 5:
        v = (np.arange(2 * ns, dtype=np.float32) / 2)[::2]                        # strided, read-only, another element type
        v.flags.writeable = False
        return v, {"axis": -1}, 0
    return base, {}, 0


def _decode_chunk(chunk, a, axis):
    """the window a chunk of slice_array stands for: its samples carry their own positions (a: the signal as an array)"""
    c = np.asarray(chunk)
    if c.ndim != a.ndim or c.shape[axis] == 0:
        return (-1, -1)
    lane = np.take(c, 0, axis=1 - axis) if c.ndim == 2 else c
    f, l = int(lane[0]), int(lane[-1]) + 1
    if l - f != c.shape[axis] or f < 0 or l > a.shape[axis]:
        return (-1, -1)
    ref = a[f:l] if (a.ndim == 1 or axis == 0) else a[:, f:l]
    return (f, l) if np.array_equal(c, ref) else (-1, -1)


def _use(ns, f, l):
    """the bounds used the way every caller uses them (sig[first:last]): needs real integers"""
    range(ns)[f:l]
    return (int(f), int(l))


def _slice_win(ns, s):
    """the window a slice stands for; a slice that takes every n-th sample only stands for none"""
    if s.step not in (None, 1):
        return (-1, -1)
    return _use(ns, s.start, s.stop)


class DoesNotStop(Exception):
    pass


class NoWindow(Exception):
    pass


def _bounded(gen, n):
    """window starts increase strictly: a generator that hands out more than n windows (n: what any admissible stride can
    give, plus slack) does not stop - reported as a failed call instead of a harness that hangs"""
    for i, x in enumerate(gen):
        if i >= n:
            raise DoesNotStop("more windows than any admissible stride can give")
        yield x


def _len1(a):
    """length of an amplitude vector; -1 when it is not a vector (one amplitude per sample of the window)"""
    return len(a) if np.ndim(a) == 1 else -1


WATCH_S = 45            # one execution takes milliseconds (a second for the longest signals)
HANGS = [0]             # executions stopped by the watchdog in this process


class _Watch:
    """a call that neither returns nor hands out anything (a loop that spins without yielding, inside tscale(), a constructor)
    cannot be bounded by counting: the execution is interrupted after WATCH_S seconds and is a failed call (`DoesNotStop`)"""

    def __enter__(self):
        self.on = threading.current_thread() is threading.main_thread()
        if self.on:
            self.old = signal.signal(signal.SIGALRM, self._fire)
            signal.setitimer(signal.ITIMER_REAL, WATCH_S)
        return self

    @staticmethod
    def _fire(signum, frame):
        HANGS[0] += 1
        raise DoesNotStop(f"no answer within {WATCH_S} s")

    def __exit__(self, *a):
        if self.on:
            signal.setitimer(signal.ITIMER_REAL, 0)
            signal.signal(signal.SIGALRM, self.old)
        return False


def _spl_items(gen, ramp, obj=None, collect=False):
    """firstlast_splicing consumed window by window: the amplitude vector is read, then overwritten by the caller (it is the
    caller's array: `amp *= gain` must not reach the vectors handed out later)"""
    out = []
    if collect:
        # the other legitimate consumer (seed round g: one buffer reused for every window): all windows are collected first -
        # list(wg.firstlast_splicing), windows handed to workers, a second pass - and the amplitudes are read afterwards
        items = [(f, l, a, int(obj.iw) if obj is not None else -1) for f, l, a in gen]
        return [(int(f), int(l), _rle(a, ramp), _len1(a), iw) for f, l, a, iw in items]
    for f, l, a in gen:
        out.append((int(f), int(l), _rle(a, ramp), _len1(a), int(obj.iw) if obj is not None else -1))
        try:
            a[:] = -3.0
        except ValueError:
            pass
    return out


def record(ns, w, ov):
    """one execution of the real object -> one trace record"""
    rec = {"ns": ns, "w": w, "ov": ov, "nwin": 0, "wins": [], "exc": "", "nslices": 0, "src": "firstlast"}
    try:        # the property says these calls succeed for every admissible triple
        with _Watch():
            _execute(rec, ns, w, ov)
    except (Exception, SystemExit) as e:
        rec["exc"] = type(e).__name__
        rec["wins"] = []
    return rec


def _execute(rec, ns, w, ov):
    """the calls of one execution and the decoding of what they hand out; whatever escapes is the record's `Raised` verdict"""
    form = (ns + 3 * w + 5 * ov) % NFORMS
    ifs = (2 * ns + w + 3 * ov) % len(FS)
    fs = FS[ifs]
    tscale = (lambda o: o.tscale(fs=fs)) if ifs % 2 == 0 else (lambda o: o.tscale(fs))
    cap = ns // (w - ov) + 3
    wg = construct(ns, w, ov, form)
    rec["nwin"] = _count(wg.nwin)
    # the windows of a fresh object first: when one of them leaves the signal (`InRange` is false on `firstlast` itself), the
    # execution is recorded up to that window only, and the generators that allocate amplitude vectors and chunks of the size
    # of each window are stopped before it (a window of 2^31 samples would take the machine's memory, not raise)
    probe = [(a, b) for a, b in _bounded(construct(ns, w, ov, form).firstlast, cap)]
    nsafe = next((i for i, (a, b) in enumerate(probe) if not 0 <= a < b <= ns), None)
    wild = nsafe is not None
    # every other triple uses ONE object for all its generators, and iterates `firstlast` twice (a generator that
    # keeps state between uses shows up as different windows the second time); the others use fresh objects
    same = (ns + w + ov) % 2 == 0
    # one triple in four: the generators of ONE object are consumed in lock-step (zip-like use), with a complete tscale()
    # pass while they are all suspended: the generators of an object must not share position state
    interleaved = (ns + w + ov) % 4 == 2
    ramp = scipy.signal.windows.hann((ov + 1) * 2 + 1, sym=True)[1:ov + 1]
    sig, asig, sakw, axis = _signal(ns, (ns + 2 * w + ov) % 6) if ns <= SA_LIM else (None, None, {}, 0)
    if same and not wild:
        # histories of the object: generators started and abandoned after 0, 1 or 2 windows (a loop left with `break`),
        # and a use that is declined (odd overlap: firstlast_valid asserts) - the object must serve the next use as if fresh
        for j, name in enumerate(("firstlast", "firstlast_splicing", "slice", "firstlast_valid")):
            g = iter(getattr(wg, name))
            try:
                for _ in range((ns + w + j) % 3):
                    next(g)
            except (StopIteration, AssertionError):
                pass
            if j % 2:
                g.close()
            del g
    if wild:
        fl = [_use(ns, a, b) + (int(wg.iw),) for a, b in islice(_bounded(wg.firstlast, cap), nsafe + 1)]
        if ov % 2 == 0:
            val = [tuple(int(x) for x in v) for v in islice(_bounded(construct(ns, w, ov, form).firstlast_valid, cap), nsafe + 1)]
        else:
            val = [(f, l, -1, -1) for f, l, _ in fl]
        spl = _spl_items(islice(_bounded(construct(ns, w, ov, form).firstlast_splicing, cap), nsafe), ramp)
        ts = _entries(tscale(construct(ns, w, ov, form)))[:nsafe + 1]
        sl = list(islice(_bounded(construct(ns, w, ov, form).slice, cap), nsafe + 1))
        for s in sl:
            range(ns)[s]
        streams = []
    elif interleaved:
        # a second object with other numbers is alive and consumed in the same rounds: objects share nothing
        from ibldsp.utils import WindowGenerator
        decoy = WindowGenerator(ns + 5, w + 2, min(ov + 1, w))
        for _ in _bounded(wg.firstlast, cap):      # tscale() below runs unguarded inside the code: make sure the loop stops
            pass
        dwin = [(a, b) for a, b in _bounded(decoy.firstlast, cap + 8)]
        dits = [iter(decoy.firstlast)]
        if all(0 <= a < b <= ns + 5 for a, b in dwin):      # as for `wild`: no amplitude vectors for windows that leave the signal
            dits.append(iter(decoy.firstlast_splicing))
        its = {"fl": _bounded(wg.firstlast, cap), "val": _bounded(wg.firstlast_valid, cap) if ov % 2 == 0 else None,
               "spl": _bounded(wg.firstlast_splicing, cap), "sl": _bounded(wg.slice, cap),
               "sa": _bounded(wg.slice_array(sig, **sakw), cap) if sig is not None else None}
        got = {"fl": [], "val": [], "spl": [], "sl": [], "sa": []}
        ts, k = None, 0
        while True:
            progressed = False
            for name in ("fl", "val", "spl", "sl", "sa"):
                if its[name] is None:
                    continue
                try:
                    item = next(its[name])
                except StopIteration:
                    its[name] = None
                    continue
                if name == "spl":           # read now, then the caller overwrites its array
                    f, l, a = item
                    item = (int(f), int(l), _rle(a, ramp), _len1(a))
                    try:
                        a[:] = -3.0
                    except ValueError:
                        pass
                elif name == "sa":
                    item = _decode_chunk(item, asig, axis)
                got[name].append(item)
                progressed = True
            for d in dits:
                next(d, None)
            if k == 0:
                ts = tscale(wg)
            k += 1
            if not progressed or k > 4 * (ns + 2):
                break
        fl = [_use(ns, a, b) + (i,) for i, (a, b) in enumerate(got["fl"])]   # iw is shared by design: not observed here
        val = ([tuple(int(x) for x in v) for v in got["val"]] if ov % 2 == 0 else [(f, l, -1, -1) for f, l, _ in fl])
        spl = got["spl"]
        sl = got["sl"]
        for s in sl:
            range(ns)[s]                     # a slice is used as an index
        streams = [("firstlast_valid", [(v[0], v[1], i) for i, v in enumerate(val)]),
                   ("firstlast_splicing", [(s[0], s[1], i) for i, s in enumerate(spl)]),
                   ("slice", [_slice_win(ns, s) + (i,) for i, s in enumerate(sl)])]
        if sig is not None:
            streams.append(("slice_array", [(a, b, i) for i, (a, b) in enumerate(got["sa"])]))
    else:
        new = (lambda: wg) if same else (lambda: construct(ns, w, ov, form))
        if same:
            first_pass = [(int(a), int(b)) for a, b in _bounded(wg.firstlast, cap)]
        fl = []
        for first, last in _bounded(wg.firstlast, cap):
            fl.append(_use(ns, first, last) + (int(wg.iw),))
        if same and first_pass != [(a, b) for a, b, _ in fl]:
            fl = [(-1, -1, -1)] * len(fl)          # the second iteration differs from the first: windows are not reproducible
        # the counter `iw` is public (the repository's tests index their results with it inside loops over firstlast, slice
        # and slice_array): it is observed in every kind of loop
        o = new()
        if ov % 2 == 0:
            val, viw = [], []
            for v in _bounded(o.firstlast_valid, cap):
                val.append(tuple(int(x) for x in v))
                viw.append(int(o.iw))
        else:
            val, viw = [(f, l, -1, -1) for f, l, _ in fl], [i for _, _, i in fl]
        o = new()
        spl = _spl_items(_bounded(o.firstlast_splicing, cap), ramp, o, collect=(ns + 2 * w + ov) % 3 == 0)
        ts = tscale(new())
        o = new()
        sl, sliw = [], []
        for s in _bounded(o.slice, cap):
            range(ns)[s]
            sl.append(s)
            sliw.append(int(o.iw))
        streams = [("firstlast_valid", [(v[0], v[1], i) for v, i in zip(val, viw)]),
                   ("firstlast_splicing", [(s[0], s[1], s[4]) for s in spl]),
                   ("slice", [_slice_win(ns, s) + (i,) for s, i in zip(sl, sliw)])]
        if sig is not None:
            o = new()
            sa = []
            for chunk in _bounded(o.slice_array(sig, **sakw), cap):
                sa.append(_decode_chunk(chunk, asig, axis) + (int(o.iw),))
            streams.append(("slice_array", sa))
    # every generator of the object hands out "the windows": the property layer judges the first stream that differs from
    # `firstlast` in place of it (same clauses: in range, cover, overlap, count; the other observations are attached by
    # window bounds and position as before, so a stream that is not the one they belong to fails their clauses as well)
    for name, st in streams:
        if st != list(fl):
            fl, rec["src"] = st, name
            break
    if not fl:
        raise NoWindow(f"{rec['src']} produced no window")
    nw_late = _count(wg.nwin)               # the announced count is an attribute: read again after all the iterations
    if nw_late != len(fl):
        rec["nwin"] = nw_late
    rec["nslices"] = len(sl)
    ts = _entries(ts)
    lo, hi = -(w + 100), ns + w + 100       # bounds farther out than this are recorded as this far out (see _clamp)
    for k, (f, l, iw) in enumerate(fl):
        fv, lv = (-99, -99)
        if k < len(val) and val[k][:2] == (f, l):
            fv, lv = val[k][2:]
        segs = [["other", 0, l - f]]
        if k < len(spl) and spl[k][:2] == (f, l) and spl[k][3] == l - f:
            segs = spl[k][2]
        c2 = _c2(ts[k], fs) if k < len(ts) else -99
        if k == len(fl) - 1 and len(ts) != len(fl):
            c2 = -99                         # the time scale has one entry per window
        if k < len(sl) and (sl[k].start, sl[k].stop) != (f, l):
            rec["nslices"] = -1
        f, l, fv, lv = (_clamp(x, lo, hi) for x in (f, l, fv, lv))
        if segs[0][0] == "other" and len(segs) == 1:
            segs = [["other", 0, l - f]]
        rec["wins"].append([f, l, _clamp(iw), fv, lv, c2, segs])


def triples(ctx):
    rnd = random.Random(ctx.seed)
    out = []
    small = (30, 10) if ctx.quick else (120, 24)
    for ns in range(1, small[0] + 1):
        for w in range(1, small[1] + 1):
            for ov in range(0, w):
                out.append((ns, w, ov))
    nbox = 6000 if ctx.quick else 60000
    for _ in range(nbox):
        w = rnd.randint(1, 64)
        out.append((rnd.randint(1, 400), w, rnd.randint(0, w - 1)))
    # random large triples; the number of windows is kept below 300 so that traces stay small
    nlarge = 300 if ctx.quick else 4000
    for _ in range(nlarge):
        w = rnd.choice([rnd.randint(2, 200), rnd.randint(200, 600)])
        ov = rnd.choice([0, rnd.randint(0, w - 1), rnd.randint(0, w // 2), (w // 2) & ~1])
        ov = min(ov, w - 1)
        nwin = rnd.randint(1, 60)
        ns = max(1, (w - ov) * nwin + rnd.randint(-w, w))
        ns = min(ns, 10 ** 7)
        out.append((ns, w, ov))
    # the numbers of the repository's own call sites (voltage.resample_denoise_lfp_cbin: 65536 / 1024; NP2Converter and
    # NP2Reconstructor: 2 s of AP samples with overlap 576 or 0), a few windows each: exact and short last windows, a
    # recording shorter than a window, than the overlap
    for w, ov in ((65536, 1024), (60000, 576), (60000, 0)):
        st = w - ov
        sites = [w + 2 * st, 3 * st + 1000, w + st + 1, w, max(ov, 1), w - 1, ov + 1]
        if not ctx.quick:
            sites += [w + rnd.randint(1, 7) * st for _ in range(3)] + [rnd.randint(1, 8 * st) for _ in range(8)]
        out += [(ns, w, ov) for ns in sites]
    return out


def nstates(t):
    return 3 if t["exc"] else len(t["wins"]) + 4


def classify(t):
    ns, w, ov = t["ns"], t["w"], t["ov"]
    return f"ns={ns},w={w},ov={ov}"


def run(ctx):
    ctx.level = "model_checking"
    # 1. model: implementation layer => property layer, exhaustive box
    cfg = "mc/Windows_quick.cfg" if ctx.quick else "mc/Windows_thorough.cfg"
    r = tlc.run("lib/Windows.tla", cfg, workers=8 if ctx.quick else 16, timeout=3000, heap="8g", coverage=True)
    ctx.tlc(r, cfg)
    if r.ok:
        tlc.require_all_actions_taken(r)
    if not r.ok:
        st = r.error_trace[-1] if r.error_trace else {}
        sc = {k: v for k, v in st.items() if not k.startswith("_")}
        # a model-level counterexample is a finding about the code only once replayed on it
        replay_model_cex(ctx, r.invariant_violated, sc)
    # 1b. unbounded parameters: inductive invariant of the same generator, discharged symbolically (Apalache):
    #     Init => IndInv ; IndInv /\ Next => IndInv' /\ (InRange /\ Cover /\ Overlap), for ALL ns, w, ov
    ob = [("Init", "IndInv", 0), ("IndInit", "IndInvAndSafety", 1)]
    done = [apalache.check("apalache/WindowsInd.tla", i, v, n) for i, v, n in ob]
    if not all(done):
        raise tlc.TLCError(f"inductive invariant of spec/apalache/WindowsInd.tla not established: {done}")
    ctx.cov["inductive_invariant"] = {"tool": "apalache-mc 0.58", "obligations": len(ob), "discharged": sum(done),
                                      "statement": "Init => IndInv; IndInv /\\ Next => IndInv' /\\ InRange /\\ Cover /\\ Overlap "
                                                   "for unbounded ns, w, ov (count / valid / splice clauses are bounded-model only)"}
    # 2. code -> spec
    tr = triples(ctx)
    random.Random(ctx.seed).shuffle(tr)     # balance the batches
    trs = []
    for t in tr:
        trs.append(record(*t))
        if HANGS[0] >= 3:
            # three executions were stopped by the watchdog after WATCH_S seconds each (they are `Raised:DoesNotStop` below):
            # the remaining triples would only add waiting time to a run that has its verdict
            ctx.log(f"[C17] {HANGS[0]} executions did not return; {len(tr) - len(trs)} triples not executed")
            break
    for t in trs:
        nontrivial = len(t["wins"]) > 1
        ctx.count(1, key=(t["ns"], t["w"], t["ov"]) if nontrivial else None)
    verdicts = tracecheck.validate(ctx, "trace/WindowsTrace.tla", "trace/WindowsTrace.cfg", trs, label="windows",
                                   jvms=8, workers=2, nstates=nstates)
    for v in verdicts:
        t = trs[v["index"]]
        if v["prop"]:
            key = "win:" + v["prop"].split(":")[0]
            ctx.violation(key, f"WindowGenerator({t['ns']},{t['w']},{t['ov']}): property-layer clause {v['prop']} "
                          f"false at window {v['pos']} (windows of `{t.get('src', 'firstlast')}`)",
                          {"triple": [t["ns"], t["w"], t["ov"]], "trace": t})
        elif v["impl"]:
            ctx.spec_drift(f"WindowGenerator({t['ns']},{t['w']},{t['ov']}) step {v['impl']} at {v['pos']} is not a step "
                           f"of spec/lib/Windows.tla (all property-layer formulas hold)")
    for t in trs[:2] + trs[-2:]:
        ctx.sample({"triple": [t["ns"], t["w"], t["ov"]], "nwin": t["nwin"], "windows": [x[:6] for x in t["wins"][:4]]})
    # 3. binding self-test: corrupt one field / drop one event of accepted traces -> must be flagged
    selftest(ctx, trs, {v["index"] for v in verdicts})
    ctx.cov["rule"] = ("model: every (ns,w,ov) of the box, every window; traces: one real WindowGenerator execution per "
                       "triple (exhaustive small box + seeded random from the 400x64 box + random large + the repository's "
                       "call-site numbers), each in one of 7 argument forms x 6 sampling rates x 6 signal forms for slice_array, "
                       "with object histories (see the module docstring); non-trivial = more than one window")
    ctx.cov["exhaustive"] = True
    ctx.assumptions += ["TLC 32-bit integers: lengths <= 1e7", "Hann identity w[i]+w[ov-1-i]=1 is asserted by the code itself "
                        "at run time and is the only numeric fact the splice clause rests on"]


def selftest(ctx, trs, bad):
    cands = [i for i, t in enumerate(trs) if i not in bad and len(t["wins"]) >= 3 and t["ov"] % 2 == 0
             and 0 < 2 * t["ov"] <= t["w"]][:40]
    if len(cands) < 5:
        raise tlc.TLCError("selftest: not enough accepted multi-window traces")
    mut = []
    for j, i in enumerate(cands[:20]):
        t = copy.deepcopy(trs[i])
        kind = j % 5
        if kind == 0:
            t["wins"][1][0] += 1          # first shifted: overlap/cover broken
        elif kind == 1:
            del t["wins"][1]              # an event dropped
        elif kind == 2:
            t["nwin"] += 1                # announced count
        elif kind == 3:
            t["wins"][1][4] -= 1          # last_valid: partition broken
        else:
            t["wins"][1][6] = [["one", 0, t["wins"][1][1] - t["wins"][1][0]]]   # no ramps: splice broken
        mut.append(t)
    keep = ctx.cov["traces_validated_against_impl"]
    v = tracecheck.validate(ctx, "trace/WindowsTrace.tla", "trace/WindowsTrace.cfg", mut, label="selftest", jvms=1, nstates=nstates)
    ctx.cov["traces_validated_against_impl"] = keep
    flagged = {x["index"] for x in v if x["prop"]}
    if len(flagged) != len(mut):
        raise tlc.TLCError(f"binding self-test: only {len(flagged)}/{len(mut)} corrupted traces were rejected")
    ctx.cov["selftest_corrupted_traces_rejected"] = len(flagged)


def replay_model_cex(ctx, inv, st):
    """the model (which mirrors the code) violates the property layer: reproduce on the real code"""
    ns, w, ov = int(st.get("ns", 0)), int(st.get("w", 0)), int(st.get("ov", 0))
    t = record(ns, w, ov)
    v = tracecheck.validate(ctx, "trace/WindowsTrace.tla", "trace/WindowsTrace.cfg", [t], label="cex", jvms=1, nstates=nstates)
    if v and v[0]["prop"]:
        ctx.violation("win:" + v[0]["prop"].split(":")[0],
                      f"model counterexample ({inv}) reproduced on WindowGenerator({ns},{w},{ov}): {v[0]['prop']}",
                      {"triple": [ns, w, ov], "trace": t})
    else:
        raise tlc.TLCError(f"model violates {inv} at ({ns},{w},{ov}) but the real code does not: the model is wrong")


def replay(ctx, sc):
    t = record(*sc["triple"])
    v = tracecheck.validate(ctx, "trace/WindowsTrace.tla", "trace/WindowsTrace.cfg", [t], label="replay", jvms=1, nstates=nstates)
    for x in v:
        if x["prop"]:
            ctx.violation("win:" + x["prop"].split(":")[0], f"replay {sc['triple']}: {x['prop']}", sc)
