"""C17 - sliding windows cover, overlap, partition and splice exactly.

1. TLC: spec/lib/Windows.tla, exhaustive box (implementation layer => property layer).
2. code -> spec: the real WindowGenerator is executed for every triple of a box (+ random large
   ones); each execution is a trace validated by spec/trace/WindowsTrace.tla, property layer
   evaluated on every observed state.
3. binding self-test: a corrupted copy of an accepted trace must be rejected.
"""
import copy
import random

import numpy as np
import scipy.signal

from vkit import apalache, tlc, tracecheck


def _rle(amp, w):
    """symbolic run-length code of an amplitude vector: 1.0 -> one, w[i] -> ("w", i)"""
    lut = {float(v): i for i, v in enumerate(w)}
    sym = []
    for v in amp:
        v = float(v)
        if v == 1.0:
            sym.append(("one", 0))
        elif v in lut:
            sym.append(("w", lut[v]))
        else:
            sym.append(("other", 0))
    segs = []
    for k, i in sym:
        if segs:
            s = segs[-1]
            if k == "one" and s[0] == "one":
                s[2] += 1
                continue
            if k == "other" and s[0] == "other":
                s[2] += 1
                continue
            if k == "w" and s[0] == "w" and (s[2] == 1 or s[3] == 1) and i == s[1] + s[2]:
                s[2] += 1
                s[3] = 1
                continue
            if k == "w" and s[0] == "w" and (s[2] == 1 or s[3] == -1) and i == s[1] - s[2]:
                s[2] += 1
                s[3] = -1
                continue
        segs.append([k, i, 1, 0])
    return [["wr" if (s[0] == "w" and s[3] == -1) else s[0], s[1], s[2]] for s in segs]


def record(ns, w, ov):
    """one execution of the real object -> one trace record"""
    from ibldsp.utils import WindowGenerator
    rec = {"ns": ns, "w": w, "ov": ov, "nwin": 0, "wins": [], "exc": "", "nslices": 0}
    try:
        wg = WindowGenerator(ns, w, ov)
        rec["nwin"] = int(wg.nwin)
        # every other triple uses ONE object for all its generators, and iterates `firstlast` twice (a generator that
        # keeps state between uses shows up as different windows the second time); the others use fresh objects
        same = (ns + w + ov) % 2 == 0
        # one triple in four: the generators of ONE object are consumed in lock-step (zip-like use), with a complete tscale()
        # pass while they are all suspended: the generators of an object must not share position state
        interleaved = (ns + w + ov) % 4 == 2
        ramp = scipy.signal.windows.hann((ov + 1) * 2 + 1, sym=True)[1:ov + 1]
        if interleaved:
            its = {"fl": iter(wg.firstlast), "val": iter(wg.firstlast_valid) if ov % 2 == 0 else None,
                   "spl": iter(wg.firstlast_splicing), "sl": iter(wg.slice)}
            got = {"fl": [], "val": [], "spl": [], "sl": []}
            ts, k = None, 0
            while True:
                progressed = False
                for name in ("fl", "val", "spl", "sl"):
                    if its[name] is None:
                        continue
                    try:
                        item = next(its[name])
                    except StopIteration:
                        its[name] = None
                        continue
                    got[name].append(item)
                    progressed = True
                if k == 0:
                    ts = wg.tscale(fs=1)
                k += 1
                if not progressed or k > 4 * (ns + 2):
                    break
            fl = [(int(a), int(b), i) for i, (a, b) in enumerate(got["fl"])]      # iw is shared by design: not observed here
            val = ([tuple(int(x) for x in v) for v in got["val"]] if ov % 2 == 0 else [(f, l, -1, -1) for f, l, _ in fl])
            spl = [(int(f), int(l), _rle(a, ramp), len(a)) for f, l, a in got["spl"]]
            sl = got["sl"]
        else:
            new = (lambda: wg) if same else (lambda: WindowGenerator(ns, w, ov))
            if same:
                first_pass = [(int(a), int(b)) for a, b in wg.firstlast]
            fl = []
            for first, last in wg.firstlast:
                fl.append((int(first), int(last), int(wg.iw)))
            if same and first_pass != [(a, b) for a, b, _ in fl]:
                fl = [(-1, -1, -1)] * len(fl)          # the second iteration differs from the first: windows are not reproducible
            if ov % 2 == 0:
                val = [tuple(int(x) for x in v) for v in new().firstlast_valid]
            else:
                val = [(f, l, -1, -1) for f, l, _ in fl]
            spl = [(int(f), int(l), _rle(a, ramp), len(a)) for f, l, a in new().firstlast_splicing]
            ts = new().tscale(fs=1)
            sl = list(new().slice)
        rec["nslices"] = len(sl)
        for k, (f, l, iw) in enumerate(fl):
            fv, lv = (-99, -99)
            if k < len(val) and val[k][:2] == (f, l):
                fv, lv = val[k][2:]
            segs = [["other", 0, l - f]]
            if k < len(spl) and spl[k][:2] == (f, l) and spl[k][3] == l - f:
                segs = spl[k][2]
            c2 = int(round(2 * float(ts[k]))) if k < len(ts) and float(2 * ts[k]).is_integer() else -99
            if k < len(sl) and (sl[k].start, sl[k].stop) != (f, l):
                rec["nslices"] = -1
            rec["wins"].append([f, l, iw, fv, lv, c2, segs])
    except Exception as e:  # the property says these calls succeed for every admissible triple
        rec["exc"] = type(e).__name__
        rec["wins"] = []
    return rec


def triples(ctx):
    rnd = random.Random(ctx.seed)
    out = []
    small = (30, 10) if ctx.quick else (120, 24)
    for ns in range(1, small[0] + 1):
        for w in range(1, small[1] + 1):
            for ov in range(0, w):
                out.append((ns, w, ov))
    nbox = 6000 if ctx.quick else 60000
    for _ in range(nbox):
        w = rnd.randint(1, 64)
        out.append((rnd.randint(1, 400), w, rnd.randint(0, w - 1)))
    # random large triples; the number of windows is kept below 300 so that traces stay small
    nlarge = 300 if ctx.quick else 4000
    for _ in range(nlarge):
        w = rnd.choice([rnd.randint(2, 200), rnd.randint(200, 600)])
        ov = rnd.choice([0, rnd.randint(0, w - 1), rnd.randint(0, w // 2), (w // 2) & ~1])
        ov = min(ov, w - 1)
        nwin = rnd.randint(1, 60)
        ns = max(1, (w - ov) * nwin + rnd.randint(-w, w))
        ns = min(ns, 10 ** 7)
        out.append((ns, w, ov))
    return out


def nstates(t):
    return 3 if t["exc"] else len(t["wins"]) + 4


def classify(t):
    ns, w, ov = t["ns"], t["w"], t["ov"]
    return f"ns={ns},w={w},ov={ov}"


def run(ctx):
    ctx.level = "model_checking"
    # 1. model: implementation layer => property layer, exhaustive box
    cfg = "mc/Windows_quick.cfg" if ctx.quick else "mc/Windows_thorough.cfg"
    r = tlc.run("lib/Windows.tla", cfg, workers=8 if ctx.quick else 16, timeout=3000, heap="8g", coverage=True)
    ctx.tlc(r, cfg)
    if r.ok:
        tlc.require_all_actions_taken(r)
    if not r.ok:
        st = r.error_trace[-1] if r.error_trace else {}
        sc = {k: v for k, v in st.items() if not k.startswith("_")}
        # a model-level counterexample is a finding about the code only once replayed on it
        replay_model_cex(ctx, r.invariant_violated, sc)
    # 1b. unbounded parameters: inductive invariant of the same generator, discharged symbolically (Apalache):
    #     Init => IndInv ; IndInv /\ Next => IndInv' /\ (InRange /\ Cover /\ Overlap), for ALL ns, w, ov
    ob = [("Init", "IndInv", 0), ("IndInit", "IndInvAndSafety", 1)]
    done = [apalache.check("apalache/WindowsInd.tla", i, v, n) for i, v, n in ob]
    if not all(done):
        raise tlc.TLCError(f"inductive invariant of spec/apalache/WindowsInd.tla not established: {done}")
    ctx.cov["inductive_invariant"] = {"tool": "apalache-mc 0.58", "obligations": len(ob), "discharged": sum(done),
                                      "statement": "Init => IndInv; IndInv /\\ Next => IndInv' /\\ InRange /\\ Cover /\\ Overlap "
                                                   "for unbounded ns, w, ov (count / valid / splice clauses are bounded-model only)"}
    # 2. code -> spec
    tr = triples(ctx)
    random.Random(ctx.seed).shuffle(tr)     # balance the batches
    trs = [record(*t) for t in tr]
    for t in trs:
        nontrivial = len(t["wins"]) > 1
        ctx.count(1, key=(t["ns"], t["w"], t["ov"]) if nontrivial else None)
    verdicts = tracecheck.validate(ctx, "trace/WindowsTrace.tla", "trace/WindowsTrace.cfg", trs, label="windows",
                                   jvms=8, workers=2, nstates=nstates)
    for v in verdicts:
        t = trs[v["index"]]
        if v["prop"]:
            key = "win:" + v["prop"].split(":")[0]
            ctx.violation(key, f"WindowGenerator({t['ns']},{t['w']},{t['ov']}): property-layer clause {v['prop']} "
                          f"false at window {v['pos']}", {"triple": [t["ns"], t["w"], t["ov"]], "trace": t})
        elif v["impl"]:
            ctx.spec_drift(f"WindowGenerator({t['ns']},{t['w']},{t['ov']}) step {v['impl']} at {v['pos']} is not a step "
                           f"of spec/lib/Windows.tla (all property-layer formulas hold)")
    for t in trs[:2] + trs[-2:]:
        ctx.sample({"triple": [t["ns"], t["w"], t["ov"]], "nwin": t["nwin"], "windows": [x[:6] for x in t["wins"][:4]]})
    # 3. binding self-test: corrupt one field / drop one event of accepted traces -> must be flagged
    selftest(ctx, trs, {v["index"] for v in verdicts})
    ctx.cov["rule"] = ("model: every (ns,w,ov) of the box, every window; traces: one real WindowGenerator execution per "
                       "triple (exhaustive small box + seeded random from the 400x64 box + random large); "
                       "non-trivial = more than one window")
    ctx.cov["exhaustive"] = True
    ctx.assumptions += ["TLC 32-bit integers: lengths <= 1e7", "Hann identity w[i]+w[ov-1-i]=1 is asserted by the code itself "
                        "at run time and is the only numeric fact the splice clause rests on"]


def selftest(ctx, trs, bad):
    cands = [i for i, t in enumerate(trs) if i not in bad and len(t["wins"]) >= 3 and t["ov"] % 2 == 0
             and 0 < 2 * t["ov"] <= t["w"]][:40]
    if len(cands) < 5:
        raise tlc.TLCError("selftest: not enough accepted multi-window traces")
    mut = []
    for j, i in enumerate(cands[:20]):
        t = copy.deepcopy(trs[i])
        kind = j % 5
        if kind == 0:
            t["wins"][1][0] += 1          # first shifted: overlap/cover broken
        elif kind == 1:
            del t["wins"][1]              # an event dropped
        elif kind == 2:
            t["nwin"] += 1                # announced count
        elif kind == 3:
            t["wins"][1][4] -= 1          # last_valid: partition broken
        else:
            t["wins"][1][6] = [["one", 0, t["wins"][1][1] - t["wins"][1][0]]]   # no ramps: splice broken
        mut.append(t)
    keep = ctx.cov["traces_validated_against_impl"]
    v = tracecheck.validate(ctx, "trace/WindowsTrace.tla", "trace/WindowsTrace.cfg", mut, label="selftest", jvms=1, nstates=nstates)
    ctx.cov["traces_validated_against_impl"] = keep
    flagged = {x["index"] for x in v if x["prop"]}
    if len(flagged) != len(mut):
        raise tlc.TLCError(f"binding self-test: only {len(flagged)}/{len(mut)} corrupted traces were rejected")
    ctx.cov["selftest_corrupted_traces_rejected"] = len(flagged)


def replay_model_cex(ctx, inv, st):
    """the model (which mirrors the code) violates the property layer: reproduce on the real code"""
    ns, w, ov = int(st.get("ns", 0)), int(st.get("w", 0)), int(st.get("ov", 0))
    t = record(ns, w, ov)
    v = tracecheck.validate(ctx, "trace/WindowsTrace.tla", "trace/WindowsTrace.cfg", [t], label="cex", jvms=1, nstates=nstates)
    if v and v[0]["prop"]:
        ctx.violation("win:" + v[0]["prop"].split(":")[0],
                      f"model counterexample ({inv}) reproduced on WindowGenerator({ns},{w},{ov}): {v[0]['prop']}",
                      {"triple": [ns, w, ov], "trace": t})
    else:
        raise tlc.TLCError(f"model violates {inv} at ({ns},{w},{ov}) but the real code does not: the model is wrong")


def replay(ctx, sc):
    t = record(*sc["triple"])
    v = tracecheck.validate(ctx, "trace/WindowsTrace.tla", "trace/WindowsTrace.cfg", [t], label="replay", jvms=1, nstates=nstates)
    for x in v:
        if x["prop"]:
            ctx.violation("win:" + x["prop"].split(":")[0], f"replay {sc['triple']}: {x['prop']}", sc)
