"""Shared by c03 / c12 / c04: synthesised NP2 recordings, instrumented NP2Converter runs, trace records."""
import hashlib
import inspect
import json
import shutil
import signal
import threading
from contextlib import contextmanager
from pathlib import Path

import numpy as np

from vkit import metagen

RATIO = 12
UNBOUND = set()   # instrumentation points that the code under test does not have (any more)
WRAP = 32000      # the sample counter written into the int16 sync column wraps here
OV = 576
GAINSETS = [(0.5, 8192), (0.62, 2048), (0.6, 512), (0.62, 8192)]
# TLC integers are 32 bits wide and its arithmetic raises on overflow: whatever the code under test hands out is clipped to +-I32
# before it is logged (far beyond every legitimate position / count, small enough for the sums and differences of the trace spec)
I32 = 10 ** 8
MAX_EVENTS = 20000  # calls of _ind2save per run when the caller gives no tighter bound
RUN_LIMIT_S = 180   # wall clock of one conversion (the longest one of the thorough tier takes a few seconds)
LIB_EXC = (Exception, SystemExit)   # what a call into the code under test may raise: all of it is the run's outcome, not the harness's


def shank_map(kind, n, rng, nshank):
    """site tables for n channels: (shank,row,col) per on-disk channel"""
    if kind == "dense4":
        return metagen.dense_sites("NP2.4", n=n, nshank=4)
    if kind == "blocks":           # contiguous runs of random lengths
        cuts = sorted(rng.choice(np.arange(1, n), size=min(n - 1, int(rng.integers(nshank - 1, nshank + 6))), replace=False).tolist())
        bounds = [0] + cuts + [n]
        sh = np.zeros(n, dtype=int)
        for i in range(len(bounds) - 1):
            sh[bounds[i]:bounds[i + 1]] = i % nshank
    elif kind == "interleaved":
        sh = np.arange(n) % nshank
    elif kind == "random":
        sh = rng.integers(0, nshank, n)
        sh[:nshank] = np.arange(nshank)
    elif kind == "singleton":      # one shank holds a single channel, somewhere in the middle
        sh = rng.integers(0, max(nshank - 1, 1), n)
        sh[: max(nshank - 1, 1)] = np.arange(max(nshank - 1, 1))
        sh[int(rng.integers(1, n - 1))] = nshank - 1
    elif kind == "noshank0":       # the recording uses no site on shank 0 (e.g. shanks 1 and 2 only)
        used = list(range(1, max(nshank, 2) + 1))[:3]
        sh = np.array([used[i % len(used)] for i in rng.integers(0, len(used), n)])
        sh[: len(used)] = used
    elif kind == "gap":            # shanks 0 and 2 (or 0 and 3): a shank number is skipped
        used = [0, 2 + int(rng.integers(0, 2))]
        sh = np.array([used[i] for i in rng.integers(0, 2, n)])
        sh[:2] = used
    elif kind == "only":           # a four-shank probe recorded from one shank only, and not the first one
        sh = np.full(n, 1 + int(rng.integers(0, 3)))
    else:
        raise ValueError(kind)
    cnt = {}
    sites = []
    for c in range(n):
        s = int(sh[c])
        k = cnt.get(s, 0)
        cnt[s] = k + 1
        sites.append((s, k // 2, k % 2))
    return sites


PTYPES = {"NP2.4": (24, 2013), "NP2.1": (21, 1030)}   # imDatPrb_type values the reader maps to each NP2 kind


def make_recording(root, ns, rng, kind="NP2.4", n=384, sites=None, gainset=(0.5, 8192), content="random", label="probe00",
                   encoding=None, ptype=None, fname=None):
    """root/raw_ephys_data/<label>/_spikeglx_ephysData_g0_t0.imec0.ap.{bin,meta}; sync column = sample counter.
    encoding: site table written as snsShankMap ("shank", default) or snsGeomMap ("geom"); ptype: the other imDatPrb_type
    value of the same probe kind (2013 for NP2.4, 1030 for NP2.1). Neither changes the random draws: the data are identical."""
    root = Path(root)
    folder = root / "raw_ephys_data" / label
    if sites is None:
        sites = metagen.dense_sites(kind, n=n, nshank=4 if kind == "NP2.4" else 1)
    txt, info = metagen.make_meta(kind, sites, ns=ns, range_max=gainset[0], maxint=gainset[1], **({"encoding": encoding} if encoding else {}))
    if ptype is not None and kind in PTYPES and int(ptype) != PTYPES[kind][0]:
        if int(ptype) not in PTYPES[kind]:
            raise ValueError(f"imDatPrb_type {ptype} is not a {kind} probe")
        old = PTYPES[kind][0]
        txt = txt.replace(f"imDatPrb_type={old}\n", f"imDatPrb_type={int(ptype)}\n").replace(f"imroTbl=({old},384)", f"imroTbl=({int(ptype)},384)")
        info["ptype"] = int(ptype)
    nc = len(sites) + 1
    if kind.startswith("NP2"):
        # a complete (not channel-subsetted) recording of a probe with len(sites) channels: acquired = saved
        lines = []
        for line in txt.splitlines():
            if line.startswith("acqApLfSy="):
                line = f"acqApLfSy={len(sites)},0,1"
            elif line.startswith("snsSaveChanSubset="):
                line = f"snsSaveChanSubset=0:{len(sites)}"
            lines.append(line)
        txt = "\n".join(lines) + "\n"
    if content == "random":
        d = metagen.random_int16(rng, ns, nc, all_values=True)
    else:   # broadband, non constant, moderate amplitude (LF comparisons)
        t = np.arange(ns)
        base = sum(a * np.sin(2 * np.pi * f * t / 30000 + p) for a, f, p in
                   zip(rng.uniform(200, 900, 8), rng.uniform(2, 6000, 8), rng.uniform(0, 6.28, 8)))
        d = (base[:, None] * rng.uniform(0.5, 1.5, nc)[None, :] + rng.normal(0, 300, (ns, nc)))
        d = np.clip(np.round(d), -8000, 8000).astype(np.int16)
    d[:, -1] = (np.arange(ns) % WRAP).astype(np.int16)
    # fname: another name for the AP pair (<fname>.bin / <fname>.meta) - the band tag attached with an underscore, a run name that
    # contains the letters "ap": names the reader, the converter and the reconstructor all accept
    b = metagen.write_recording(folder, fname, txt, d, suffix="") if fname else \
        metagen.write_recording(folder, "_spikeglx_ephysData_g0_t0.imec0", txt, d)
    return b, d, info


def sha1(p):
    return hashlib.sha1(Path(p).read_bytes()).hexdigest() if Path(p).exists() else None


def i32(x):
    """an integer the code under test handed out (a count, a position, a word of the sync column), as a Python int that TLC can
    read: values beyond +-I32 are clipped (they stay different from every value the specification expects)"""
    return int(max(-I32, min(I32, int(x))))


def event_cap(ns, w):
    """upper bound on the calls of _ind2save in one run over ns samples with windows of w samples (two per window, stride w - OV):
    twice what a terminating loop makes, so that only a loop that does not stop reaches it"""
    try:
        stride = max(int(w) - OV, RATIO)
        return 4 * (int(ns) // stride + 2) + 8
    except (TypeError, ValueError, OverflowError):
        return MAX_EVENTS


class RunLimit(Exception):
    """the code under test did not come back: raised INTO it by the harness (call bound of the hook / wall clock) to end the run"""


@contextmanager
def time_limit(seconds, what, max_bytes=None):
    """bounds a call into the code under test: by wall clock (main thread only; elsewhere the bound on the hook's calls stands
    alone) and, with max_bytes, by the size any file may grow to meanwhile (a loop that never stops writing ends with OSError EFBIG)"""
    import resource
    if threading.current_thread() is not threading.main_thread() or not hasattr(signal, "setitimer"):
        yield
        return

    def on_alarm(signum, frame):
        raise RunLimit(f"{what} did not return within {seconds} s (stopped by the harness)")
    old = signal.signal(signal.SIGALRM, on_alarm)
    fsize = resource.getrlimit(resource.RLIMIT_FSIZE)
    if max_bytes:
        cap = int(max(max_bytes, 1 << 26))
        resource.setrlimit(resource.RLIMIT_FSIZE, (cap if fsize[1] == resource.RLIM_INFINITY else min(cap, fsize[1]), fsize[1]))
    signal.setitimer(signal.ITIMER_REAL, seconds, 1.0)   # and again every second, should the first one be swallowed on the way out
    try:
        yield
    finally:
        signal.setitimer(signal.ITIMER_REAL, 0)
        signal.signal(signal.SIGALRM, old)
        resource.setrlimit(resource.RLIMIT_FSIZE, fsize)


class Recorder:
    """wraps NP2Converter._ind2save on one instance: one event per call (the tokens are read off the sync column of
    what the method returned, i.e. from the data that is about to be written).
    The wrapper hands through whatever arguments the method is called with and whatever it returns. When a call cannot be decoded
    (another signature, a window generator without the attributes read here, a return value that is not a 2-D numeric array) the
    run is not bound: `undecodable` says why, the caller drops the events and the run is judged on the files it leaves.
    The only exception the wrapper raises itself is RunLimit, when the window loop calls it more than `max_events` times."""

    def __init__(self, conv, offset=0, max_events=None):
        self.events = []
        self.conv = conv
        self.offset = int(offset)   # the converted range starts at this sample of the file (NP2.1 path): tokens are relative to it
        self.max_events = int(max_events or MAX_EVENTS)
        self.calls = 0
        self.undecodable = None
        self.bound = hasattr(conv, "_ind2save")
        if not self.bound:
            # the private per-window method is not there (renamed / inlined): no per-window observation, the run is judged on the
            # files it leaves (black box); reported as drift by the caller
            UNBOUND.add("NP2Converter._ind2save")
            return
        orig = conv._ind2save
        try:
            sig = inspect.signature(orig)
        except LIB_EXC:     # not introspectable: positional convention of the code as verified
            sig = None

        def wrapped(*args, **kw):
            out = orig(*args, **kw)
            self.calls += 1
            if self.calls > self.max_events:
                raise RunLimit(f"the window loop does not stop: _ind2save called {self.calls} times, a terminating loop makes at most "
                               f"{self.max_events // 2} calls here (stopped by the harness)")
            if self.undecodable is None:
                try:
                    if sig is not None:
                        ba = sig.bind(*args, **kw)
                        ba.apply_defaults()
                        a = ba.arguments
                    else:
                        a = dict(zip(("chunk", "chunk_sync", "wg", "ratio", "etype"), args), **kw)
                    self.events.append(self.decode(out, a["chunk"], a["chunk_sync"], a["wg"], a.get("etype", "ap")))
                except LIB_EXC as e:
                    self.undecodable = f"call {self.calls} of _ind2save: {type(e).__name__}: {e}"[:200]
            return out
        conv._ind2save = wrapped

    def decode(self, out, chunk, chunk_sync, wg, etype):
        if not isinstance(etype, str) or etype not in ("ap", "lf"):
            raise ValueError(f"etype {etype!r}")
        out = np.asarray(out)
        if out.ndim != 2 or out.dtype.kind not in "iuf":
            raise ValueError(f"returned an array of shape {out.shape} and dtype {out.dtype}")
        with np.errstate(all="ignore"):
            tok = np.nan_to_num(out[:, -1].astype(np.float64), nan=-float(I32), posinf=float(I32), neginf=-float(I32))
            tok = np.clip(tok, -I32, I32).astype(np.int64)
        chunk_sync = np.asarray(chunk_sync)
        first = i32(round(float(chunk_sync[0, 0]))) - self.offset if chunk_sync.shape[1] else -1
        tok = tok - self.offset
        ns, iw, nwin, nswin, overlap = int(wg.ns), i32(wg.iw), i32(wg.nwin), int(wg.nswin), int(wg.overlap)
        if first >= 0 and ns > WRAP:
            # the counter in the sync column wraps at WRAP: the multiple of WRAP is resolved with the position the generator
            # claims (windows are shorter than WRAP), everything else still comes from the data
            fw = first
            first = fw + WRAP * int(round((iw * (nswin - overlap) - fw) / WRAP))
            # rows of one window follow each other by less than WRAP samples (1 for AP, the decimation ratio for LF): unwrap
            # cumulatively from the window's first sample, so that windows longer than WRAP are read correctly too
            if tok.size:
                steps = np.r_[(tok[0] - fw) % WRAP, np.diff(tok) % WRAP]
                tok = first + np.cumsum(steps)
        tok = np.clip(tok, -I32, I32).astype(np.int64).tolist()
        return {"etype": etype, "iw": iw, "nwin": nwin, "len": i32(np.shape(chunk)[1]),
                "first": i32(first), "last": i32(min(first + nswin, ns)), "tok": tok}

    def result(self):
        """the events of the run, or none at all when a call could not be decoded (the run is then judged as a black box)"""
        if self.undecodable is not None:
            UNBOUND.add("NP2Converter._ind2save: " + self.undecodable)
            return []
        return self.events


def norm_status(status, what="process()"):
    """what process() returned -> (code, note). 1 (any scalar that equals 1) is 1, other integers stay, None is None; anything else
    (a string, an array, NaN, a number that is not an integer) is not a status: code -7 and a note that says what it was"""
    if status is None or (isinstance(status, str) and status == "skipped"):
        return status, ""
    try:
        note = f"{what} returned {status!r:.60} ({type(status).__name__})"
    except LIB_EXC:
        note = f"{what} returned an object of type {type(status).__name__}"
    try:
        if np.ndim(status) == 0 and not isinstance(status, (str, bytes)):
            if bool(status == 1):
                return 1, ""
            if isinstance(status, (int, np.integer)) and not isinstance(status, (bool, np.bool_)):
                return i32(status), ""
    except LIB_EXC:
        pass
    return -7, note


def tlc_safe(obj):
    """a trace record as TLC's JSON reader takes it: NumPy scalars as Python ones, integers clipped to +-I32, strings without the
    characters that end a TLA+ string or split a verdict line. A float is never part of a record: machinery error."""
    if isinstance(obj, (bool, np.bool_)):
        return bool(obj)
    if isinstance(obj, (int, np.integer)):
        return i32(obj)
    if isinstance(obj, str):
        return "".join(c if 32 <= ord(c) < 127 and c not in '"\\|' else ("'" if c == '"' else "/" if c in "\\|" else " ") for c in obj)
    if isinstance(obj, dict):
        return {str(k): tlc_safe(v) for k, v in obj.items()}
    if isinstance(obj, (list, tuple)):
        return [tlc_safe(v) for v in obj]
    raise TypeError(f"trace record holds {obj!r:.60} ({type(obj).__name__})")


def compress_tokens(tok, stride):
    """[start, n, explicit list or []] - explicit only when the tokens are not start, start+stride, ..."""
    if not tok:
        return [0, 0, []]
    reg = all(tok[i] == tok[0] + i * stride for i in range(len(tok)))
    return [int(tok[0]), len(tok), [] if reg else [int(x) for x in tok]]


def close_reader(conv):
    try:
        conv.sr.close()
    except LIB_EXC:
        pass


def convert(ap_file, w, **kw):
    """one real NP2Converter run (no compression, no post-check unless asked); returns (status, events, conv, exc).
    status: 1, another integer, None (nothing returned / raised), -7 (not a status: `exc` says what it was)"""
    exc, status, conv, events, rec = "", None, None, [], None
    try:
        # (import, constructor and init_params are code under test too: when they raise, the run is abnormal, not the harness broken)
        with time_limit(RUN_LIMIT_S, "NP2Converter run", kw.get("max_bytes")):
            import neuropixel
            conv = neuropixel.NP2Converter(ap_file, post_check=kw.get("post_check", False), compress=kw.get("compress", False),
                                           delete_original=kw.get("delete_original", False))
            conv.init_params(nwindow=w)
            rec = Recorder(conv, max_events=kw.get("max_events"))
            status = conv.process(overwrite=kw.get("overwrite", False))
    except LIB_EXC as e:  # noqa
        exc = f"{type(e).__name__}: {e}"
    finally:
        close_reader(conv)
    events = rec.result() if rec is not None else []
    status, note = norm_status(status)
    return status, events, conv, exc or note


def convert_reuse(ap_file, w1, w2, **kw):
    """the same converter object used twice: process() with window w1, then init_params(nwindow=w2) and
    process(overwrite=True). Returns what `convert` returns, for the SECOND run."""
    exc, status, events, conv, rec = "", None, [], None, None
    try:
        with time_limit(2 * RUN_LIMIT_S, "NP2Converter run (twice)", kw.get("max_bytes")):
            import neuropixel
            conv = neuropixel.NP2Converter(ap_file, post_check=kw.get("post_check", False), compress=False, delete_original=False)
            # first_nsamples: the first run converts only a part (init_params(nsamples=...)); the second init_params does not say
            # nsamples, which means the whole recording (seed round i: the partial length of the earlier call was kept)
            first_kw = {"nsamples": int(kw["first_nsamples"])} if kw.get("first_nsamples") else {}
            conv.init_params(nwindow=w1, **first_kw)
            st1, note = norm_status(conv.process(), "the first process()")
            if st1 != 1:
                return st1, [], conv, note or f"first run returned {st1}"
            conv.init_params(nwindow=w2)
            rec = Recorder(conv, max_events=kw.get("max_events"))
            status = conv.process(overwrite=True)
    except LIB_EXC as e:  # noqa
        exc = f"{type(e).__name__}: {e}"
    finally:
        close_reader(conv)
    events = rec.result() if rec is not None else []
    status, note = norm_status(status)
    return status, events, conv, exc or note


def convert_opts(ap_file, init=None, *, compress=False, post_check=False, overwrite=False, decline_first=False, np21=None, twice=False,
                 max_events=None, max_bytes=None):
    """one real NP2Converter run with arbitrary `init_params` keywords (`init` None: init_params is not called, the defaults the
    constructor set stand). decline_first: process() is first called without overwrite on the same object (output exists: it
    declines), then process(overwrite=True) is the observed run. np21: keyword arguments (offset / assert_shanks) for a direct
    call of the NP2.1 path, which process() does not forward; that method is private: when it is not there the run is skipped
    (status 'skipped') and the name is recorded in UNBOUND. Returns (status, events, conv, exc, first_status)."""
    exc, status, events, first_status, conv, rec = "", None, [], None, None, None
    try:
        with time_limit(2 * RUN_LIMIT_S, "NP2Converter run", max_bytes):
            import neuropixel
            conv = neuropixel.NP2Converter(ap_file, post_check=post_check, compress=compress, delete_original=False)
            if init is not None:
                conv.init_params(**init)
            if decline_first or twice:
                # decline_first: the output exists, the first call declines; twice: the first call converts (and, with compress, leaves
                # the object pointing at what it compressed); the observed run is the same object's process(overwrite=True)
                first_status = conv.process()
                overwrite = True
            rec = Recorder(conv, offset=(np21 or {}).get("offset", 0), max_events=max_events)
            if np21 is not None:
                fn = getattr(conv, "_process_NP21", None)
                if fn is None:
                    UNBOUND.add("NP2Converter._process_NP21")
                    status = "skipped"
                else:
                    status = fn(overwrite=overwrite, **np21)
            else:
                status = conv.process(overwrite=overwrite)
    except LIB_EXC as e:  # noqa
        exc = f"{type(e).__name__}: {e}"
    finally:
        close_reader(conv)
    events = rec.result() if rec is not None else []
    status, note = norm_status(status)
    first_status, note1 = norm_status(first_status, "the first process()")
    return status, events, conv, exc or note or note1, first_status


def read_int16(path):
    """flat int16 content of a .bin file or of an mtscomp .cbin file (read with the library, not with the code under test)"""
    path = Path(path)
    if path.suffix == ".cbin":
        import mtscomp
        r = mtscomp.decompress(path, path.with_suffix(".ch"))
        try:
            return np.array(r[:], dtype=np.int16).reshape(-1)
        finally:
            r.close()
    return np.fromfile(path, dtype=np.int16)


def window_events(events, nsamp_of_first):
    """pair the ap / lf events of each window -> rows for NP2SplitTrace"""
    wins = []
    aps = [e for e in events if e["etype"] == "ap"]
    lfs = [e for e in events if e["etype"] == "lf"]
    n = max(len(aps), len(lfs))
    for k in range(n):
        a = aps[k] if k < len(aps) else None
        l = lfs[k] if k < len(lfs) else None
        src = a or l
        first = nsamp_of_first(src)
        wins.append({"first": first, "last": first + a["len"] if a else src["last"], "iw": src["iw"], "nwin": src["nwin"],
                     "ap": compress_tokens(a["tok"], 1) if a else [0, 0, []],
                     "lf": compress_tokens(l["tok"], RATIO) if l else [0, 0, []]})
    return wins


def rm(path):
    shutil.rmtree(path, ignore_errors=True)


def dump(obj):
    return json.dumps(obj, sort_keys=True)
