"""C01 - Reader returns calibrated voltages aligned with the probe geometry.

1. TLC: spec/mc/MC_ReaderIndex.tla (lib/ReaderIndex.tla over lib/PySlice.tla): implementation layer (Reader.read /
   __getitem__, memmap and mtscomp paths) = property layer (index the whole calibrated, permuted array), for every
   selector of an exhaustive box; the two readings of Python's slice semantics agree.  Thorough: the model of the tree
   before the negative-step fix must fail (F12, vacuity control).
2. spec -> code: TLC exports the index table of *every* selector of the box (and of boundary selectors on 385 columns);
   the table is first checked against NumPy itself, then drives the reads: the harness takes its selector universe from
   the export.  On 385 x 385 recordings holding all 65 536 int16 values the expected array is computed from the exported
   positions and compared with what the real reader returns.
3. code -> spec: on small recordings (<= 7 samples, <= 9 channels, distinct per-channel gains, distinct raw values) every
   returned value is decoded to a token <<sample, on-disk column, gain class>> and the reads are validated as traces by
   spec/trace/ReaderTrace.tla (property layer on observed tokens; order / geometry at open).
4. numeric projection (not TLC): float32(raw) x factor for all 65 536 values x every gain, both bands; factor derived
   independently from the metadata written (range / maxint / gain), relative tolerance 2e-6.
5. binding self-tests: corrupted traces must be flagged, a perturbed table entry must be noticed.
6. input forms and histories (gap audit after seed round e): selectors are handed in as python ints / slices / lists, as
   int64, int32, uint8 / int16, non-contiguous and read-only arrays, NumPy integer scalars and slices with NumPy bounds;
   array objects are handed in again by later reads; every result is overwritten after it was decoded; probe records
   with the site table as snsGeomMap, the second imDatPrb_type of NP2.1 / NP2.4, no sync channel saved, other ranges /
   imMaxInt / sampling rates, nidq without / with two digital words; history_axis: recordings sharing a file name and a
   folder, all readers alive before the first read (half opened later), reads in turn, repeated calls, failing calls,
   close + open, and the files of a recording replaced under the same names.  A reader that raises at construction is
   a violation (open:Raised), not a machinery failure.
7. robustness (exit 2 is not a detection): everything the reader hands out is observed defensively.  raw_channel_order /
   geometry / shape that are None, strings, NaN, of another dimensionality, missing or raising become the negative
   observation of Order / Geometry / Shape (obs_order, obs_geometry, obs_shape_ok; an order that is not nc column numbers
   is decided in Python as open:Order and its reads are not handed to the implementation layer); a result that is no array
   of real numbers (None, str, complex) has shape [NOSHAPE] / no cell's value (read:Shape / read:Value); close() / open() of
   a reader in use that raise, and a compress_file that returns no path or leaves no readable .cbin / .ch, are open:Raised
   (Session.lifecycle, compress); the reads made before are still judged.  Only the harness's own assumptions (TLC, the
   export, chunk bounds that are readable but not multiples of K, the self-tests) stay machinery failures.
"""
import copy
import logging
import os
import random
import shutil
from pathlib import Path

os.environ.setdefault("TQDM_DISABLE", "1")
import numpy as np  # noqa: E402

from vkit import metagen, tlc, tracecheck  # noqa: E402
import c08  # noqa: E402  (projection of Reader.geometry, generation names)

NONE = 1000000
NOSHAPE = -1         # "shape" of a result that is no array of numbers (None, a string, ...): equal to no shape
GAINS = [50, 125, 250, 500, 1000, 1500, 2000, 3000]
RTOL = 2e-6
TRACE = ("trace/ReaderTrace.tla", "trace/ReaderTrace.cfg")
KNOWN_F12 = "cbin:negative-step-sample-slice"


# ------------------------------------------------------------------------------------------------
# selectors: JSON form (lib/PySlice.tla) <-> python objects
NFORMS = 6


def sel_py(sel, array=False, npint=False):
    """selector record -> the object handed to the reader.  `array` is the *form* of the object: False / 0 python objects
    (int, slice of ints, list), True / 1 an int64 array, 2 an int32 array, 3 the smallest integer dtype that holds the
    entries (uint8 / int16) and slice bounds as NumPy integers, 4 a non-contiguous int64 view, 5 a read-only intp array
    and slice bounds as NumPy integers.  With `npint` an integer selector of form >= 2 is a NumPy integer scalar (what
    np.argmax / iterating over np.arange give), not a python int."""
    form = int(array)
    if sel["k"] == "int":
        i = int(sel["i"])
        if npint and form >= 2:
            return (np.int64, np.int32, np.int16, np.intp)[form % 4](i)
        return i
    if sel["k"] == "slice":
        v = [None if sel[f] == NONE else int(sel[f]) for f in ("a", "b", "s")]
        if form in (3, 5):
            v = [x if x is None else np.int64(x) for x in v]
        return slice(*v)
    lst = [int(v) for v in sel["l"]]
    if form == 0:
        return lst
    if form == 2:
        return np.array(lst, dtype=np.int32)
    if form == 3:
        return np.array(lst, dtype=np.uint8 if all(0 <= v < 256 for v in lst) else np.int16)
    if form == 4:
        base = np.full(2 * len(lst), -1, dtype=np.int64)
        base[::2] = lst
        return base[::2]
    if form == 5:
        a = np.array(lst, dtype=np.intp)
        a.setflags(write=False)
        return a
    return np.array(lst, dtype=np.int64)


def S(a=NONE, b=NONE, s=NONE):
    return {"k": "slice", "a": a, "b": b, "s": s}


ALL = S()


def sel_key(sel):
    return (sel["k"],) + tuple(sel[f] if f != "l" else tuple(sel[f]) for f in sorted(sel) if f != "k")


def is_f12(fmt, nsel):
    return fmt == "cbin" and nsel["k"] == "slice" and nsel["s"] != NONE and nsel["s"] < 0


# ------------------------------------------------------------------------------------------------
# recordings
def small_sites(kind, n, rnd):
    gen = c08.GEN[kind]
    grid = c08.small_grid(gen, 6, 1 if kind == "NP2.1" else 4)
    return rnd.sample(grid, n)


def make_recording(folder, spec):
    """spec: kind ('nidq' or a metagen kind), stream, sites | nidq=(mn,ma,xa,dw), ns, seed, gains (list of (ap,lf)),
    big (bool); optional encoding ('shank' | 'geom'), nsync (0: no sync channel saved), extra (further metadata keys, e.g.
    the other imDatPrb_type of a generation), range_max / maxint, fs, stem (file name; default unique per recording).
    Returns dict with path, data, truth factors, gain classes, gen, sites."""
    rng = np.random.default_rng(spec["seed"])
    ns = spec["ns"]
    if spec["kind"] == "nidq":
        mn, ma, xa, dw = spec["nidq"]
        text, info = metagen.make_nidq_meta(mn, ma, xa, dw, ns=ns, mn_gain=spec.get("mn_gain", 200), ma_gain=spec.get("ma_gain", 4),
                                            range_max=spec.get("range_max") or 5)
        nc, nsync = mn + ma + xa + dw, dw
        i2v = info["range_max"] / 32768
        factors = [i2v / info["mn_gain"]] * mn + [i2v / info["ma_gain"]] * ma + [i2v] * xa + [1.0] * dw
        suffix, gen, sites = ".nidq", "", []
    else:
        sites = [tuple(s) for s in spec["sites"]]
        stream = spec.get("stream", "ap")
        text, info = metagen.make_meta(spec["kind"], sites, stream=stream, ns=ns, gains=spec.get("gains"),
                                       range_max=spec.get("range_max"), maxint=spec.get("maxint"),
                                       encoding=spec.get("encoding", "shank"), nsync=spec.get("nsync", 1), extra=spec.get("extra"),
                                       fs=spec.get("fs"))
        nc, nsync = info["nc"], info["nsync"]
        i2v = info["range_max"] / info["maxint"]
        if c08.GEN[spec["kind"]] == "NP2":
            factors = [i2v / 80] * len(sites) + [1.0] * nsync
        else:
            factors = [i2v / (g[0] if stream == "ap" else g[1]) for g in info["gains"]] + [1.0] * nsync
        suffix, gen = "." + stream, c08.GEN[spec["kind"]]
    factors = np.array(factors, dtype=np.float64)
    uniq = sorted(set(factors[:nc - nsync].tolist()))
    classes = [1 + uniq.index(f) for f in factors[:nc - nsync]] + [0] * nsync
    if spec.get("big"):
        data = metagen.random_int16(rng, ns, nc, all_values=True)
    else:   # distinct values, none close to zero: every cell is identified by its value
        for _ in range(50):
            vals = rng.choice(np.r_[-32768:-63, 64:32768], size=ns * nc, replace=False)
            data = vals.reshape(ns, nc).astype(np.int16)
            if decoder(data, factors, classes) is not None:
                break
        else:
            raise tlc.TLCError("could not draw data with separable calibrated values")
    folder = Path(folder)
    stem = spec.get("stem") or f"r{spec['seed']}_{spec['kind'].replace('.', '')}"
    # "uuid": the dataset id sits in the file names (rec.ap.<uuid>.bin / .meta / .cbin / .ch), as on data servers
    b = metagen.write_recording(folder, stem, text, data, suffix=suffix + ("." + spec["uuid"] if spec.get("uuid") else ""))
    return {"bin": b, "data": data, "factors": factors, "classes": classes, "gen": gen, "sites": [list(s) for s in sites],
            "nc": nc, "nsync": nsync, "ns": ns, "spec": spec}


def compress(rec, K, ctx=None, hist=None):
    """-> path of the .cbin with chunks of K samples (bounds verified).  With ctx: None if the recording cannot be opened
    or compressed (reported as the reader raising at open: there is nothing to index)"""
    import spikeglx
    try:
        sr = spikeglx.Reader(rec["bin"], sort=False)
        if ctx is not None and not obs_shape_ok(sr, rec):
            # the whole array the property indexes is not the file's: no chunking of it can be what the model assumes
            ctx.violation("open:Shape", f"{describe(rec['spec'], 'bin', 0, False, rec['ns'], rec['nc'])}: Reader({rec['bin'].name}).shape is "
                          f"{shape_repr(sr)}, the recording written is {(rec['ns'], rec['nc'])}",
                          {"spec": rec["spec"], "fmt": "bin", "K": 0, "sort": False, "read": None} | ({"hist": hist} if hist else {}))
            sr.close()
            return None
        cb = sr.compress_file(keep_original=True, chunk_duration=K / sr.fs, check_after_compress=False, n_threads=1, quiet=True)
        sr.close()
    except Exception as e:
        if ctx is None:
            raise
        open_raised(ctx, rec, "bin", 0, False, rec["bin"], e, hist)
        return None
    # chunk bounds straight from the header file mtscomp wrote (no private attribute of the Reader involved).  What
    # compress_file returned and left on disk is the library's: a return value that is no path, a .cbin / .ch that is
    # not there or not readable means there is no compressed recording to index (same verdict as compress_file raising)
    import json as _json
    ret = cb
    try:
        cb = Path(ret)
        if not cb.is_file() or cb.suffix != ".cbin":
            raise FileNotFoundError(f"no compressed file at the path returned ({ret!r})")
        bounds = [int(v) for v in _json.loads(cb.with_suffix(".ch").read_text())["chunk_bounds"]]
    except (TypeError, ValueError, KeyError, OSError) as e:
        if ctx is None:
            raise
        open_raised(ctx, rec, "cbin", K, False, rec["bin"], e, hist,
                    told=f"Reader({rec['bin'].name}).compress_file(keep_original=True, chunk_duration={K} samples) returned {ret!r:.80} "
                         f"and left no readable .cbin / .ch ({type(e).__name__}: {e})")
        return None
    if bounds != list(range(0, rec["ns"], K)) + [rec["ns"]]:
        raise tlc.TLCError(f"mtscomp chunk bounds {bounds} are not multiples of {K}")
    return cb


def decoder(data, factors, classes):
    """table of all calibrated values a cell could legitimately or illegitimately take: sample t, column c, class q"""
    cf = {0: 1.0}
    for f, q in zip(factors, classes):
        cf[q] = f
    qs = sorted(cf)
    prod = np.array([[[float(np.float32(data[t, c])) * cf[q] for q in qs] for c in range(data.shape[1])]
                     for t in range(data.shape[0])])
    flat = prod.reshape(-1)
    o = np.argsort(flat)
    sv = flat[o]
    gap = np.diff(sv)
    if np.any(gap <= 1e-4 * np.maximum(np.abs(sv[:-1]), np.abs(sv[1:]))):
        return None
    return {"sorted": sv, "order": o, "shape": prod.shape, "qs": qs}


def decode(dec, out):
    out = np.asarray(out)
    notreal = np.zeros(out.size, dtype=bool)
    if out.dtype.kind == "c":        # a voltage is a real number: a value with an imaginary part is no cell's
        notreal, out = (out.imag != 0).reshape(-1), out.real
    v = np.asarray(out, dtype=np.float64).reshape(-1)
    sv = dec["sorted"]
    i = np.clip(np.searchsorted(sv, v), 1, len(sv) - 1)
    i = np.where(np.abs(sv[i - 1] - v) <= np.abs(sv[i] - v), i - 1, i)
    ok = np.isfinite(v) & (np.abs(sv[i] - v) <= RTOL * np.abs(sv[i])) & ~notreal
    t, c, q = np.unravel_index(dec["order"][i], dec["shape"])
    return [[int(a), int(b), int(dec["qs"][k])] if g else [-1, -1, -1] for a, b, k, g in zip(t, c, q, ok)]


def do_read(sr, api, nsel, csel, array=False, np_rows=False, objs=None):
    """np_rows: the sample selector may be a NumPy integer scalar (uncompressed files, two selectors: see the assumptions);
    objs: selector objects of earlier reads of this reader, handed in again (the caller's arrays are the caller's: a
    read that wrote into one is seen by the next read that uses it)"""
    def obj(axis, sel, npint):
        if objs is None or sel["k"] != "list":
            return sel_py(sel, array, npint)
        key = (axis, sel_key(sel), int(array))
        if key not in objs:
            objs[key] = sel_py(sel, array, npint)
        return objs[key]
    a, b = obj(0, nsel, np_rows and api != "getitem1"), obj(1, csel, True)
    if api == "getitem2":
        return sr[a, b]
    if api == "getitem1":
        return sr[a]
    if api == "read":
        return sr.read(nsel=a, csel=b, sync=False)
    if api == "read_sync":       # default sync=True: (data, sync)
        v, sy = sr.read(nsel=a, csel=b)
        scribble(sy)
        return v
    if api == "read_samples":
        return sr.read_samples(first_sample=a.start, last_sample=a.stop, channels=b)[0]
    if api == "read_default":    # column selector left to its default (callers pair it with the all-columns selector)
        return sr.read(a, sync=False)
    if api == "read_samples_default":
        return sr.read_samples(a.start, a.stop)[0]
    raise ValueError(api)


def scribble(v):
    """what a caller may do with a result: overwrite it in place.  A result that shares memory with the reader (or with an
    earlier result) shows in the reads that follow."""
    if isinstance(v, np.ndarray) and v.flags.writeable and v.size:
        v[...] = 77 if v.dtype.kind in "iu" else 1.2345e6


# ---- observers: what the reader's attributes hand out, taken defensively.  Anything that is not what the property promises
# (None, strings, NaN, another dimensionality, an attribute that raises or is not there) becomes the negative observation
# of the clause that reads it (Order / Geometry / Shape), never an exception of the harness
def obs_order(sr):
    """raw_channel_order as a list of integers; entries that are no channel numbers -> c08.BAD (equal to no column)"""
    try:
        a = np.asarray(sr.raw_channel_order)
        if a.dtype.kind not in "iuf":
            return [c08.BAD] * max(1, int(a.size))
        a = a.astype(np.float64).reshape(-1)
        r = np.rint(a)
        ok = np.isfinite(a) & (a == r) & (np.abs(r) < 2 ** 30)
        return [int(v) if o else c08.BAD for v, o in zip(np.where(ok, r, 0), ok)]
    except Exception:
        return [c08.BAD]


def obs_geometry(sr, gen):
    """Reader.geometry projected to the rows of the specification; [] when there is no table of numbers to project"""
    try:
        g = sr.geometry
    except Exception:
        return [] if gen else [[c08.BAD] * 9]
    if not gen:
        return [] if g is None else [[c08.BAD] * 9]
    try:
        return c08.project(g, gen)
    except (TypeError, ValueError, KeyError, IndexError, AttributeError, OverflowError):
        return []


def obs_shape_ok(sr, rec):
    try:
        shp = tuple(sr.shape)
        return len(shp) == 2 and all(isinstance(v, (int, np.integer)) and not isinstance(v, bool) for v in shp) and \
            (int(shp[0]), int(shp[1])) == (rec["ns"], rec["nc"])
    except Exception:
        return False


def shape_repr(sr):
    try:
        return repr(sr.shape)[:80]
    except Exception as e:
        return f"<raises {type(e).__name__}>"


def order_ok(t):
    """the order observed is a sequence of nc column numbers 0..nc-1 (what clause Order demands first)"""
    return len(t["order"]) == t["nc"] and all(0 <= v < t["nc"] for v in t["order"])


def open_trace(rec, path, fmt, K, sort, opened=True):
    import spikeglx
    logging.disable(logging.CRITICAL)
    sr = spikeglx.Reader(path, sort=sort) if opened else spikeglx.Reader(path, sort=sort, open=False)
    hdr = obs_geometry(sr, rec["gen"])
    order = obs_order(sr)
    t = {"ns": rec["ns"], "nc": rec["nc"], "nsync": rec["nsync"], "fmt": fmt, "K": K, "sort": bool(sort), "gen": rec["gen"],
         "sites": rec["sites"], "gain": rec["classes"], "order": order, "hdr": hdr, "reads": [],
         "spec": rec["spec"], "shape_ok": (not opened) or obs_shape_ok(sr, rec)}
    return sr, t


def describe(spec, fmt, K, sort, ns, nc):
    return f"{spec['kind']} {fmt}{'/K=' + str(K) if fmt == 'cbin' else ''} sort={sort} ns={ns} nc={nc}"


def open_raised(ctx, rec, fmt, K, sort, path, e, hist, what=None, told=None):
    """ "for any SpikeGLX recording": a reader that cannot be made returns nothing at all.  `what`: the call that raised when
    it is not the constructor (close / open of a reader in use); `told`: the whole account when nothing raised but no reader
    can be had (compress_file leaving no file)"""
    told = told or f"{what or f'Reader({Path(path).name}, sort={sort})'} raised {type(e).__name__}: {e}"
    ctx.violation("open:Raised", f"{describe(rec['spec'], fmt, K, sort, rec['ns'], rec['nc'])}: {told}"[:300],
                  {"spec": rec["spec"], "fmt": fmt, "K": K, "sort": sort, "read": None} | ({"hist": hist} if hist else {}))


class Session:
    """one Reader object and the reads made through it, recorded as traces of at most per_trace reads.  Results are
    decoded at once and then overwritten (scribble); list / array selectors are handed in again as the same objects."""

    def __init__(self, ctx, rec, path, fmt, K, sort, opened=True, per_trace=150, hist=None):
        self.rec, self.fmt, self.per_trace, self.traces, self.objs, self.sr, self.opened = rec, fmt, per_trace, [], {}, None, opened
        self.ctx, self.dead = ctx, False
        if path is None:             # the recording could not be compressed: already reported by compress()
            return
        try:
            self.sr, self.head = open_trace(rec, path, fmt, K, sort, opened)
        except Exception as e:
            open_raised(ctx, rec, fmt, K, sort, path, e, hist)
            return
        if hist:
            self.head["hist"] = hist
        if not self.head["shape_ok"]:
            ctx.violation("open:Shape", f"{describe(rec['spec'], fmt, K, sort, rec['ns'], rec['nc'])}: Reader({Path(path).name}).shape is "
                          f"{shape_repr(self.sr)}, the recording written is {(rec['ns'], rec['nc'])}", scenario(self.head, None))
        if not order_ok(self.head):
            # clause Order starts with "a sequence of nc column numbers": decided here, and the reads of such a reader are not
            # handed to the implementation layer (which indexes the gains with the order observed)
            ctx.violation("open:Order", f"{describe(rec['spec'], fmt, K, sort, rec['ns'], rec['nc'])}: raw_channel_order of "
                          f"Reader({Path(path).name}) is not a sequence of the {rec['nc']} column numbers: {self.head['order'][:12]} "
                          f"({c08.BAD}: not an integer)", scenario(self.head, None))
            self.lifecycle("close()", self.sr.close)
            self.dead = True
        self.dec = decoder(rec["data"], rec["factors"], rec["classes"])
        self.cur = None

    def lifecycle(self, what, *calls):
        """close() / open() of a reader in use: one that raises leaves no reader to read from (open:Raised); the reads
        made so far are judged all the same"""
        try:
            for fn in calls:
                fn()
            return True
        except Exception as e:
            open_raised(self.ctx, self.rec, self.head["fmt"], self.head["K"], self.head["sort"], None, e, self.head.get("hist"),
                        what=f"{what} of the reader in use")
            self.dead = True
            return False

    def read(self, api, nsel, csel, form=False):
        if self.sr is None or self.dead:
            return
        if self.cur is None or len(self.cur["reads"]) >= self.per_trace:
            self.cur = copy.deepcopy(self.head)
            self.traces.append(self.cur)
        r = {"api": "getitem1" if api == "getitem1" else "getitem2" if api == "getitem2" else "read", "call": api,
             "nsel": nsel, "csel": csel, "form": int(form), "shape": [], "toks": [], "exc": ""}
        try:
            v = do_read(self.sr, api, nsel, csel, form, np_rows=self.fmt == "bin", objs=self.objs)
        except Exception as e:
            r["exc"] = f"{type(e).__name__}: {e}"[:200]
        else:
            try:        # decoding of what was returned: something that is no array of numbers has no shape the property knows
                r["shape"] = [int(x) for x in np.shape(v)]
                r["toks"] = decode(self.dec, v)
                if not isinstance(v, (np.ndarray, np.generic, list, tuple, int, float)):
                    raise TypeError(f"a {type(v).__name__} is not an array")
            except (TypeError, ValueError, OverflowError, AttributeError) as e:
                r["shape"], r["toks"], r["note"] = [NOSHAPE], [], f"returned {type(v).__name__} ({type(e).__name__}: {e})"[:160]
            try:
                scribble(v)
            except Exception:
                pass
        self.cur["reads"].append(r)

    def poke(self, k):
        """a call that cannot succeed (no result to judge): the reader must serve the reads that follow all the same"""
        ns, nc = self.rec["ns"], self.rec["nc"]
        if self.sr is None or self.dead:
            return
        try:
            if k % 4 == 0:
                self.sr[ns + 2, :]
            elif k % 4 == 1:
                self.sr[:, nc + 1]
            elif k % 4 == 2:
                self.sr.read(nsel=[0, ns + 5], csel=slice(None), sync=False)
            else:
                self.sr[slice(None), [0, -nc - 3]]
        except Exception:
            pass

    def reopen(self):
        if self.sr is not None and not self.dead:
            self.lifecycle("close() + open()", self.sr.close, self.sr.open)

    def migrate(self, ctx, to, K=0):
        """the reader follows its file: decompress_file / compress_file(keep_original=False) change the object in place,
        open() then maps the new file; the reads that follow are reads of a bin / cbin reader like any other"""
        if self.sr is None or self.dead:
            return
        try:
            if to == "bin":
                self.sr.decompress_file(keep_original=False, quiet=True)
            else:
                self.sr.close()
                self.sr.compress_file(keep_original=False, chunk_duration=K / self.sr.fs, check_after_compress=False, n_threads=1, quiet=True)
            self.sr.open()
        except Exception as e:
            open_raised(ctx, self.rec, to, K, self.head["sort"], f"<the reader after {'de' if to == 'bin' else ''}compress_file>", e,
                        self.head.get("hist"))
            self.dead = True         # (the reads made before are judged all the same)
            return
        self.fmt = to
        self.head = dict(self.head, fmt=to, K=K)
        self.cur = None

    def open(self):
        if self.sr is not None and not self.opened and not self.dead:
            self.lifecycle("open() after Reader(open=False)", self.sr.open)
            self.opened = True

    def close(self):
        """-> traces (a reader without reads still gives its open step)"""
        if self.sr is None:
            return []
        if not self.dead:
            self.lifecycle("close()", self.sr.close)
        return self.traces or ([copy.deepcopy(self.head)] if order_ok(self.head) else [])


def record_reads(ctx, rec, path, fmt, K, sort, reads, per_trace=150):
    """reads: list of (api, nsel, csel, form) -> list of traces"""
    ses = Session(ctx, rec, path, fmt, K, sort, per_trace=per_trace)
    try:
        for api, nsel, csel, form in reads:
            ses.read(api, nsel, csel, form)
    finally:
        out = ses.close()
    return out


def nstates(t):
    return len(t["reads"]) + 3


# ------------------------------------------------------------------------------------------------
def check_table_against_numpy(table):
    """the specification's reading of NumPy indexing is NumPy's (model <-> NumPy); a difference is a machinery failure"""
    n = 0
    for e in table:
        ref = np.arange(e["n"])[sel_py(e["sel"])]
        dim = int(np.ndim(ref))
        idx = [int(ref)] if dim == 0 else [int(v) for v in ref]
        if dim != e["dim"] or idx != [int(v) for v in e["idx"]]:
            raise tlc.TLCError(f"lib/PySlice.tla disagrees with NumPy on n={e['n']} sel={e['sel']}: {e['idx']} vs {idx}")
        n += 1
    return n


def judge(ctx, trs, label, jvms=4):
    verdicts = tracecheck.validate(ctx, *TRACE, [slim(t) for t in trs], label=label, jvms=jvms, workers=1, nstates=nstates, timeout=1800)
    bad = set()
    for v in verdicts:
        t = trs[v["index"]]
        if v["prop"]:
            clause, _, k = v["prop"].partition("@")
            if clause == "MACHINERY":
                raise tlc.TLCError(f"trace {v['index']} of {label} is malformed (gain/sites lengths)")
            bad.add(v["index"])
            k = int(k)
            desc = f"{t['spec']['kind']} {t['fmt']}{'/K=' + str(t['K']) if t['fmt'] == 'cbin' else ''} sort={t['sort']} ns={t['ns']} nc={t['nc']}"
            if k == 0:
                ctx.violation("open:" + clause, f"{desc}: clause {clause} false at open (order {t['order']}, sites {t['sites'][:6]})",
                              scenario(t, None))
            else:
                r = t["reads"][k - 1]
                key = KNOWN_F12 if (is_f12(t["fmt"], r["nsel"]) and clause in ("Shape", "Layout")) else "read:" + clause
                what = r["exc"] if clause == "Raised" else f"shape {r['shape']}" + (f" - {r['note']}" if r.get("note") else "")
                ctx.violation(key, f"{desc}: clause {clause} false on {r['call']}(nsel={show(r['nsel'])}, csel={show(r['csel'])}): {what}",
                              scenario(t, r))
        elif v["impl"]:
            clause, _, k = v["impl"].partition("@")
            ctx.spec_drift(f"{t['spec']['kind']} {t['fmt']} sort={t['sort']}: step {clause} at read {k} is not what "
                           f"spec/lib/ReaderIndex.tla computes; every property-layer formula holds")
    return bad


def slim(t):
    return {k: v for k, v in t.items() if k not in ("spec", "shape_ok", "hist")}


def show(sel):
    if sel["k"] == "int":
        return str(sel["i"])
    if sel["k"] == "list":
        return str(list(sel["l"]))
    return ":".join("" if sel[f] == NONE else str(sel[f]) for f in ("a", "b", "s"))


def scenario(t, r):
    sc = {"spec": t["spec"], "fmt": t["fmt"], "K": t["K"], "sort": t["sort"],
          "read": None if r is None else {"call": r["call"], "nsel": r["nsel"], "csel": r["csel"], "form": r.get("form", 0)}}
    if t.get("hist"):        # the read was made in a history (other readers alive, earlier calls, files rewritten): replay re-runs it
        sc["hist"] = t["hist"]
    return sc


# ------------------------------------------------------------------------------------------------
def kinds_small(rnd, maxnc=9):
    """probe records of the quantifier, small (at most maxnc columns): spec without ns/seed"""
    def g(n):
        return [(GAINS[(i * 3 + 1) % 8], GAINS[(i * 5 + 2) % 8]) for i in range(n)]
    out = []
    for kind, stream, n in (("3A", "ap", 8), ("3A", "lf", 7), ("3B2", "ap", 8), ("3B1", "ap", 5), ("NP2.1", "ap", 6),
                            ("NP2.4", "ap", 8), ("NP2.4", "ap", 4), ("NPultra", "ap", 7), ("3B2", "lf", 3)):
        n = min(n, maxnc - 1)
        out.append({"kind": kind, "stream": stream, "sites": small_sites(kind, n, rnd), "gains": g(n)})
    out.append({"kind": "nidq", "nidq": (2, 1, 2, 1) if maxnc >= 6 else (1, 1, 1, 1)})
    out.append({"kind": "nidq", "nidq": (0, 0, 1, 1)})
    # further members of "all probe metadata" (appended: the records above keep their places): the site table written as
    # snsGeomMap (x / y in um, SpikeGLX >= 2023-04), the second imDatPrb_type of the NP2 generations, recordings saved
    # without their sync channel (a channel subset), other full-scale ranges / imMaxInt, nidq files without a digital word,
    # with two, without analog sync channels, with other gains
    for kind, stream, n, more in (
            ("3B2", "ap", 7, {"encoding": "geom", "fs": 30000.0724}), ("NP2.4", "ap", 6, {"encoding": "geom", "extra": {"imDatPrb_type": 2013}}),
            ("NP2.1", "ap", 5, {"extra": {"imDatPrb_type": 1030}, "range_max": 0.62, "maxint": 2048}),
            ("3B2", "ap", 6, {"nsync": 0}), ("NP2.4", "ap", 5, {"nsync": 0, "range_max": 0.31, "maxint": 4096, "fs": 29999.9473}),
            ("3A", "lf", 4, {"encoding": "geom", "nsync": 0, "fs": 2500.0061}), ("NPultra", "ap", 5, {"range_max": 0.45, "maxint": 1024})):
        n = min(n, maxnc - 1)
        out.append(dict({"kind": kind, "stream": stream, "sites": small_sites(kind, n, rnd), "gains": g(n)}, **more))
    out.append({"kind": "nidq", "nidq": (2, 1, 1, 0) if maxnc >= 4 else (1, 1, 1, 0), "mn_gain": 100, "ma_gain": 8, "range_max": 2.5})
    out.append({"kind": "nidq", "nidq": (0, 0, 2, 2)})
    out.append({"kind": "nidq", "nidq": (1, 2, 0, 1), "range_max": 10})
    return out


def model_export(ctx, quick):
    """TLC on the model of the current tree; -> the exported index tables"""
    import json
    cfg = "mc/ReaderIndex_quick.cfg" if quick else "mc/ReaderIndex_thorough.cfg"
    out = ctx.scratch / "ri_export.json"
    r = tlc.run("mc/MC_ReaderIndex.tla", cfg, workers=4, timeout=3000, heap="6g", env={"OUT_FILE": str(out)})
    ctx.tlc(r, cfg)
    if not r.ok:
        raise tlc.TLCError(f"ReaderIndex model: {r.invariant_violated} fails in the model of the current tree\n{r.out[-2500:]}")
    return json.loads(out.read_text())


def tables_by_length(small):
    by_n = {}
    for e in small:
        by_n.setdefault(e["n"], []).append(e["sel"])
    for n in by_n:
        by_n[n].sort(key=sel_key)
    return by_n


def run(ctx):
    ctx.level = "model_checking"
    rnd = random.Random(ctx.seed)
    logging.disable(logging.CRITICAL)
    # 1. model + export
    export = model_export(ctx, ctx.quick)
    if not ctx.quick:
        r0 = tlc.run("mc/MC_ReaderIndex.tla", "mc/ReaderIndex_orig.cfg", workers=4, timeout=1200)
        ctx.tlc(r0, "mc/ReaderIndex_orig.cfg")
        if r0.ok or r0.invariant_violated not in ("ReadOK", "ShapeOK"):
            raise tlc.TLCError("vacuity control: the model of the tree before the negative-step fix does not violate ReadOK")
        ctx.cov["model_of_unfixed_tree_violates"] = r0.invariant_violated
    small, big = export["small"], export["big"]
    ctx.cov["table_entries_checked_against_numpy"] = check_table_against_numpy(small) + check_table_against_numpy(big)
    by_n = tables_by_length(small)
    maxn = max(by_n)
    # 2./3. small recordings, traces
    trs = []
    trs += sample_axis(ctx, rnd, by_n)
    trs += column_axis(ctx, rnd, by_n)
    trs += kinds_axis(ctx, rnd, by_n, maxn)
    hist = history_axis(ctx, by_n, maxn, ctx.seed, ctx.quick)
    ctx.cov["reads_in_histories"] = sum(len(t["reads"]) for t in hist)
    trs += hist
    rnd.shuffle(trs)
    nreads = sum(len(t["reads"]) for t in trs)
    for t in trs:
        for rd in t["reads"]:
            ctx.count(1, key=(t["ns"], t["nc"], t["fmt"], t["sort"], sel_key(rd["nsel"]), sel_key(rd["csel"]))
                      if (rd["toks"] or rd["exc"]) else None)
    bad = judge(ctx, trs, "reader", jvms=4)
    ctx.cov["reads_validated_as_traces"] = nreads
    # spec -> code on big recordings
    big_files(ctx, rnd, big)
    # 4. all values x all gains
    all_values(ctx)
    for t in trs[:3]:
        ctx.sample({"recording": {k: t[k] for k in ("ns", "nc", "fmt", "K", "sort", "gen", "sites", "gain", "order")},
                    "read": {k: t["reads"][0][k] for k in ("call", "nsel", "csel", "shape")} | {"toks": t["reads"][0]["toks"][:6]}
                    if t["reads"] else None})
    # 5. self-tests
    selftest(ctx, [t for i, t in enumerate(trs) if i not in bad], small)
    ctx.cov["rule"] = ("model: every selector (int, slice start/stop in None + -(n+2)..n+2 x step None,+-1..+-3, lists) on every length of "
                       "the box, bin and cbin; reads: the selector universe is TLC's export - every sample selector on bin and cbin "
                       "files of that length, every column selector on a sorted non-identity file of that width, seeded pairs on "
                       "every probe record x sort x format (shank and geom maps, both NP2 probe types, with / without / two sync channels); "
                       "histories: interleaved readers on recordings sharing names and folders, repeated / failing calls, reopen, files "
                       "replaced under the same names; selector objects in 6 forms, reused; results overwritten by the caller; "
                       "non-trivial = distinct (ns, nc, format, sort, selectors) with a non-empty result")
    ctx.cov["exhaustive"] = True
    ctx.cov["numeric_postconditions"] = ["float32(raw) x factor, relative 2e-6, factor = range/maxint/gain from the metadata written "
                                         "(projection on the real output, all 65536 values x 8 gains x AP/LF, NP2, nidq)"]
    ctx.assumptions += [
        "a sample selector and a column selector that are both index lists are not combined (NumPy would pair them, the reader "
        "takes the outer product; the property text does not say which)",
        "integer selectors lie inside -n..n-1; index lists on samples only on uncompressed files (quantifier)",
        "NumPy integer scalars (np.int64(i), ...) stand for integer channel selectors everywhere and for integer sample selectors of "
        "two-selector reads on uncompressed files; a single-selector read sr[np.int64(i)] raises TypeError and a NumPy integer "
        "sample selector on a .cbin gives an empty array on the unchanged tree (reported, not part of the run)",
        "NP1 gains: the imroTbl written lists the saved channels first (the reader takes its first n entries); a saved subset "
        "that does not start at channel 0 under SpikeGLX's complete 384-entry table is not generated (reported)",
        "decoding returned values to tokens relies on data drawn so that all candidate products differ by > 1e-4 relative",
        "mtscomp chunking is modelled with equal chunks of K samples (verified per file from chunk_bounds)"]


def form_of(j):
    """every other read hands python objects in (ints, slices, lists), the others cycle through the array forms of sel_py"""
    return 0 if j % 2 else 1 + (j // 2) % (NFORMS - 1)


def pool_cols(nc, rnd):
    p = [ALL, {"k": "int", "i": rnd.randrange(-nc, nc)}, S(NONE, NONE, -1), S(1, NONE, 2), {"k": "list", "l": [nc - 1, 0]},
         {"k": "list", "l": []}, S(-2, NONE, NONE), {"k": "int", "i": -1}]
    return p


def pool_rows(ns, fmt, rnd):
    p = [ALL, {"k": "int", "i": rnd.randrange(-ns, ns)}, S(NONE, NONE, -1), S(NONE, NONE, 2), S(1, 0, 1), S(-2, NONE, NONE)]
    if fmt == "bin":
        p += [{"k": "list", "l": [ns - 1, 0, 0]}, {"k": "list", "l": []}]
    return p


def sample_axis(ctx, rnd, by_n):
    """every sample selector of every length, on a bin and on cbin files (K in 2,3 / 1..4) of exactly that length"""
    trs = []
    kinds = kinds_small(rnd)
    Ks = [2, 3] if ctx.quick else [1, 2, 3, 4]
    for n, sels in sorted(by_n.items()):
        spec = dict(kinds[n % len(kinds)], ns=n, seed=1000 + n + 97 * ctx.seed)
        rec = make_recording(ctx.scratch / "c01" / f"s{n}", spec)
        for sort in (True, False):
            variants = [("bin", 0, rec["bin"])]
            if sort:
                variants += [("cbin", K, None) for K in Ks]
            for fmt, K, path in variants:
                if fmt == "cbin":
                    path = compress(rec, K, ctx)
                reads = []
                pool = pool_cols(rec["nc"], rnd)
                for j, sel in enumerate(sels):
                    if fmt == "cbin" and sel["k"] == "list":
                        continue
                    if not sort and j % 4:          # the unsorted bin pass is a quarter sample
                        continue
                    csel = pool[j % len(pool)]
                    if sel["k"] == "list" and csel["k"] == "list":
                        csel = ALL
                    api = "getitem1" if (csel is ALL and j % 2) else ("read" if j % 3 == 0 else "getitem2")      # sr[list] too: rows
                    if csel is ALL and sel["k"] != "list" and j % 16 == 8:      # the column selector left to its default
                        api = "read_samples_default" if (sel["k"] == "slice" and sel["s"] == NONE and j % 32 == 8 and rec["gen"]) else "read_default"
                    reads.append((api, sel, csel, form_of(j)))
                trs += record_reads(ctx, rec, path, fmt, K, sort, reads)
                if fmt == "cbin" and path is not None:
                    path.unlink()
                    path.with_suffix(".ch").unlink()
    return trs


def column_axis(ctx, rnd, by_n):
    """every column selector of every width nc >= 2, on sorted files whose order is not the identity"""
    trs = []
    for nc, sels in sorted(by_n.items()):
        if nc < 2:
            continue
        nd = nc - 1
        for kind in (("NP2.4", "3B2") if not ctx.quick else ("NP2.4",) if nc % 2 else ("3B2",)):
            for attempt in range(20):
                sites = small_sites(kind, nd, rnd)
                srt = sorted(range(nd), key=lambda i: (sites[i][0], sites[i][1], -sites[i][2]))
                if nd == 1 or srt != list(range(nd)):
                    break
            spec = {"kind": kind, "stream": "ap", "sites": sites, "gains": [(GAINS[(i * 3 + 2) % 8], GAINS[(i + 5) % 8]) for i in range(nd)],
                    "ns": 4, "seed": 2000 + nc + 97 * ctx.seed}
            rec = make_recording(ctx.scratch / "c01" / f"c{nc}{kind[:2]}", spec)
            cb = compress(rec, 3, ctx)
            for fmt, K, path in (("bin", 0, rec["bin"]), ("cbin", 3, cb)):
                pool = pool_rows(4, fmt, rnd)
                reads = []
                for j, sel in enumerate(sels):
                    if fmt == "cbin" and j % 3:
                        continue
                    nsel = pool[j % len(pool)]
                    if sel["k"] == "list" and nsel["k"] == "list":
                        nsel = ALL
                    api = "read_samples" if (nsel["k"] == "slice" and nsel["s"] == NONE and j % 5 == 0) else \
                        ("read_sync" if j % 7 == 0 else "getitem2")
                    reads.append((api, nsel, sel, form_of(j + 1)))
                trs += record_reads(ctx, rec, path, fmt, K, True, reads)
    return trs


def kinds_axis(ctx, rnd, by_n, maxn):
    """every probe record x sort x format: seeded selector pairs"""
    trs = []
    npairs = 60 if ctx.quick else 1500
    for ki, base in enumerate(kinds_small(rnd, maxn)):
        ns = rnd.randint(2, maxn)
        spec = dict(base, ns=ns, seed=3000 + ki + 97 * ctx.seed)
        rec = make_recording(ctx.scratch / "c01" / f"k{ki}", spec)
        K = rnd.choice([2, 3])
        cb = compress(rec, K, ctx)
        for sort in (True, False):
            for fmt, KK, path in (("bin", 0, rec["bin"]), ("cbin", K, cb)):
                reads = []
                for j in range(npairs):
                    nsel = rnd.choice(by_n[ns])
                    csel = rnd.choice(by_n[rec["nc"]])
                    if fmt == "cbin" and nsel["k"] == "list":
                        continue
                    if nsel["k"] == "list" and csel["k"] == "list":
                        continue
                    api = rnd.choice(["getitem2", "getitem2", "read", "read_sync"]) if base["kind"] != "nidq" else \
                        rnd.choice(["getitem2", "read"])
                    reads.append((api, nsel, csel, rnd.choice([0, 0, 0, 0, 1, 1, 2, 3, 4, 5])))
                trs += record_reads(ctx, rec, path, fmt, KK, sort, reads)
    return trs


def history_axis(ctx, by_n, maxn, seed, quick):
    """the state a read can find and leave.  Recordings that share one file name (rec.ap.bin in two folders) and one folder
    (rec.ap / rec.lf / rec.nidq side by side, each with its .cbin / .ch), all readers (bin and cbin, sorted and unsorted)
    made before the first read, half of them opened later; reads go round the readers in turn: earlier reads are asked
    again (their results were overwritten by the caller, their selector arrays are handed in again), calls that cannot
    succeed are thrown in, half of the readers are closed and opened again midway.  Then the files of one recording are
    replaced, under the same names, by those of another recording (the old .cbin / .ch still lying there) and read again.
    Every read is judged by the clauses of spec/trace/ReaderTrace.tla like any other."""
    rnd = random.Random(7919 * seed + 13)
    root = ctx.scratch / "c01" / "hist"
    hist = {"seed": seed, "tier": "quick" if quick else "thorough"}
    nd = min(6, maxn - 1)

    def g(n, a, b):
        return [(GAINS[(i * a + 1) % 8], GAINS[(i * b + 3) % 8]) for i in range(n)]

    def unsorted_sites(kind, n):
        for _ in range(20):
            sites = small_sites(kind, n, rnd)
            if n == 1 or sorted(range(n), key=lambda i: (sites[i][0], sites[i][1], -sites[i][2])) != list(range(n)):
                break
        return sites
    plan = [("p0", {"kind": "3B2", "stream": "ap", "sites": unsorted_sites("3B2", nd), "gains": g(nd, 3, 5)}),
            ("p0", {"kind": "3B2", "stream": "lf", "sites": unsorted_sites("3B2", nd - 1), "gains": g(nd - 1, 5, 3)}),
            ("p0", {"kind": "nidq", "nidq": (1, 1, 1, 1)}),
            ("p1", {"kind": "NP2.4", "stream": "ap", "sites": unsorted_sites("NP2.4", nd - 2)}),
            # next to the plain-named 3B2 recording of p0: another probe's recording under the same base name, with its dataset
            # id in the names of all its files (its companions are its own, not the plain-named ones)
            ("p0", {"kind": "NP2.4", "stream": "ap", "sites": unsorted_sites("NP2.4", nd - 1), "range_max": 0.62, "maxint": 2048,
                    "uuid": "4f6d1c2e-8a3b-4b7e-9c51-0d2e7f3a9b10"})]
    recs = []
    for i, (sub, base) in enumerate(plan):
        spec = dict(base, ns=rnd.randint(3, maxn), seed=5000 + i + 97 * seed, stem="rec")
        rec = make_recording(root / sub, spec)
        recs.append((rec, rnd.choice([2, 3])))
    cbins = [compress(rec, K, ctx, hist) for rec, K in recs]

    def talk(sessions, rounds, reopen_at=None):
        past = {id(s): [] for s in sessions}
        for rd in range(rounds):
            order = sessions[:]
            rnd.shuffle(order)
            for ses in order:
                ns, nc, mine = ses.rec["ns"], ses.rec["nc"], past[id(ses)]
                if mine and rnd.random() < 0.3:
                    ses.read(*rnd.choice(mine))              # the same call again
                    continue
                nsel, csel = rnd.choice(by_n[ns]), rnd.choice(by_n[nc])
                if rnd.random() < 0.2:
                    csel = ALL
                if (ses.fmt == "cbin" and nsel["k"] == "list") or (nsel["k"] == "list" and csel["k"] == "list"):
                    nsel = S(NONE, NONE, rnd.choice([NONE, -1, 2, -2]))
                # (data, sync) calls only on probe files: the sync half of a nidq read is not this property's (it raises on an
                # empty sample selection of a nidq file, whatever the data half does)
                apis = ["getitem2", "getitem2", "read"] + (["read_sync"] if ses.rec["gen"] else [])
                if csel is ALL and nsel["k"] == "list":
                    apis += ["getitem1"]
                if csel is ALL and nsel["k"] != "list":
                    apis += ["getitem1", "read_default"] + (["read_samples_default"] if nsel["k"] == "slice" and nsel["s"] == NONE and ses.rec["gen"] else [])
                call = (rnd.choice(apis), nsel, csel, rnd.choice([0, 0, 1, 2, 3, 4, 5]))
                mine.append(call)
                ses.read(*call)
                if rnd.random() < 0.15:
                    ses.poke(rnd.randrange(4))
            if reopen_at is not None and rd == reopen_at:
                for ses in sessions[::2]:
                    ses.reopen()
    rounds = 40 if quick else 200
    sessions = []
    for sort in (True, False):         # readers of different recordings and formats are made in turn, none has read yet
        for fmt in ("bin", "cbin"):
            for (rec, K), cb in zip(recs, cbins):
                sessions.append(Session(ctx, rec, cb if fmt == "cbin" else rec["bin"], fmt, K if fmt == "cbin" else 0, sort,
                                        opened=len(sessions) % 2 == 0, hist=hist))
    for ses in sessions:
        ses.open()
    talk(sessions, rounds, reopen_at=rounds // 2)
    trs = []
    for ses in sessions:
        trs += ses.close()
    # the same names, another recording: p0/rec.ap.bin + .meta are replaced; the .cbin / .ch of the old one are still there
    spec = {"kind": "NP2.1", "stream": "ap", "sites": unsorted_sites("NP2.1", max(2, nd - 3)), "ns": rnd.randint(3, maxn),
            "seed": 5100 + 97 * seed, "stem": "rec", "range_max": 0.62, "maxint": 2048}
    if spec["ns"] == recs[0][0]["ns"]:
        spec["ns"] = spec["ns"] - 1
    rec2 = make_recording(root / "p0", spec)
    second = [Session(ctx, rec2, rec2["bin"], "bin", 0, sort, hist=hist) for sort in (True, False)]
    talk(second, rounds)
    for ses in second:
        trs += ses.close()
    if cbins[0] is not None:
        cbins[0].unlink()
        cbins[0].with_suffix(".ch").unlink()
    K2 = 5 - recs[0][1]
    cb2 = compress(rec2, K2, ctx, hist)
    third = [Session(ctx, rec2, cb2, "cbin", K2, sort, hist=hist) for sort in (True, False)] + \
        [Session(ctx, recs[1][0], recs[1][0]["bin"], "bin", 0, True, hist=hist)]       # the neighbour (rec.lf) is what it was
    talk(third, rounds)
    for ses in third:
        trs += ses.close()
    # the recording reached through symbolic links (seed round i): the binaries live in a store under other names, the session
    # folder holds the links and the regular companions (.meta, .ch) - gains, geometry and column order are those of the metadata
    # next to the link
    for (rec, K), cb in ((recs[3], cbins[3]), ((rec2, K2), cb2)):
        ldir = root / f"linked_{rec['spec']['kind'].replace('.', '')}"
        (ldir / "store").mkdir(parents=True, exist_ok=True)
        (ldir / "session").mkdir(exist_ok=True)
        forms = [("bin", rec["bin"], 0)] + ([("cbin", cb, K)] if cb is not None and Path(cb).exists() else [])
        linked = []
        for fmt, src, k in forms:
            src = Path(src)
            if not src.exists():
                continue
            blob = ldir / "store" / f"blob_{fmt}.dat"
            shutil.copy(src, blob)
            lk = ldir / "session" / src.name
            lk.symlink_to(blob)
            for comp in (".meta", ".ch"):
                if src.with_suffix(comp).exists():
                    shutil.copy(src.with_suffix(comp), lk.with_suffix(comp))
            linked += [Session(ctx, rec, lk, fmt, k, sort, hist=hist) for sort in (True, False)]
        talk(linked, rounds // 4)
        for ses in linked:
            trs += ses.close()
    # a reader that follows its file: made on p1/rec.ap.cbin (its .bin gone), decompressed in place, compressed in place
    rec, K = recs[3]
    if cbins[3] is not None:
        rec["bin"].unlink()
        for sort in (True, False):
            ses = Session(ctx, rec, cbins[3], "cbin", K, sort, hist=hist)
            talk([ses], rounds // 4)
            ses.migrate(ctx, "bin")
            talk([ses], rounds // 2)
            ses.migrate(ctx, "cbin", 5 - K)
            talk([ses], rounds // 2)
            trs += ses.close()
            K = 5 - K
            if ses.sr is None or ses.dead:       # the reader was lost on the way (reported): the files are not where the next one expects them
                break
    return trs


# ------------------------------------------------------------------------------------------------
def big_files(ctx, rnd, big):
    """385 samples x 385 channels, every int16 value present; expectations from TLC's exported positions"""
    import spikeglx
    table = sorted(big, key=lambda e: sel_key(e["sel"]))
    frac = 0.25 if ctx.quick else 1.0
    dense4 = metagen.dense_sites("NP2.4", 384, 4)
    pool24 = c08.all_sites("NP2")
    specs = [
        {"kind": "3B2", "stream": "ap", "sites": metagen.dense_sites("3B2"), "gains": [(GAINS[i % 8], GAINS[(i + 3) % 8]) for i in range(384)]},
        {"kind": "NP2.4", "stream": "ap", "sites": dense4},
        {"kind": "NP2.4", "stream": "ap", "sites": rnd.sample(pool24, 384)},
        {"kind": "3A", "stream": "lf", "sites": rnd.sample(c08.all_sites("NP1"), 384), "gains": [(GAINS[(i + 1) % 8], GAINS[(i * 3) % 8]) for i in range(384)]},
        {"kind": "NPultra", "stream": "ap", "sites": metagen.dense_sites("NPultra")[::-1], "gains": [(GAINS[i % 8], 250) for i in range(384)]},
        {"kind": "NP2.1", "stream": "ap", "sites": metagen.dense_sites("NP2.1")},
    ]
    if ctx.quick:
        specs = specs[:4]
    ncomp, nbad, opens = 0, 0, []
    for si, base in enumerate(specs):
        spec = dict(base, ns=385, seed=4000 + si + 97 * ctx.seed, big=True)
        rec = make_recording(ctx.scratch / "c01" / f"b{si}", spec)
        if len(np.unique(rec["data"])) != 65536:
            raise tlc.TLCError("big recording does not contain every int16 value")
        K = 100
        cb = compress(rec, K, ctx)
        sites = rec["sites"]
        for sort in (True, False):
            porder = (sorted(range(384), key=lambda i: (sites[i][0], sites[i][1], -sites[i][2])) if sort else list(range(384))) + [384]
            porder = np.array(porder)
            full = rec["data"].astype(np.float32).astype(np.float64)[:, porder] * rec["factors"][porder]
            for fmt, KK, path in (("bin", 0, rec["bin"]), ("cbin", K, cb)):
                if path is None:
                    continue
                try:
                    sr, head = open_trace(rec, path, fmt, KK, sort)
                except Exception as e:
                    open_raised(ctx, rec, fmt, KK, sort, path, e, None)
                    continue
                head["hdr"], head["reads"] = head["hdr"], []
                opens.append(head)
                pool_c = [ALL, {"k": "int", "i": 7}, S(NONE, NONE, -3), {"k": "list", "l": [384, 0, 200]}, S(380, NONE, NONE)]
                pool_r = [ALL, {"k": "int", "i": -1}, S(NONE, NONE, -5), S(10, 300, 7)] + ([{"k": "list", "l": [384, 0, 0, 17]}] if fmt == "bin" else [])
                plan = []
                for j, e in enumerate(table):
                    if rnd.random() > frac:
                        continue
                    if not (fmt == "cbin" and e["sel"]["k"] == "list"):
                        cs = pool_c[j % len(pool_c)]
                        if not (e["sel"]["k"] == "list" and cs["k"] == "list"):
                            plan.append((e, {"sel": cs}, "rows"))
                    rs = pool_r[j % len(pool_r)]
                    if not (e["sel"]["k"] == "list" and rs["k"] == "list"):
                        plan.append(({"sel": rs}, e, "cols"))
                lut = {sel_key(e["sel"]): e for e in table}
                for re_, ce_, _ in plan:
                    rsel, csel = re_["sel"], ce_["sel"]
                    rr = re_ if "idx" in re_ else lut[sel_key(rsel)]      # every expectation comes from TLC's table
                    cc = ce_ if "idx" in ce_ else lut[sel_key(csel)]
                    exp = full[np.ix_(rr["idx"], cc["idx"])]
                    shape = ([len(rr["idx"])] if rr["dim"] else []) + ([len(cc["idx"])] if cc["dim"] else [])
                    ncomp += 1
                    try:
                        got = np.asarray(do_read(sr, "getitem2", rsel, csel, array=form_of(ncomp), np_rows=fmt == "bin"))
                        if got.dtype.kind == "c" and np.any(got.imag != 0):
                            raise TypeError("complex values returned")
                        ok = list(got.shape) == shape and np.all(np.abs(got.reshape(exp.shape).astype(np.float64) - exp) <= RTOL * np.abs(exp))
                        what = f"shape {list(got.shape)} expected {shape}" if list(got.shape) != shape else "values differ from float32(raw) x factor"
                    except Exception as ex:
                        ok, what = False, f"raised {type(ex).__name__}: {ex}"[:200]
                    if not ok:
                        nbad += 1
                        key = KNOWN_F12 if is_f12(fmt, rsel) else "read:Big"
                        ctx.violation(key, f"{spec['kind']} 385x385 {fmt} sort={sort}: sr[{show(rsel)}, {show(csel)}]: {what}",
                                      {"spec": {k: v for k, v in spec.items()}, "fmt": fmt, "K": KK, "sort": sort,
                                       "read": {"call": "getitem2", "nsel": rsel, "csel": csel, "form": form_of(ncomp)}, "big": True})
                try:
                    sr.close()
                except Exception as e:
                    open_raised(ctx, rec, fmt, KK, sort, path, e, None, what="close() of the reader in use")
    ctx.count(ncomp)
    ctx.cov["big_reads_compared_with_exported_positions"] = ncomp
    # order / geometry of the big files: judged by the trace spec (no reads)
    judge(ctx, opens, "reader_big_open", jvms=2)


def np_entry(n, sel):
    """positions by NumPy (replay of a single big scenario only; the run itself uses TLC's table, which was checked
    against NumPy entry by entry)"""
    ref = np.arange(n)[sel_py(sel)]
    return {"dim": int(np.ndim(ref)), "idx": [int(ref)] if np.ndim(ref) == 0 else [int(v) for v in ref]}


def all_values(ctx):
    """numeric projection: every int16 value x every gain, AP and LF columns, NP1 / NP2 / nidq, bin and cbin"""
    import spikeglx
    vals = np.arange(-32768, 32768, dtype=np.int64).astype(np.int16)
    rng = np.random.default_rng(5 + ctx.seed)
    n = 0
    cases = [("3B2", "ap", [(g, GAINS[(i + 3) % 8]) for i, g in enumerate(GAINS)]), ("3A", "lf", [(GAINS[(i + 5) % 8], g) for i, g in enumerate(GAINS)]),
             ("NP2.4", "ap", None), ("NP2.1", "ap", None), ("nidq", None, None)]
    for kind, stream, gains in cases:
        if kind == "nidq":
            spec = {"kind": "nidq", "nidq": (3, 2, 2, 1), "ns": 65536, "seed": 9, "big": True}
        else:
            nd = 8 if gains else 3
            spec = {"kind": kind, "stream": stream, "sites": c08.small_grid(c08.GEN[kind], 8, 1)[:nd], "gains": gains, "ns": 65536, "seed": 9, "big": True}
            if kind == "NP2.1":
                spec.update(range_max=0.62, maxint=2048)
        rec = make_recording(ctx.scratch / "c01" / "all", spec)
        data = np.stack([rng.permutation(vals) for _ in range(rec["nc"])], axis=1)
        data.tofile(rec["bin"])
        exp = data.astype(np.float32).astype(np.float64) * rec["factors"]
        try:
            srb = spikeglx.Reader(rec["bin"], sort=False)
            cb = srb.compress_file(keep_original=True, check_after_compress=False, quiet=True)
        except Exception as e:
            ctx.violation("open:Raised", f"{kind} {stream} 65536 samples: opening / compressing raised {type(e).__name__}: {e}"[:300],
                          {"spec": spec, "allvalues": True})
            continue
        for path, sfx in ((rec["bin"], ".bin"), (cb, ".cbin")):
            try:
                sr = spikeglx.Reader(path, sort=False)
                got = sr[:, :]
                sr.close()
            except Exception as e:
                ctx.violation("read:Raised", f"{kind} {stream} {sfx}: sr[:, :] on 65536 samples ({str(path)[-60:]}) raised {type(e).__name__}: {e}"[:300],
                              {"spec": spec, "allvalues": True})
                continue
            try:        # what was returned as an array of real numbers; anything else has no cell equal to float32(raw) x factor
                ret, got = type(got).__name__, np.asarray(got)
                if got.dtype.kind == "c" and np.any(got.imag != 0):
                    raise TypeError("complex values")
                got = got.astype(np.float64)
            except (TypeError, ValueError) as e:
                got = np.zeros(0)
                ctx.violation("read:Value", f"{kind} {stream} {sfx}: sr[:, :] returned a {ret} that is no array of numbers ({type(e).__name__}: {e})"[:300],
                              {"spec": spec, "allvalues": True})
                continue
            n += got.size
            if got.shape != exp.shape:
                ctx.violation("read:Value", f"{kind} {stream} {sfx}: sr[:, :] returned shape {got.shape}, the file holds {exp.shape}: no cell-by-cell "
                              f"float32(raw) x factor", {"spec": spec, "allvalues": True})
                continue
            err = ~(np.abs(got - exp) <= RTOL * np.abs(exp))
            if err.any():
                t, c = np.argwhere(err)[0]
                ctx.violation("read:Value", f"{kind} {stream} {sfx}: raw {int(data[t, c])} on column {c} returned {got[t, c]} "
                              f"instead of float32(raw) x {rec['factors'][c]}", {"spec": spec, "allvalues": True})
            sync = slice(rec["nc"] - rec["nsync"], rec["nc"])
            if not np.array_equal(got[:, sync], data[:, sync].astype(np.float64)):
                ctx.violation("read:SyncUnit", f"{kind} {sfx}: sync column scaled", {"spec": spec, "allvalues": True})
        try:
            srb.close()
        except Exception as e:
            ctx.violation("open:Raised", f"{kind} {stream} 65536 samples: close() of the reader in use raised {type(e).__name__}: {e}"[:300],
                          {"spec": spec, "allvalues": True})
    ctx.count(n // 65536)
    ctx.cov["all_values_cells"] = n


# ------------------------------------------------------------------------------------------------
def selftest(ctx, good, small):
    cands = [t for t in good if t["gen"] and t["nsync"] == 1 and any(len(r["toks"]) >= 4 and len(r["shape"]) == 2 for r in t["reads"])][:21]
    if len(cands) < 7:
        if ctx.violations or ctx.known_hits:
            ctx.cov["selftest_corrupted_traces_rejected"] = "skipped: too few accepted traces on a violating tree"
            return
        raise tlc.TLCError("selftest: not enough accepted traces")
    mut = []
    for j, t0 in enumerate(cands):
        t = copy.deepcopy(t0)
        k = next(i for i, r in enumerate(t["reads"]) if len(r["toks"]) >= 4 and len(r["shape"]) == 2)
        r = t["reads"][k]
        kind = j % 7
        if kind == 0:      # two cells exchanged
            i1 = next(i for i in range(1, len(r["toks"])) if r["toks"][i] != r["toks"][0])
            r["toks"][0], r["toks"][i1] = r["toks"][i1], r["toks"][0]
        elif kind == 1:    # gain of another channel
            r["toks"][0][2] = (r["toks"][0][2] + 1) % (max(t["gain"]) + 1)
        elif kind == 2:    # transposed shape
            r["shape"] = r["shape"][::-1] if r["shape"][0] != r["shape"][1] else [r["shape"][0] + 1, r["shape"][1]]
        elif kind == 3:    # a row dropped
            r["toks"] = r["toks"][r["shape"][1]:]
            r["shape"][0] -= 1
        elif kind == 4:    # off by one sample
            for tok in r["toks"]:
                tok[0] = (tok[0] + 1) % t["ns"]
            if t["ns"] == 1:
                r["toks"][0][1] = (r["toks"][0][1] + 1) % t["nc"]
        elif kind == 5:    # order does not follow the geometry
            if len(t["order"]) > 2:
                t["order"][0], t["order"][1] = t["order"][1], t["order"][0]
            else:
                t["hdr"][0][7] += 1
        else:              # sync scaled
            t["gain"][-1] = 1
        mut.append(t)
    keep = ctx.cov["traces_validated_against_impl"]
    v = tracecheck.validate(ctx, *TRACE, [slim(t) for t in mut], label="reader_selftest", jvms=2, workers=1, nstates=nstates)
    ctx.cov["traces_validated_against_impl"] = keep
    flagged = {x["index"] for x in v if x["prop"] and not x["prop"].startswith("MACHINERY")}
    need = {i for i, t in enumerate(mut)}
    # kind 6 only bites when a sync cell was read in that trace
    need -= {i for i, t in enumerate(mut) if i % 7 == 6 and not any(tok[1] == t["nc"] - 1 for r in t["reads"] for tok in r["toks"])}
    if not need <= flagged:
        miss = sorted(need - flagged)
        raise tlc.TLCError(f"binding self-test: corrupted traces {miss} (kinds {[m % 7 for m in miss]}) were not rejected")
    ctx.cov["selftest_corrupted_traces_rejected"] = len(flagged)
    # table self-test: a perturbed exported entry must be noticed by the NumPy comparison
    e = copy.deepcopy(next(x for x in small if x["sel"]["k"] == "slice" and len(x["idx"]) >= 2))
    e["idx"][0], e["idx"][1] = e["idx"][1], e["idx"][0]
    try:
        check_table_against_numpy([e])
    except tlc.TLCError:
        return
    raise tlc.TLCError("table self-test: a perturbed exported entry was not noticed")


def replay(ctx, sc):
    logging.disable(logging.CRITICAL)
    if sc.get("allvalues"):
        all_values(ctx)
        return
    if sc.get("hist"):      # a read inside a history: the whole history is run again (same seed, same selector tables)
        quick = sc["hist"]["tier"] == "quick"
        small = model_export(ctx, quick)["small"]
        check_table_against_numpy(small)
        by_n = tables_by_length(small)
        judge(ctx, history_axis(ctx, by_n, max(by_n), sc["hist"]["seed"], quick), "reader_replay", jvms=2)
        return
    rec = make_recording(ctx.scratch / "c01" / "replay", sc["spec"])
    path = compress(rec, sc["K"], ctx) if sc["fmt"] == "cbin" else rec["bin"]
    rd = sc.get("read")
    if path is None:
        return
    if sc.get("big"):
        import spikeglx
        sites = rec["sites"]
        porder = np.array((sorted(range(384), key=lambda i: (sites[i][0], sites[i][1], -sites[i][2])) if sc["sort"] else list(range(384))) + [384])
        full = rec["data"].astype(np.float32).astype(np.float64)[:, porder] * rec["factors"][porder]
        rr, cc = np_entry(385, rd["nsel"]), np_entry(385, rd["csel"])
        exp = full[np.ix_(rr["idx"], cc["idx"])]
        try:
            sr = spikeglx.Reader(path, sort=sc["sort"])
            got = np.asarray(do_read(sr, "getitem2", rd["nsel"], rd["csel"], array=rd.get("form", False), np_rows=sc["fmt"] == "bin"))
            ok = got.size == exp.size and np.all(np.abs(got.reshape(exp.shape).astype(np.float64) - exp) <= RTOL * np.abs(exp))
        except Exception:
            ok = False
        if not ok:
            ctx.violation(KNOWN_F12 if is_f12(sc["fmt"], rd["nsel"]) else "read:Big", f"replay: sr[{show(rd['nsel'])}, {show(rd['csel'])}] differs", sc)
        return
    reads = [] if rd is None else [(rd["call"], rd["nsel"], rd["csel"], rd.get("form", False))]
    trs = record_reads(ctx, rec, path, sc["fmt"], sc["K"], sc["sort"], reads)
    judge(ctx, trs, "reader_replay", jvms=1)
