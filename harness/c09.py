"""C09 - metadata parsing, derived acquisition parameters and writing round trip.

Grammar (first sentence of the property)
  1. TLC: spec/lib/MetaGrammar.tla - every value string over the abstract alphabet {0, nonzero digit, ',', '.',
     '=', '~', other} up to a length, and every small file over tilde / duplicate keys: the implementation layer
     (read_meta_data's coercion, write_meta_data's three branches) satisfies RoundTrip on the property's domain
     (strings, scalars, integer lists).  The pre-fix writer (exponent notation below 1e-4) must be rejected.
  2. spec -> code: TLC exports every abstract string with Classify / Render / InDomain; each is instantiated
     with concrete characters, written into real .meta files and pushed through the real read -> write -> read.
  3. code -> spec: real files (a part of the above, random long values, tilde / duplicate keys, the shipped
     fixtures, every metagen probe kind) are validated as traces by spec/trace/MetaGrammarTrace.tla.
Derived parameters (second sentence)
  4. TLC: spec/lib/MetaDerive.tla - the decision tables of spikeglx.py (implementation layer) agree with an
     independent channel-by-channel reading (property layer) on the whole configuration space; three deliberately
     wrong implementation layers (AP/LF gain columns swapped, gain vector not cut to the saved channels, nidq
     segment order) must be rejected.
  5. spec -> code: every configuration becomes a .meta (metagen) read by the real spikeglx.Reader; version, type,
     nc, nsync, sync / analog indices, max int, sample2volts, range_volts, fs, ns are compared with what the
     property layer expects.
  6. code -> spec: the same executions + full-size files (saved-channel counts 1..384, non-uniform gain pairs from
     the real gain set, every probe kind, nidq) + the shipped fixtures, validated by spec/trace/MetaDeriveTrace.tla
     from the raw fields of the file.
  7. binding self-tests: corrupted traces must be rejected.
State the calls find and leave (audit after seed round e)
  8. file forms: MetaGrammar.tla has the characters on disk (Frame: LF / CR LF line ends, line end after the last line or
     not) and what the reader makes of them (ReadLines); Framing: the lines do not depend on the form; a reader that splits
     the undecoded text at LF must be rejected.  Every real file of 2, 3, 5, 6 is written in one of the forms (cycled), the
     shipped files with the bytes they are shipped with (5 have CR LF, 2 no final line end).
  9. write_meta_data finds its destination absent / holding a longer file of another recording / being the file that was
     parsed; file names are given as Path and as str; the dictionary of the first parse is copied before the writer and the
     second parse see it; the model's files carry the derived key as a line of their own (as every written file does).
 10. every Reader is looked at twice (accessors in the opposite order) and once more after the next file has been written
     and read: a look that shows something else than the first one becomes one more trace record (same clauses).  What must
     not matter is varied in the files (dress): value of typeEnabled, foreign / empty keys, line order, bank / reference
     numbers of IMRO entries; sample counts 0, 1, 2, 1e9, 3e9; files are named after their stream.

Numeric clause decided by projection (not by TLC): sample2volts / range_volts are floats; range / maxint /
sample2volts[ch] is projected onto an integer gain when within 1e-5 (relative) of one (the code keeps gains in
float32: 6e-8), else onto -1; a sync factor must be exactly 1.0.
"""
import copy
import json
import random
import re
from concurrent.futures import ThreadPoolExecutor
from pathlib import Path

import numpy as np

from vkit import metagen, tlc, tracecheck

GMOD, GCFG = "trace/MetaGrammarTrace.tla", "trace/MetaGrammarTrace.cfg"
DMOD, DCFG = "trace/MetaDeriveTrace.tla", "trace/MetaDeriveTrace.cfg"
OTHER = "abcdxyzABCXYZ _-:;()/\\e+E[]{}'\"!?%&*#@\u00b5\u00e9\u00b0"      # (user notes / paths are not always ASCII)
REAL_GAINS = [50, 125, 250, 500, 1000, 1500, 2000, 3000]
LONG = 96
# the same key=value lines as SpikeGLX leaves them on disk: it runs on Windows (5 of the shipped files have CR LF line ends,
# 2 have no line end after the last line); "raw": the bytes of a shipped file as they are
FORMS = ("lf", "crlf", "lf-nofinal", "crlf-nofinal")
# what write_meta_data finds under the name it writes: nothing, a longer file of another recording, or the very file that
# was parsed ("writing it back")
DESTS = ("fresh", "stale", "inplace")
STALE_LINE = "zzLeftOver{i}=9{i},1.5,text of another recording\n"


def write_form(f, text, form="lf", raw=None):
    """writes the lines of `text` in the given file form (text mode without newline translation, default encoding: the
    encoding the code under test reads with)"""
    if raw is not None:
        Path(f).write_bytes(raw)
        return
    if form.endswith("nofinal") and text.endswith("\n"):
        text = text[:-1]
    if form.startswith("crlf"):
        text = text.replace("\n", "\r\n")
    with open(f, "w", newline="") as fid:
        fid.write(text)


def plain_copy(d):
    """what a parse returned, kept apart from anything a later call may do to the returned object"""
    return {k: (list(x) if isinstance(x, list) else x) for k, x in d.items()}


# ---- defensive observation of what the code under test returns: anything that is not what the property promises becomes the
# ---- negative observation of the clause (a parse that gave no dictionary, values that are not equal), never an error here
MISSING = type("Missing", (), {"__repr__": lambda self: "<no such key>"})()


def as_dictionary(x):
    """(plain copy, "") if a parse returned a dictionary, (None, what it returned) otherwise"""
    try:
        if isinstance(x, dict) or (hasattr(x, "items") and hasattr(x, "keys")):
            return plain_copy(x), ""
    except Exception as e:  # noqa
        return None, f"returned a {type(x).__name__} whose items cannot be read ({type(e).__name__})"
    return None, f"returned {type(x).__name__} instead of a dictionary"


def same(a, b):
    """a == b; values that `==` does not compare into one truth value (arrays inside the dictionaries) are compared element by
    element; values that cannot be compared at all are not equal"""
    try:
        return bool(a == b)
    except Exception:
        pass
    try:
        if isinstance(a, dict) and isinstance(b, dict):
            return a.keys() == b.keys() and all(same(a[k], b[k]) for k in a)
        x, y = np.asarray(a), np.asarray(b)
        return x.shape == y.shape and bool(np.all(x == y))
    except Exception:
        return False


def keytext(k):
    """a key of a parsed dictionary as text (keys are strings; anything else is shown for what it is)"""
    return k if isinstance(k, str) else f"<{type(k).__name__}>{k!r}"


# ------------------------------------------------------------------------------------------
# grammar: running the real code
# ------------------------------------------------------------------------------------------
def absym(ch):
    if ch == "0":
        return "0"
    if ch in "123456789":
        return "1"
    if ch in ",.=~":
        return ch
    return "a"


def absstr(s):
    return [absym(ch) for ch in s]


def concretise(sym, rnd):
    out = []
    for s in sym:
        if s == "0":
            out.append("0")
        elif s == "1":
            out.append(rnd.choice("123456789"))
        elif s == "a":
            out.append(rnd.choice(OTHER))
        else:
            out.append(s)
    return "".join(out)


def kind_of(val):
    if val is MISSING:
        return "none"
    if isinstance(val, str):
        return "str"
    if isinstance(val, list):
        return "list"
    if isinstance(val, float):
        return "num"
    return "other:" + type(val).__name__


def split_line(line):
    k, _, val = line.partition("=")
    return k, val


def round_trip(folder, text, form="lf", dest="fresh", aspath=True, raw=None):
    """real read -> write -> read of a metadata file with this text, in file form `form`, written to a destination in state
    `dest`, the file names given as Path or str.  d1 is the dictionary as the first parse returned it (a copy taken before
    write_meta_data and the second parse get to see the object)."""
    import spikeglx
    folder = Path(folder)
    folder.mkdir(parents=True, exist_ok=True)
    f1, f2 = folder / "rt_1.meta", folder / "rt_2.meta"
    write_form(f1, text, form, raw)
    if dest == "inplace":
        f2 = f1
    elif dest == "stale":
        n = (len(text) + (len(raw) if raw else 0)) // 20 + 50
        f2.write_text("".join(STALE_LINE.format(i=i) for i in range(n)))
    elif f2.exists():
        f2.unlink()
    a1, a2 = (f1, f2) if aspath else (str(f1), str(f2))
    res = {"raised1": False, "exc1": "", "raised2": False, "exc2": "", "d1": None, "d2": None, "text2": "",
           "how": f"file form {form if raw is None else 'as shipped'}, destination {dest}, names as {'Path' if aspath else 'str'}"}
    res["stage2"] = "the second parse"
    try:
        d1 = spikeglx.read_meta_data(a1)
    except Exception as e:
        res["raised1"], res["exc1"] = True, type(e).__name__
        return res
    res["d1"], why = as_dictionary(d1)
    if res["d1"] is None:
        # no dictionary came back: for the property the same as a parse that did not succeed
        res["raised1"], res["exc1"] = True, why
        return res
    try:
        spikeglx.write_meta_data(d1, a2)
    except Exception as e:
        # the writer did not complete: there is no second dictionary (judged like a second parse that did not succeed)
        res["raised2"], res["exc2"], res["stage2"] = True, type(e).__name__, "write_meta_data"
    res["text2"] = read_written(f2)
    if res["raised2"]:
        return res
    try:
        d2 = spikeglx.read_meta_data(a2)
    except Exception as e:
        res["raised2"], res["exc2"] = True, type(e).__name__
        return res
    res["d2"], why = as_dictionary(d2)
    if res["d2"] is None:
        res["raised2"], res["exc2"] = True, why
    return res


def read_written(f):
    """the text write_meta_data left (for the descriptions and the implementation-layer comparison); no file / no text: what
    can be made of it - the verdict comes from the second parse"""
    try:
        return Path(f).read_text()
    except OSError:
        return ""
    except UnicodeError:
        return Path(f).read_bytes().decode("utf-8", "replace")


def _big(val):
    return any(len(tok.replace(".", "").strip("0")) > 15 or len(tok.replace(".", "")) > 15
               for tok in re.findall(r"[0-9.]+", val))


def grammar_trace(text, res):
    """trace record of one file for MetaGrammarTrace"""
    lines = text.splitlines()
    t = {"lines": [], "obs": [], "raised1": res["raised1"], "raised2": res["raised2"], "exc": res["exc1"] or res["exc2"],
         "equal": bool(res["d1"] is not None and res["d2"] is not None and same(res["d1"], res["d2"])), "keys1": []}
    written = {}
    for ln in res["text2"].splitlines():
        k, val = split_line(ln)
        written[k] = val
    lastline = {}
    for i, ln in enumerate(lines):
        lastline[split_line(ln)[0].replace("~", "")] = i
    filekeys = set(lastline)
    for i, ln in enumerate(lines):
        long = len(ln) > LONG
        k, val = split_line(ln)
        t["lines"].append({"t": [] if long else list(ln), "long": long,
                           "isstr": bool(re.fullmatch("[0-9,.]*", val) is None) if long else False})
        if res["raised1"]:
            continue
        key = k.replace("~", "")
        d1, d2 = res["d1"], res["d2"]
        o = {"key": list(key), "k1": "none", "w": [], "k2": "none", "eqv": False, "big": _big(val),
             "shadowed": lastline.get(key) != i or key in ("neuropixelVersion", "serial")}     # (the reader overwrites these two)
        if "=" in ln and key in d1:
            o["k1"] = kind_of(d1[key])
            o["w"] = list(written.get(key, "<missing>"))
            if d2 is not None and key in d2:
                o["k2"] = kind_of(d2[key])
                o["eqv"] = same(d1[key], d2[key])
        t["obs"].append(o)
    if not res["raised1"]:
        t["keys1"] = [list(keytext(k)) for k in res["d1"].keys() if k in filekeys or k not in ("neuropixelVersion", "serial")]
    return t


def g_nstates(t):
    return 3 + (0 if t["raised1"] else len(t["lines"]))


def tiny_scalar(val):
    return bool(re.fullmatch(r"0*\.0000[0-9]*[1-9][0-9]*", val))


def grammar_key(text, t, clause):
    """scenario-class key of a grammar violation"""
    if clause.startswith("RoundTrip:value"):
        for ln, o in zip(text.splitlines(), t["obs"]):
            if not o["shadowed"] and not o["eqv"] and len(ln) <= LONG:
                val = split_line(ln)[1]
                if tiny_scalar(val):
                    return "grammar:roundtrip:scalar-below-1e-4", ln
                return f"grammar:roundtrip:{o['k1']}", ln
    if any(tiny_scalar(split_line(ln)[1]) for ln in text.splitlines()):
        return "grammar:roundtrip:scalar-below-1e-4", ""
    return "grammar:" + clause.lower().replace("roundtrip:", "roundtrip:file:"), ""


def check_grammar_traces(ctx, texts, results, label):
    trs = [grammar_trace(tx, r) for tx, r in zip(texts, results)]
    verdicts = tracecheck.validate(ctx, GMOD, GCFG, trs, label=label, jvms=4, workers=2, nstates=g_nstates)
    for vd in verdicts:
        tx, t = texts[vd["index"]], trs[vd["index"]]
        if vd["prop"]:
            key, ln = grammar_key(tx, t, vd["prop"])
            ctx.violation(key, f"read -> write -> read of a metadata file ({len(t['lines'])} lines): property-layer clause "
                          f"{vd['prop']} false" + (f" at line {ln!r}" if ln else "") + (f" ({t['exc']})" if t["exc"] else "")
                          + f" [{results[vd['index']].get('how', '')}]",
                          {"kind": "grammar", "text": tx, **results[vd["index"]].get("scn", {})})
        elif vd["impl"]:
            ctx.spec_drift(f"metadata file ({len(t['lines'])} lines, line {vd['pos']}): step {vd['impl']} is not a step of "
                           f"spec/lib/MetaGrammar.tla (every property-layer formula holds)")
    return trs, {vd["index"] for vd in verdicts}


# ------------------------------------------------------------------------------------------
# grammar: spec -> code on the exported cases
# ------------------------------------------------------------------------------------------
def replay_exported_grammar(ctx, cases, rnd):
    """returns (texts, results, number of violations, indices of the batch files the trace direction must judge)"""
    folder = Path(ctx.scratch) / "c09g"
    safe = [c for c in cases if c["k"] != "raise"]
    unsafe = [c for c in cases if c["k"] == "raise"]
    reps = 1 if ctx.quick else 2
    texts, results, must = [], [], []
    nviol = 0
    o1, o2, nb = rnd.randrange(len(FORMS)), rnd.randrange(len(DESTS)), 0
    for rep in range(reps):
        rnd.shuffle(safe)
        # files of values inside the property's domain are kept apart from the others: on them the whole dictionaries must agree
        parts = []
        for sel in (True, False):
            group = [c for c in safe if bool(c["dom"]) == sel]
            parts += [group[off:off + 400] for off in range(0, len(group), 400)]
        for part in parts:
            vals = [concretise(c["v"], rnd) for c in part]
            text = "".join(f"k{i:04d}={val}\n" for i, val in enumerate(vals))
            # every file form x every state of the destination x both spellings of a file name come up (12 | ~100 batches)
            scn = {"form": FORMS[(nb + o1) % len(FORMS)], "dest": DESTS[(nb // len(FORMS) + o2) % len(DESTS)], "aspath": nb % 5 != 0}
            nb += 1
            res = round_trip(folder, text, **scn)
            res["scn"] = scn
            texts.append(text)
            results.append(res)
            before = nviol
            if res["raised1"] or res["raised2"]:
                # a parse raised although no line is expected to: find the line(s)
                for i, (c, val) in enumerate(zip(part, vals) if nviol < 30 else []):
                    one = round_trip(folder, f"k={val}\n", **scn)
                    if one["raised1"] or one["raised2"]:
                        if c["dom"]:
                            nviol += 1
                            ctx.violation("grammar:roundtrip:raised", f"value {val!r} is in the property's domain and "
                                          f"{'the first parse' if one['raised1'] else one['stage2']} did not succeed: "
                                          f"{one['exc1'] or one['exc2']} [{one['how']}]", {"kind": "grammar", "text": f"k={val}\n", **scn})
                        else:
                            ctx.spec_drift(f"value {val!r}: a parse raised, the implementation layer does not")
                if nviol == before:
                    must.append(len(texts) - 1)         # no single line reproduces it: the file as a whole is judged
                continue
            d1, d2 = res["d1"], res["d2"]
            written = dict(split_line(ln) for ln in res["text2"].splitlines())
            for i, (c, val) in enumerate(zip(part, vals)):
                key = f"k{i:04d}"
                ctx.count(1, key=("g", tuple(c["v"])) if c["k"] != "str" else None)
                v1 = d1.get(key, MISSING)
                eqv = key in d1 and key in d2 and same(v1, d2[key])
                if c["dom"] and not eqv:
                    cls = "scalar-below-1e-4" if tiny_scalar(val) else kind_of(v1)
                    ctx.violation(f"grammar:roundtrip:{cls}",
                                  f"value {val!r} (in the property's domain) parsed as {v1!r}, written as "
                                  f"{written.get(key)!r}, parsed again as {d2.get(key)!r}: RoundTrip false [{res['how']}]",
                                  {"kind": "grammar", "text": f"k={val}\n", **scn})
                    nviol += 1
                    continue
                got = (kind_of(v1), absstr(written.get(key, "<missing>")), kind_of(d2.get(key, 0)), bool(eqv))
                exp = (c["k"], list(c["w"]), c["k2"], c["same"])
                if got != exp:
                    ctx.spec_drift(f"value {val!r}: real (kind, written, kind2, equal) = {got}, implementation layer {exp}")
            if nviol == before and part and part[0]["dom"] and not same(d1, d2):
                must.append(len(texts) - 1)             # every value came back, the dictionaries differ all the same
        for c in (unsafe if rep == 0 else []):
            val = concretise(c["v"], rnd)
            res = round_trip(folder, f"k={val}\n")
            ctx.count(1)
            if not res["raised1"]:
                ctx.spec_drift(f"value {val!r} (outside the property's domain): the implementation layer raises, the "
                               f"code returned {res['d1'].get('k')!r}")
    return texts, results, nviol, must[:20]


# ------------------------------------------------------------------------------------------
# grammar: files for the trace direction
# ------------------------------------------------------------------------------------------
def random_value(rnd):
    c = rnd.randrange(16)
    dig = lambda n: "".join(rnd.choice("0123456789") for _ in range(n))   # noqa: E731
    nz = lambda: rnd.choice("123456789")   # noqa: E731
    if c == 0:
        return dig(rnd.randint(1, 25))
    if c == 1:
        return dig(rnd.randint(0, 12)) + "." + dig(rnd.randint(0, 12)) or "0"
    if c == 2:      # small scalars around the 1e-4 switch of repr()
        return rnd.choice(["0", "", "00"]) + "." + "0" * rnd.randint(2, 9) + nz() + dig(rnd.randint(0, 6))
    if c == 3:      # integer lists
        return ",".join(dig(rnd.randint(1, 6)) + rnd.choice(["", "", ".0", "."]) for _ in range(rnd.randint(2, 20)))
    if c == 4:
        return ",".join(str(rnd.randrange(0, 400)) for _ in range(rnd.randint(2, 30)))
    if c == 5:      # '=' inside values, tildes, version strings, negative numbers, exponents: strings
        return rnd.choice(["a=b", "=", "==1", "~x", "x~", "2.0.137", "1.2.3", "-0.6", "-5", "1e-05", "3E8", "+1", " 1", "1 ",
                           "0x10", "1_0", "inf", "nan", "None", "true", "0:383", "0:10,50:90,384", "C:/a/b=c.imro",
                           "PXI1Slot2_1ch_Int : 30003.000300", "(0,384)(0 0 0 500 250 1)", "2024-03-13T12:16:32"])
    if c == 6:
        return ""
    if c == 7:
        return "".join(rnd.choice(OTHER + "0123456789,.=~") for _ in range(rnd.randint(1, 30)))
    if c == 8:      # scalars with trailing / leading zeros
        return "0" * rnd.randint(0, 3) + dig(rnd.randint(1, 5)) + "." + dig(rnd.randint(1, 5)) + "0" * rnd.randint(0, 3)
    if c == 9:      # sampling rates, durations
        return repr(rnd.choice([30000.390639481, 2500.0325532900833, 29999.83625, 824.4640643928594, 0.5, 0.62]))
    if c == 10:
        return np.format_float_positional(rnd.random() * 10.0 ** rnd.randint(-9, 3), unique=True, trim="-")
    if c == 11:
        return nz() + dig(rnd.randint(14, 22)) + rnd.choice(["", ".5", ".25"])
    if c == 12:
        return "0." + dig(rnd.randint(16, 25))
    if c == 14:     # integer lists with elements beyond 2^31 / 2^53 digits apart (file sizes, serial numbers, first samples)
        return ",".join(str(rnd.choice([2 ** 31, 2 ** 32 + 5, 36233200080, 18005116811, rnd.randrange(10 ** 9, 10 ** 15)]))
                        for _ in range(rnd.randint(2, 6)))
    if c == 15:     # long integer lists (a saved-channel subset spelled out)
        return ",".join(str(i) for i in sorted(rnd.sample(range(0, 800), rnd.randint(40, 400))))
    return str(rnd.randrange(0, 10 ** 9))


def edge_files():
    """the smallest files of the grammar: no line at all, one line without a line end, an empty key, an empty value, a key with
    blanks, a key that is a number, the two keys the reader derives present in the file itself"""
    return ["", "k=v", "k=1", "=v\n", "=\n", "k=\n", "a b = c d\n", "12=34\n7=8,9\n", "k==\n", "~=~\n",
            "neuropixelVersion=3B2\nserial=12\nk=0.5\n", "serial=7\n", "k=1\nk=2\nk=x\n"]


def random_files(ctx, rnd):
    out = []
    nfiles = 40 if ctx.quick else 400
    for _ in range(nfiles):
        n = rnd.randint(1, 40)
        keys = []
        for i in range(n):
            base = rnd.choice([f"key{i}", f"imDat{i}_x", f"sns{i}Map", f"k{i}"])
            if rnd.random() < 0.25:
                base = rnd.choice(["~" + base, base + "~", base[:2] + "~" + base[2:], "~~" + base])
            if keys and rnd.random() < 0.1:
                base = rnd.choice(keys)                       # duplicate key (possibly differing in tildes only)
                if rnd.random() < 0.5:
                    base = "~" + base.replace("~", "")
            keys.append(base)
        out.append("".join(f"{k}={random_value(rnd)}\n" for k in keys))
    return out


def fixture_texts():
    import spikeglx
    fx = Path(spikeglx.__file__).resolve().parent / "tests" / "fixtures"
    return [(f.name, f.read_text()) for f in sorted(fx.glob("*.meta"))]


def fixture_forms():
    """name -> file form of the shipped file (its line ends, line end after the last line), so that the code under test gets the
    bytes that are shipped; "raw" bytes if no form reproduces them"""
    import spikeglx
    fx = Path(spikeglx.__file__).resolve().parent / "tests" / "fixtures"
    out = {}
    for f in sorted(fx.glob("*.meta")):
        raw, text = f.read_bytes(), f.read_text()
        form = ("crlf" if b"\r\n" in raw else "lf") + ("" if raw.endswith(b"\n") or not raw else "-nofinal")
        same = (text.replace("\n", "\r\n") if form.startswith("crlf") else text).encode() == raw
        out[f.name] = {"form": form} if same else {"form": form, "raw": raw}
    return out


def metagen_texts(rnd):
    out = []
    for kind in metagen.KINDS:
        for stream in ("ap", "lf"):
            for enc in (("shank", "geom") if metagen.KINDS[kind][0] != "NPultra" else ("shank",)):
                n = rnd.choice([4, 9, 384])
                sites = metagen.dense_sites(kind)[:n]
                gains = [(rnd.choice(REAL_GAINS), rnd.choice(REAL_GAINS)) for _ in range(n)]
                txt, _ = metagen.make_meta(kind, sites, encoding=enc, stream=stream, ns=rnd.randrange(10, 10 ** 7), gains=gains,
                                           fs=rnd.choice([30000, 2500, 29999.83625]), tilde=rnd.random() < 0.8)
                out.append((f"{kind}-{stream}-{enc}", txt))
    for _ in range(4):
        txt, _ = metagen.make_nidq_meta(rnd.randint(0, 3), rnd.randint(0, 3), rnd.randint(0, 3), rnd.randint(0, 2) or 1,
                                        ns=rnd.randrange(10, 10 ** 7))
        out.append(("nidq", txt))
    return out


# ------------------------------------------------------------------------------------------
# derived parameters
# ------------------------------------------------------------------------------------------
UNBOUND = set()     # private helpers that the code under test does not have (any more)


def cfg_from_text(text):
    """the raw fields of a metadata file, by plain key look-up (no derivation)"""
    kv = {}
    for ln in text.splitlines():
        k, val = split_line(ln)
        kv[k.replace("~", "")] = val
    ints = lambda s: [int(float(x)) for x in s.split(",")]     # noqa: E731
    imec = kv.get("typeThis") == "imec"
    rng = kv.get("imAiRangeMax" if imec else "niAiRangeMax")
    nsaved = int(kv["nSavedChans"])
    cfg = {"typeThis": kv.get("typeThis", ""), "typeEnabled": "typeEnabled" in kv,
           "prbType": int(kv["imDatPrb_type"]) if "imDatPrb_type" in kv else -1,
           "port": "imDatPrb_port" in kv, "slot": "imDatPrb_slot" in kv,
           "aplfsy": ints(kv["snsApLfSy"]) if "snsApLfSy" in kv else [],
           "nSaved": nsaved,
           "imro": [[int(x) for x in e.split()] for e in re.findall(r"\(([0-9 ]+)\)", kv.get("imroTbl", ""))],
           "rangeC": int(round(float(rng) * 100)), "maxInt": int(kv["imMaxInt"]) if "imMaxInt" in kv else -1,
           "mnmaxadw": ints(kv["snsMnMaXaDw"]) if "snsMnMaXaDw" in kv else [],
           "mnGain": int(float(kv["niMNGain"])) if "niMNGain" in kv else -1,
           "maGain": int(float(kv["niMAGain"])) if "niMAGain" in kv else -1, "nsdoc": -1}
    if "fileSizeBytes" in kv and int(kv["fileSizeBytes"]) % (2 * nsaved) == 0:
        cfg["nsdoc"] = int(kv["fileSizeBytes"]) // (2 * nsaved)
    fstext = kv.get("imSampRate" if imec else "niSampRate")
    return cfg, fstext


def proj_gain(x, what):
    """projection of a float that should be an integer gain"""
    if not np.isfinite(x) or x <= 0:
        return -1
    g = int(round(x))
    return g if g > 0 and abs(x - g) <= 1e-5 * g else -1


EMPTY_OBS = {"version": "", "major": "", "type": "", "nc": -1, "nsync": -1, "sync": [], "analog": [], "maxint": -1,
             "s2v": [], "rv": [], "ns": -1, "fsok": False}
LIVE = {}           # the Reader of the file observed before this one, still alive: {"sr", "cfg", "fstext", "t"}
NOBS = [0]


def project(sr, cfg, fstext, backwards=False):
    """what a Reader derives, projected for the trace specification.  `backwards`: the same accessors in the opposite order
    (range_volts before sample2volts, counts before version): a second look at an object must show what the first one showed"""
    import spikeglx
    md = sr.meta
    if backwards:
        rvv = np.asarray(sr.range_volts, dtype=np.float64)
        s2v = np.asarray(sr.sample2volts, dtype=np.float64)
    else:
        s2v = np.asarray(sr.sample2volts, dtype=np.float64)
        rvv = np.asarray(sr.range_volts, dtype=np.float64)
    # three derived quantities have no public accessor: they are read through private helpers when those exist; otherwise the
    # public Reader properties are used where they determine the value (sync traces = the last `nsync` ones) and the value
    # of the independent reading is filled in where nothing public exposes it (that clause is then not observed: drift)
    f_sync = getattr(spikeglx, "_get_sync_trace_indices_from_meta", None)
    f_max = getattr(spikeglx, "_get_max_int_from_meta", None)
    f_ana = getattr(spikeglx, "_get_analog_sync_trace_indices_from_meta", None)
    for nm, fn in (("_get_sync_trace_indices_from_meta", f_sync), ("_get_max_int_from_meta", f_max),
                   ("_get_analog_sync_trace_indices_from_meta", f_ana)):
        if fn is None:
            UNBOUND.add("spikeglx." + nm)
    sync = [int(i) for i in f_sync(md)] if f_sync else list(range(int(sr.nc) - int(sr.nsync), int(sr.nc)))
    if f_max:
        maxint = int(f_max(md))
    else:
        maxint = cfg["maxInt"] if cfg["maxInt"] != -1 else (512 if cfg["typeThis"] == "imec" else 32768)
    if f_ana:
        analog = [int(i) for i in f_ana(md)]
    else:
        mn = cfg["mnmaxadw"]
        analog = list(range(mn[0] + mn[1], mn[0] + mn[1] + mn[2])) if cfg["typeThis"] == "nidq" and len(mn) == 4 else []
    rg = cfg["rangeC"] / 100.0
    s2 = [["unit"] if x == 1.0 else [cfg["rangeC"], maxint, proj_gain(rg / maxint / x, "s2v")] for x in s2v]
    rv = [0 if i in sync else proj_gain(rg / x, "rv") for i, x in enumerate(rvv)]
    try:
        ns = int(sr.ns)
    except TypeError:     # metadata of a running acquisition has no fileTimeSecs
        ns = -1
    if backwards:
        nc, nsync, typ, major, version = int(sr.nc), int(sr.nsync), str(sr.type), str(sr.major_version), str(sr.version)
    else:
        version, major, typ, nc, nsync = str(sr.version), str(sr.major_version), str(sr.type), int(sr.nc), int(sr.nsync)
    obs = {"version": version, "major": major, "type": typ, "nc": nc, "nsync": nsync, "sync": sync, "analog": analog,
           "maxint": maxint, "s2v": s2, "rv": rv, "ns": ns,
           "fsok": bool(fstext is not None and float(sr.fs) == float(fstext))}
    if obs["nsync"] != len(sync):
        # Reader.nsync and the index list disagree: a list that no configuration expects (never empty, never huge, whatever
        # number - negative, 10^10 - the property returned)
        obs["sync"] = [-1] * max(1, min(abs(obs["nsync"]), 4096))
    return obs


def look_again(rec, when):
    """a later look at a Reader that was observed before: what differs from the first observation becomes one more record of
    the same file (judged by the same clauses)"""
    t = rec["t"]
    if t["exc"]:
        return
    try:
        obs, exc = project(rec["sr"], rec["cfg"], rec["fstext"], backwards=True), ""
    except Exception as e:
        obs, exc = dict(EMPTY_OBS), type(e).__name__
    if exc or obs != t["obs"]:
        t.setdefault("later", []).append({"cfg": t["cfg"], "exc": exc, "obs": obs, "when": when})


def observe_derive(folder, text, name=None, form="lf", raw=None):
    """reads the file (written in file form `form`, under the name of its stream) with the real Reader and projects what it
    derives; looks a second time at the same object, and a second time at the Reader of the previous file, which is still alive
    while the file it was made from has been overwritten (both must show what they showed first)"""
    import spikeglx
    folder = Path(folder)
    folder.mkdir(parents=True, exist_ok=True)
    cfg, fstext = cfg_from_text(text)
    if name is None:
        name = "rec_g0_t0.nidq.meta" if cfg["typeThis"] == "nidq" else \
            f"rec_g0_t0.imec0.{'ap' if cfg['aplfsy'] and cfg['aplfsy'][0] > 0 else 'lf'}.meta"
    f = folder / name
    write_form(f, text, form, raw)
    NOBS[0] += 1
    t = {"cfg": cfg, "exc": "", "obs": None, "how": f"file form {form if raw is None else 'as shipped'}", "form": form}
    sr = None
    try:
        try:
            sr = spikeglx.Reader(f if NOBS[0] % 4 else str(f))
        except ValueError:
            if not (cfg["typeThis"] == "nidq" and cfg.get("typeEnabled")):
                raise
            # the header of the nidq stream of a phase-3A rig: the unchanged Reader cannot be constructed on it (a 384-site default
            # geometry is forced onto the nidq channels - outside this property, reported in DESIGN.md); what the library derives
            # from the metadata is looked at through the Reader's own accessors on an object that only carries the metadata
            sr = spikeglx.Reader.__new__(spikeglx.Reader)
            sr.meta = spikeglx.read_meta_data(f)
            sr.channel_conversion_sample2v = spikeglx._conversion_sample2v_from_meta(sr.meta)
            t["how"] += ", metadata-only view"
        t["obs"] = project(sr, cfg, fstext)
    except Exception as e:
        t["exc"] = type(e).__name__
        t["obs"] = dict(EMPTY_OBS)
    rec = {"sr": sr, "cfg": cfg, "fstext": fstext, "t": t, "text": text}
    if sr is not None:
        look_again(rec, "second look at the same Reader")
    if LIVE and LIVE.get("sr") is not None:
        look_again(LIVE, "look at a Reader after the next file was read under the same name")
        if "later" in LIVE["t"]:
            LIVE["t"]["after"] = text
    LIVE.clear()
    LIVE.update(rec)
    return t


def meta_from_cfg(cfg, rnd, ns=1000):
    """a .meta (metagen) that says what the abstract configuration says"""
    if cfg["typeThis"] == "nidq":
        mn, ma, xa, dw = cfg["mnmaxadw"]
        extra = {} if cfg["maxInt"] == -1 else {"imMaxInt": cfg["maxInt"]}
        if cfg.get("typeEnabled"):
            extra["typeEnabled"] = "imec,nidq"          # the nidq stream of a phase-3A rig
        txt, _ = metagen.make_nidq_meta(mn, ma, xa, dw, ns=ns, mn_gain=cfg["mnGain"], ma_gain=cfg["maGain"],
                                        range_max=cfg["rangeC"] // 100, extra=extra)
        return txt
    kind = {(True, -1): "3A", (False, 0): "3B2", (False, 21): "NP2.1", (False, 1030): "NP2.1", (False, 24): "NP2.4",
            (False, 2013): "NP2.4", (False, 1100): "NPultra"}[(cfg["typeEnabled"], cfg["prbType"])]
    ap, lf, sy = cfg["aplfsy"]
    n = ap + lf
    stream = "ap" if ap else "lf"
    txt, _ = metagen.make_meta(kind, metagen.dense_sites(kind)[:n], stream=stream, ns=ns, nsync=sy,
                               range_max=cfg["rangeC"] / 100, maxint=max(cfg["maxInt"], 1), write_maxint=cfg["maxInt"] != -1)
    lines = []
    for ln in txt.splitlines():
        k = split_line(ln)[0]
        if k == "imDatPrb_type":
            ln = f"imDatPrb_type={cfg['prbType']}"
        if (k == "imDatPrb_port" and not cfg["port"]) or (k == "imDatPrb_slot" and not cfg["slot"]):
            continue
        if k in ("imDatPrb_port", "imDatPrb_slot"):
            # the generation is decided by the PRESENCE of the two keys: any value, including 0, must give the same answer
            vals = [1, 2, 0, 4, 3, 0] if k == "imDatPrb_port" else [2, 0, 3, 4, 0, 2]
            ln = f"{k}={vals[(ap + 3 * lf + sy + len(cfg['imro']) + cfg['rangeC'] + max(cfg['maxInt'], 0)) % len(vals)]}"
        if k.replace("~", "") == "imroTbl":
            hdr = "(641251510,3,384)" if kind == "3A" else f"({cfg['prbType']},384)"
            ln = f"{k}={hdr}" + "".join("(" + " ".join(str(x) for x in e) + ")" for e in cfg["imro"])
        lines.append(ln)
    return "\n".join(lines) + "\n"


def dress(text, rnd, imro=False):
    """the same metadata with what must not matter varied: the value of typeEnabled (3A: "imec,nidq" when a nidq stream ran
    along), the enable keys of 3B (typeImEnabled / typeNiEnabled), empty / foreign keys, the order of the lines (a dictionary has
    none); with `imro` also bank / reference / filter numbers of the IMRO entries (the gains stay where they are)"""
    lines = text.splitlines()
    if any(ln.startswith("typeEnabled=") for ln in lines):
        lines = [f"typeEnabled={rnd.choice(['imec', 'imec,nidq', 'nidq,imec'])}" if ln.startswith("typeEnabled=") else ln for ln in lines]
    elif rnd.random() < 0.5:
        lines += [f"typeImEnabled={rnd.randint(0, 2)}", f"typeNiEnabled={rnd.randint(0, 1)}"]
    if rnd.random() < 0.5:
        lines += rnd.sample(["userNotes=", "imStdby=", "syncSourceIdx=0", "gateMode=Immediate", "imRoFile=", "trigMode=Immediate",
                             "fileCreateTime=2019-05-07T17:24:02", "syncImThresh=3", "~muxTbl=(32,12)(0 1 24 25 48 49)"], 3)
    if imro:
        def entry(m):
            tail = f" {rnd.randint(0, 1)}" if m.group(6) else ""
            return f"({m.group(1)} {rnd.randint(0, 2)} {rnd.randint(0, 3)} {m.group(4)} {m.group(5)}{tail})"
        lines = [re.sub(r"\(([0-9]+) ([0-9]+) ([0-9]+) ([1-9][0-9]*) ([1-9][0-9]*)( [0-9]+)?\)", entry, ln)
                 if split_line(ln)[0].replace("~", "") == "imroTbl" else ln for ln in lines]
    if rnd.random() < 0.25:
        rnd.shuffle(lines)
    return "\n".join(lines) + "\n"


def full_size_texts(ctx, rnd):
    """full-size files: saved-channel counts 1..384, non-uniform gain pairs of the real gain set"""
    out = []
    counts = [1, 2, 17, 100, 276, 301, 383, 384] if ctx.quick else list(range(1, 385))
    kinds = list(metagen.KINDS)
    for n in counts:
        for kind in (kinds if (ctx.quick or n % 16 == 0 or n > 380) else [kinds[n % len(kinds)]]):
            for stream in ("ap", "lf"):
                if ctx.quick and (n + len(kind) + len(stream)) % 2:
                    continue
                major, ptype, drange, dmaxint, _ = metagen.KINDS[kind]
                gains = [(rnd.choice(REAL_GAINS), rnd.choice(REAL_GAINS)) for _ in range(n)]
                rg, mi = rnd.choice([(0.6, 512), (0.5, 8192), (0.62, 2048), (0.62, 8192), (drange, dmaxint)])
                wm = True if major != 1 else rnd.random() < 0.5
                if not wm:
                    mi = 512
                ns = rnd.randrange(10, 10 ** 7) if rnd.random() < 0.8 else rnd.choice([0, 1, 2, 10 ** 9 + 7, 3 * 10 ** 9])
                txt, _ = metagen.make_meta(kind, metagen.dense_sites(kind)[:n], stream=stream, ns=ns,
                                           nsync=rnd.choice([1, 1, 0]), gains=gains, range_max=rg, maxint=mi, write_maxint=wm,
                                           fs=rnd.choice([30000, 2500, 30000.390639481]),
                                           encoding=rnd.choice(["shank", "geom"]) if major != "NPultra" else "shank")
                if kind == "3B2" and rnd.random() < 0.3:      # port / slot numbers vary (0 included): only their presence matters
                    txt = txt.replace("imDatPrb_port=1", f"imDatPrb_port={rnd.choice([0, 2, 3, 4])}").replace(
                        "imDatPrb_slot=2", f"imDatPrb_slot={rnd.choice([0, 3, 4])}")
                if kind == "3B2" and rnd.random() < 0.3:      # 3B1: no port / slot
                    txt = "".join(ln + "\n" for ln in txt.splitlines() if not ln.startswith(("imDatPrb_port", "imDatPrb_slot")))
                if major == 2 and rnd.random() < 0.4:
                    txt = txt.replace(f"imDatPrb_type={ptype}", f"imDatPrb_type={ {21: 1030, 24: 2013}[ptype]}")
                out.append(dress(txt, rnd, imro=True))
    for _ in range(20 if ctx.quick else 300):
        txt, _ = metagen.make_nidq_meta(rnd.randint(0, 8), rnd.randint(0, 8), rnd.randint(0, 8), rnd.randint(0, 2),
                                        ns=rnd.randrange(10, 10 ** 7), mn_gain=rnd.choice([1, 10, 200, 500]),
                                        ma_gain=rnd.choice([1, 2, 10]), range_max=rnd.choice([5, 2, 10]),
                                        fs=rnd.choice([30003.0003, 25000, 32768.5]))
        if "nSavedChans=0\n" not in txt:
            out.append(dress(txt, rnd))
    return out


def d_nstates(t):
    return 3


I32 = 2 ** 31 - 1


def tlc_safe(t):
    """the record of one observation as TLC gets it.  TLC's integers have 32 bits and JsonDeserialize wraps larger numbers around
    without a word (a maximum integer of 512 + 2^32 would read as 512): counts and indices outside the range are replaced by a
    number no configuration expects; the two sample counts (announced and observed: files of 3e9 samples are inside the property)
    by a pair within the range that is equal exactly when they are equal"""
    fit = lambda n: -I32 <= n <= I32    # noqa: E731
    c, o = dict(t["cfg"]), dict(t["obs"])
    nsdoc, ns = c["nsdoc"], o["ns"]
    c["nsdoc"] = nsdoc if fit(nsdoc) else I32
    o["ns"] = c["nsdoc"] if ns == nsdoc else (ns if fit(ns) and ns != c["nsdoc"] else -3)
    for k in ("nc", "nsync", "maxint"):
        o[k] = o[k] if fit(o[k]) else -7
    for k in ("sync", "analog", "rv"):
        o[k] = [x if fit(x) else -7 for x in o[k]]
    o["s2v"] = [x if x == ["unit"] else [y if fit(y) else -7 for y in x] for x in o["s2v"]]
    return {"cfg": c, "exc": t["exc"], "obs": o}


def derive_key(t, clause):
    c = t["cfg"]
    ver = t["obs"]["version"] or ("nidq" if c["typeThis"] == "nidq" else f"type{c['prbType']}")
    return f"derive:{clause.split(':')[0]}:{ver}"


def describe_cfg(c):
    if c["typeThis"] == "nidq":
        return f"nidq snsMnMaXaDw={c['mnmaxadw']} gains MN {c['mnGain']} MA {c['maGain']} range {c['rangeC'] / 100} imMaxInt {c['maxInt']}"
    return (f"imec typeEnabled={c['typeEnabled']} imDatPrb_type={c['prbType']} port={c['port']} slot={c['slot']} snsApLfSy={c['aplfsy']} "
            f"nSavedChans={c['nSaved']} range {c['rangeC'] / 100} imMaxInt {c['maxInt']} imro[:3]={c['imro'][:3]}")


def check_derive_traces(ctx, texts, trs, label):
    clean = [tlc_safe(t) for t in trs]
    verdicts = tracecheck.validate(ctx, DMOD, DCFG, clean, label=label, jvms=4, workers=2, nstates=d_nstates)
    for vd in verdicts:
        t = trs[vd["index"]]
        if vd["prop"]:
            o = t["obs"]
            ctx.violation(derive_key(t, vd["prop"]),
                          f"{describe_cfg(t['cfg'])}: property-layer clause {vd['prop']} false (observed version={o['version']} "
                          f"type={o['type']} nc={o['nc']} sync={o['sync']} analog={o['analog']} maxint={o['maxint']} "
                          f"s2v[:3]={o['s2v'][:3]} .. {o['s2v'][-2:]}) [{t.get('how', '')}]",
                          {"kind": "derive", "text": texts[vd["index"]], "form": t.get("form", "lf"), "after": t.get("after")})
        elif vd["impl"]:
            ctx.spec_drift(f"{describe_cfg(t['cfg'])}: {vd['impl']} differs from the implementation layer of "
                           f"spec/lib/MetaDerive.tla (every property-layer formula holds)")
    return {vd["index"] for vd in verdicts}


def replay_exported_derive(ctx, exported, rnd):
    folder = Path(ctx.scratch) / "c09d"
    texts, trs = [], []
    off = rnd.randrange(len(FORMS))
    for rec in exported:
        cfg, exp = rec["cfg"], rec["exp"]
        text = dress(meta_from_cfg(cfg, rnd), rnd)
        t = observe_derive(folder, text, form=FORMS[(len(trs) + off) % len(FORMS)])
        # the file must say what the configuration says (guards metagen / meta_from_cfg)
        back = {k: t["cfg"][k] for k in cfg}
        if back != cfg:
            raise tlc.TLCError(f"metagen: the file written for {cfg} says {back}")
        texts.append(text)
        trs.append(t)
        nontrivial = cfg["typeThis"] == "nidq" or len({tuple(e[3:5]) for e in cfg["imro"]}) > 1
        ctx.count(1, key=("d", json.dumps(cfg, sort_keys=True)) if nontrivial else None)
        o = t["obs"]
        got = {k: o[k] for k in ("version", "major", "type", "nc", "nsync", "sync", "analog", "maxint", "s2v")}
        if t["exc"] or got != exp:
            bad = "raised " + t["exc"] if t["exc"] else ", ".join(k for k in exp if got[k] != exp[k])
            t["direct"] = bad
    return texts, trs


# ------------------------------------------------------------------------------------------
def run_models(ctx):
    tier = "quick" if ctx.quick else "thorough"
    gout, dout = Path(ctx.scratch) / "grammar_cases.json", Path(ctx.scratch) / "derive_cases.json"
    jobs = {
        "grammar": ("mc/MC_MetaGrammar.tla", f"mc/MetaGrammar_{tier}.cfg", {"OUT_FILE": str(gout)}),
        "derive": ("mc/MC_MetaDerive.tla", f"mc/MetaDerive_{tier}.cfg", {"OUT_FILE": str(dout)}),
        "grammar_orig": ("mc/MC_MetaGrammar.tla", "mc/MetaGrammar_orig.cfg", {"OUT_FILE": str(gout) + ".unused"}),
        "grammar_rawsplit": ("mc/MC_MetaGrammar.tla", "mc/MetaGrammar_rawsplit.cfg", {"OUT_FILE": str(gout) + ".unused"}),
        "mut_swapgain": ("mc/MC_MetaDerive.tla", "mc/MetaDerive_mut_swapgain.cfg", {}),
        "mut_allentries": ("mc/MC_MetaDerive.tla", "mc/MetaDerive_mut_allentries.cfg", {}),
        "mut_nidqorder": ("mc/MC_MetaDerive.tla", "mc/MetaDerive_mut_nidqorder.cfg", {}),
    }

    def one(name):
        mod, cfg, env = jobs[name]
        return name, tlc.run(mod, cfg, workers=3, timeout=1500, env=env, heap="6g")

    with ThreadPoolExecutor(max_workers=3) as ex:
        res = dict(ex.map(one, list(jobs)))
    for name in ("grammar", "derive"):
        ctx.tlc(res[name], jobs[name][1])
    # model self-tests: the property layers reject the wrong implementation layers
    if res["grammar_orig"].ok or res["grammar_orig"].invariant_violated != "ValueRoundTrip":
        raise tlc.TLCError("model self-test: the pre-fix writer (exponent notation) is not rejected by ValueRoundTrip")
    if res["grammar_rawsplit"].ok or res["grammar_rawsplit"].invariant_violated != "Framing":
        raise tlc.TLCError("model self-test: a reader that splits the undecoded text at LF is not rejected by Framing")
    for name in ("mut_swapgain", "mut_allentries", "mut_nidqorder"):
        if res[name].ok or res[name].invariant_violated != "AgreeS2V":
            raise tlc.TLCError(f"model self-test: the wrong implementation layer {name} is not rejected by AgreeS2V")
    ctx.cov["model_selftest_rejected"] = ["MetaGrammar Variant=orig", "MetaGrammar Variant=rawsplit", "MetaDerive swapgain", "MetaDerive allentries",
                                          "MetaDerive nidqorder"]
    return res, (json.loads(gout.read_text()) if gout.exists() else []), (json.loads(dout.read_text()) if dout.exists() else [])


def run(ctx):
    ctx.level = "model_checking"
    import logging
    logging.getLogger("ibllib").setLevel(logging.CRITICAL)
    rnd = random.Random(ctx.seed)
    res, gcases, dcases = run_models(ctx)

    # ---- grammar ------------------------------------------------------------------------
    if not res["grammar"].ok:
        # the model (which mirrors the code) violates the property layer: reproduce on the real code
        st = res["grammar"].error_trace[-1] if res["grammar"].error_trace else {}
        sym = tlc.parse_value(st.get("v", "<<>>"))
        val = concretise(sym, rnd)
        text = f"k={val}\n"
        r1 = round_trip(Path(ctx.scratch) / "c09g", text)
        _, bad = check_grammar_traces(ctx, [text], [r1], "grammar_cex")
        if not bad:
            raise tlc.TLCError(f"the model violates {res['grammar'].invariant_violated} at {val!r} but the real code does not: "
                               f"the implementation layer of spec/lib/MetaGrammar.tla misrepresents the code")
    btexts, bresults, _, must = replay_exported_grammar(ctx, gcases, rnd)
    folder = Path(ctx.scratch) / "c09g"
    ftexts, fresults = [], []
    # the shipped files go through the real code with the bytes they are shipped with (CR LF line ends, no final line end), once
    # to a fresh destination and once written back in place; every other file in a file form / destination state / name
    # spelling drawn for it (all of them come up: forms and destinations are cycled)
    fforms = fixture_forms()
    for j, (name, tx) in enumerate(fixture_texts()):
        for dest in ("fresh", "inplace") if ctx.quick else DESTS:
            scn = {"form": fforms[name]["form"], "dest": dest, "aspath": (j + len(dest)) % 2 == 0}
            ftexts.append(tx)
            fresults.append(round_trip(folder, tx, raw=fforms[name].get("raw"), **scn))
            fresults[-1]["scn"] = scn
    others = [tx for _, tx in metagen_texts(rnd)] + edge_files() + random_files(ctx, rnd)
    o1, o2 = rnd.randrange(len(FORMS)), rnd.randrange(len(DESTS))
    for j, tx in enumerate(others):
        scn = {"form": FORMS[(j + o1) % len(FORMS)], "dest": DESTS[(j // len(FORMS) + o2) % len(DESTS)], "aspath": j % 3 != 0}
        ftexts.append(tx)
        fresults.append(round_trip(folder, tx, **scn))
        fresults[-1]["scn"] = scn
    ctx.count(len(ftexts))
    nb = 6 if ctx.quick else 40
    chosen = list(range(min(nb, len(btexts)))) + [i for i in must if i >= nb]
    nb = len(chosen)
    gt_texts = [btexts[i] for i in chosen] + ftexts
    gtrs, gbad = check_grammar_traces(ctx, gt_texts, [bresults[i] for i in chosen] + fresults, "grammar")
    for t in gtrs[nb:nb + 2]:
        ctx.sample({"grammar_file_lines": len(t["lines"]), "raised1": t["raised1"], "equal": t["equal"],
                    "first_obs": [{k: (''.join(o[k]) if isinstance(o[k], list) else o[k]) for k in o} for o in t["obs"][:2]]})

    # ---- derived parameters -------------------------------------------------------------
    if not res["derive"].ok:
        raise tlc.TLCError(f"spec/lib/MetaDerive.tla: implementation layer and independent reading disagree "
                           f"({res['derive'].invariant_violated}); the configuration must be replayed by hand:\n"
                           f"{res['derive'].out[-1500:]}")
    dtexts, dtrs = replay_exported_derive(ctx, dcases, rnd)
    ndirect = len(dtrs)
    folder = Path(ctx.scratch) / "c09d"
    extra = full_size_texts(ctx, rnd)
    off = rnd.randrange(len(FORMS))
    for i, tx in enumerate(extra):
        dtexts.append(tx)
        dtrs.append(observe_derive(folder, tx, form=FORMS[(i + off) % len(FORMS)]))
        ctx.count(1, key=("dfull", i))
    fforms = fixture_forms()
    for name, tx in fixture_texts():        # (with the bytes they are shipped with)
        dtexts.append(tx)
        dtrs.append(observe_derive(folder, tx, name=name, form=fforms[name]["form"], raw=fforms[name].get("raw")))
        ctx.count(1, key=("dfix", name))
    # later looks at a Reader that showed something else than its first observation: one more record each, same clauses
    for i in range(len(dtrs)):
        for lt in dtrs[i].pop("later", []):
            dtexts.append(dtexts[i])
            dtrs.append({"cfg": lt["cfg"], "exc": lt["exc"], "obs": lt["obs"], "how": f"{dtrs[i]['how']}; {lt['when']}",
                         "form": dtrs[i]["form"], "after": dtrs[i].get("after")})
    direct = {i: t.pop("direct") for i, t in enumerate(dtrs) if "direct" in t}
    dbad = check_derive_traces(ctx, dtexts, dtrs, "derive")
    if UNBOUND:
        ctx.spec_drift(f"private helpers {sorted(UNBOUND)} not found: sync traces taken from Reader.nc / Reader.nsync; the maximum integer "
                       "and the analog sync traces are not observed separately any more (they still act through sample2volts / range_volts)")
    for i, what in direct.items():
        if i not in dbad:
            raise tlc.TLCError(f"binding disagreement: {describe_cfg(dtrs[i]['cfg'])} differs from the exported expectation "
                               f"({what}) but the trace spec accepts it")
    for t in dtrs[:1] + dtrs[ndirect:ndirect + 1] + dtrs[-1:]:
        o = t["obs"]
        ctx.sample({"cfg": {k: (x if k != "imro" else x[:2]) for k, x in t["cfg"].items()},
                    "obs": {k: (x if not isinstance(x, list) else x[:3]) for k, x in o.items()}})

    # ---- binding self-tests -------------------------------------------------------------
    selftest_grammar(ctx, gt_texts, gtrs, gbad)
    selftest_derive(ctx, dtrs, dbad)
    ctx.cov["rule"] = ("grammar: every abstract value string up to the export length instantiated with concrete characters "
                       "(non-trivial = not a plain string), random long values, tilde / duplicate keys, shipped fixtures (with "
                       "the bytes they are shipped with), metagen files, the smallest files; every file in one of the forms "
                       "{LF, CR LF} x {line end after the last line or not}, written to a destination that is {absent, a longer "
                       "file of another recording, the file that was parsed}, names as Path or str; derive: every configuration "
                       "of the model's space + full-size files (saved counts 1..384, random non-uniform gain pairs, sample counts "
                       "0 .. 3e9) + fixtures (non-trivial = nidq or non-uniform gains), in the same file forms, with what must not "
                       "matter varied (value of typeEnabled, foreign keys, line order, bank / reference numbers of the IMRO "
                       "entries); every Reader is looked at twice (accessors in both orders) and once more after the next file "
                       "was read")
    ctx.cov["exhaustive"] = True
    ctx.cov["numeric_postconditions"] = ["range / maxint / sample2volts[ch] and range / range_volts[ch] projected onto an "
                                         "integer gain (1e-5 relative); sync factor exactly 1.0; fs compared as float"]
    ctx.assumptions += ["keys the reader itself interprets (imProbeSN, imDatPrb_sn, imDatPrb_type, ...) keep the value types "
                        "SpikeGLX gives them", "values with a character that str.splitlines() treats as a line end are "
                        "outside the grammar", "numeric values that are not valid numbers ('.', ',', '1,') or lists with "
                        "a non-integer element are outside the property's domain (the reader raises / the writer truncates)",
                        "scalars with more than ~300 digits (float overflow to inf) are not instantiated",
                        "the probe-type table (1030 -> NP2.1, 2013 -> NP2.4) and the fixed NP2 gain 80 are taken from the "
                        "library's own documentation; saved channels are the first nSavedChans - nsync acquired ones",
                        "repr() reproduces the digits of a decimal with at most 15 significant digits (longer tokens are "
                        "checked on the property layer only)"]


def _plainly_in_domain(text):
    """conservative (selection of self-test candidates only): every value is a string, a simple scalar or a list of digit runs"""
    for ln in text.splitlines():
        val = split_line(ln)[1]
        if "=" not in ln or not (re.fullmatch("[0-9,.]*", val) is None or re.fullmatch(r"[0-9]+(\.[0-9]+)?|[0-9]+(,[0-9]+)+", val)):
            return False
    return True


def selftest_grammar(ctx, texts, trs, bad):
    cands = [i for i, t in enumerate(trs) if i not in bad and not t["raised1"] and _plainly_in_domain(texts[i]) and
             any(not o["shadowed"] and o["k1"] == "num" and not l["long"] for o, l in zip(t["obs"], t["lines"]))]
    if len(cands) < 3:
        raise tlc.TLCError("selftest: not enough accepted grammar traces with a numeric value")
    mut = []
    for j, i in enumerate(cands[:12]):
        t = copy.deepcopy(trs[i])
        k = j % 3
        if k == 0:
            o = next(o for o, l in zip(t["obs"], t["lines"]) if not o["shadowed"] and o["k1"] == "num" and not l["long"])
            o["eqv"] = False                   # the value came back different
        elif k == 1:
            t["equal"] = False                 # dictionaries differ
        else:
            t["raised2"] = True                # second parse raised
        mut.append(t)
    keep = ctx.cov["traces_validated_against_impl"]
    v = tracecheck.validate(ctx, GMOD, GCFG, mut, label="selftest_g", jvms=1, nstates=g_nstates)
    ctx.cov["traces_validated_against_impl"] = keep
    flagged = {x["index"] for x in v if x["prop"]}
    if len(flagged) != len(mut):
        raise tlc.TLCError(f"binding self-test (grammar): only {len(flagged)}/{len(mut)} corrupted traces were rejected")
    ctx.cov["selftest_corrupted_grammar_traces_rejected"] = len(flagged)


def selftest_derive(ctx, trs, bad):
    def nonuniform(t):
        g = [tuple(x) for x in t["obs"]["s2v"] if x != ["unit"]]
        return len(set(g)) > 1 and ["unit"] in t["obs"]["s2v"]
    cands = [i for i, t in enumerate(trs) if i not in bad and not t["exc"] and nonuniform(t)]
    if len(cands) < 7:
        raise tlc.TLCError("selftest: not enough accepted derive traces with non-uniform gains and a sync trace")
    mut = []
    for j, i in enumerate(cands[:28]):
        t = copy.deepcopy({x: trs[i][x] for x in ("cfg", "exc", "obs")})
        o = t["obs"]
        k = j % 7
        if k == 0:                                   # gains of two channels exchanged
            a = 0
            b = next(x for x in range(len(o["s2v"])) if o["s2v"][x] != ["unit"] and o["s2v"][x] != o["s2v"][a])
            o["s2v"][a], o["s2v"][b] = o["s2v"][b], o["s2v"][a]
        elif k == 1:
            o["s2v"] = o["s2v"][:-1]                 # vector one short
        elif k == 2:
            o["maxint"] = 32768 if o["maxint"] != 32768 else 512
        elif k == 3:
            o["sync"] = [x - 1 for x in o["sync"]]   # sync index off by one
        elif k == 4:
            o["version"] = "3B1" if o["version"] != "3B1" else "3B2"
        elif k == 5:
            o["s2v"][-1] = o["s2v"][0]               # sync trace scaled
        else:
            x = next(x for x in range(len(o["rv"])) if o["rv"][x] != 0)
            o["rv"][x] += 1
        mut.append(t)
    keep = ctx.cov["traces_validated_against_impl"]
    v = tracecheck.validate(ctx, DMOD, DCFG, [tlc_safe(t) for t in mut], label="selftest_d", jvms=1, nstates=d_nstates)
    ctx.cov["traces_validated_against_impl"] = keep
    flagged = {x["index"] for x in v if x["prop"]}
    if len(flagged) != len(mut):
        raise tlc.TLCError(f"binding self-test (derive): only {len(flagged)}/{len(mut)} corrupted traces were rejected "
                           f"(missed: {sorted(set(range(len(mut))) - flagged)})")
    ctx.cov["selftest_corrupted_derive_traces_rejected"] = len(flagged)


def replay(ctx, sc):
    import logging
    logging.getLogger("ibllib").setLevel(logging.CRITICAL)
    if sc["kind"] == "grammar":
        res = round_trip(Path(ctx.scratch) / "c09g", sc["text"], form=sc.get("form", "lf"), dest=sc.get("dest", "fresh"),
                         aspath=sc.get("aspath", True))
        check_grammar_traces(ctx, [sc["text"]], [res], "replay")
    else:
        t = observe_derive(Path(ctx.scratch) / "c09d", sc["text"], form=sc.get("form") or "lf")
        if sc.get("after"):             # the history of the case: the file that was read next, while this Reader was alive
            observe_derive(Path(ctx.scratch) / "c09d", sc["after"])
        trs = [t] + [{"cfg": lt["cfg"], "exc": lt["exc"], "obs": lt["obs"], "how": lt["when"]} for lt in t.pop("later", [])]
        check_derive_traces(ctx, [sc["text"]] * len(trs), trs, "replay")
