"""C05 - destriping removes ADC-skewed common noise and keeps local spikes; channel groups; AGC.

1. TLC: spec/lib/DestripePipeline.tla through spec/mc/MC_Destripe.tla
     - ADC tick model: adc_shifts' loop == probe wiring; after re-alignment by the table every channel carries
       the same time label (and not with the opposite sign / no shift / another generation's table)   [assumptions]
     - data flow HighPass -> Realign -> Interpolate -> Spatial over all label vectors of 6 channels: outside
       channels neither read nor written by the spatial filter, reach others only through an interpolated neighbour
     - call tree of car / kfilt / fk with channel groups over all groupings of 6 channels and small settings sets:
       one child per group, children carry the caller's filter / gain-control / operator settings
   TLC exports the wiring tables and the label vectors with their expected influence sets.
2. code -> spec: module-level functions of ibldsp.voltage (car, kfilt, fk, agc, interpolate_bad_channels),
   fourier.fshift and scipy.signal.sosfiltfilt are wrapped (the recursion goes through the module globals, so child
   calls are seen); experiments are recorded as traces and validated by spec/trace/DestripeTrace.tla.
3. spec -> code: the disturbance of a pipeline experiment is sampled at the ticks of the *specification's* wiring
   table (not the code's), block label vectors come from TLC's enumeration, adc_shifts is compared with the table.
4. binding self-tests: corrupted records must be flagged.
5. inputs and histories (audit after round e, DESIGN 9.7): every kind of experiment is also run the way a caller may equally
   well run it - record lengths that are odd / not a power of two, single precision, Fortran-ordered / strided / read-only
   arrays, label vectors of other element types with the outside stretch anywhere (and `False`), dead / noisy channels that
   really are flat / noisy, the k_kwargs argument of destripe (mean referencing, channel groups, the defaults spelled out;
   the output is then also judged by the zero-reference clause), group vectors spelled with sparse / negative / float /
   string ids or as a list, more than three groups, groups of one or two rows, AGC whitening / windows of 1-5 samples /
   offsets / zero stretches / a second pass; earlier calls in the same process on the same header, label vector and settings
   containers (other arguments, one call failing), the calls in another order, tables handed out earlier and overwritten by
   their owner.  All of it is judged by the same property-layer clauses.

Decided by projection on the real output, NOT by TLC: Removed (RMS over the inside-brain channels and the interior
of the record at least 40 dB below the high-passed input), Kept (peak-to-peak of each 3-channel spike >= 90 % of its
high-passed amplitude), zero median/mean per group (<= 1e-9 of the data scale), equality with each group filtered
alone (rtol 1e-7), AGC product == input (1e-6 relative), "output block changed" (> 1e-9 relative).
"""
import copy
import inspect
import json
import random
import warnings
from concurrent.futures import ThreadPoolExecutor
from multiprocessing import get_context

import numpy as np

from vkit import tlc, tracecheck

NC = 384
NB = 6
BLK = NC // NB
GENKEY = {"NP1": "NP1", "NP2": "NP2", "NP2.4": "NP2", "NPultra": "NPultra"}
_ADC = {}       # wiring tables exported by TLC (set in run/replay before the pool forks)


# ----------------------------------------------------------------------------------------------
# recording wrappers
# ----------------------------------------------------------------------------------------------

class Recorder:
    """wraps the module-level functions; events carry effective (default-applied) arguments"""

    def __init__(self):
        import ibldsp.voltage as V
        import ibldsp.fourier as F
        import scipy.signal as S
        self.V, self.F, self.S = V, F, S
        self.events = []
        self.stack = []
        self.saved = {}

    def __enter__(self):
        V, F, S = self.V, self.F, self.S
        for mod, name in ((V, "car"), (V, "kfilt"), (V, "fk"), (V, "agc"), (V, "interpolate_bad_channels"),
                          (F, "fshift"), (S, "sosfiltfilt")):
            orig = getattr(mod, name)
            self.saved[(mod, name)] = orig
            wrapped = self._wrap(name, orig)
            setattr(mod, name, wrapped)
            # the same function bound under its own name in ibldsp.voltage (`from ibldsp.fourier import fshift`, `from
            # scipy.signal import sosfiltfilt`): an import style, not another mechanism
            if mod is not V and getattr(V, name, None) is orig:
                self.saved[(V, name)] = orig
                setattr(V, name, wrapped)
        return self

    def __exit__(self, *a):
        for (mod, name), orig in self.saved.items():
            setattr(mod, name, orig)

    def _wrap(self, name, orig):
        sig = inspect.signature(orig)

        def wrapper(*a, **k):
            try:
                b = sig.bind(*a, **k)
                b.apply_defaults()
                # settings containers (dicts / lists of numbers) as they are at entry: the caller may reuse and the callee may
                # change the object afterwards
                args = {k: (copy.deepcopy(v) if isinstance(v, (dict, list, tuple)) else v) for k, v in b.arguments.items()}
            except TypeError:
                args = {"_unbound": True}
            ev = {"id": len(self.events), "parent": self.stack[-1] if self.stack else -1, "name": name, "args": args}
            if name in ("car", "kfilt", "fk") and np.ndim(args.get("x")) == 2:
                # fingerprint of the rows at entry (agc works in place on what it is given)
                ev["xrows"] = [hash(np.ascontiguousarray(r).tobytes()) for r in np.asarray(args["x"])]
            self.events.append(ev)
            self.stack.append(ev["id"])
            try:
                return orig(*a, **k)
            finally:
                self.stack.pop()
        wrapper.__wrapped__ = orig
        return wrapper


def _rows_in(parent_rows, child_rows):
    """indices of the child's rows inside the parent's (by fingerprint at call entry; -1 if not found)"""
    lut = {}
    for i, r in enumerate(parent_rows):
        lut.setdefault(r, i)
    return [int(lut.get(r, -1)) for r in child_rows]


# ----------------------------------------------------------------------------------------------
# settings of car / kfilt / fk: concrete <-> abstract
# ----------------------------------------------------------------------------------------------

DEFAULT_BUTTER = {"N": 3, "Wn": 0.1, "btype": "highpass"}


NOT_A_NUMBER = -999999          # a setting that is no finite number of moderate size (TLC integers are 32-bit): nobody's setting
NOT_A_SHIFT = -10 ** 6


def _sint(f):
    """f() -> integer for TLC. The settings of a child call are what the *library* handed over: `None`, a string, an array, NaN,
    10^12 where a number belongs are observed as NOT_A_NUMBER (which is never the caller's setting), not as a harness failure"""
    try:
        v = float(f())
        return int(v) if np.isfinite(v) and abs(v) < 2 ** 31 - 1 else NOT_A_NUMBER
    except Exception:  # noqa
        return NOT_A_NUMBER


def _sjson(f):
    """f() -> canonical text of a settings container; containers that hold NumPy scalars / arrays (not JSON) are spelled through
    tolist() - np.float32(0.1) is another number than 0.1 and reads so - and anything else through its repr"""
    try:
        v = f()
        try:
            return json.dumps(v, sort_keys=True)
        except (TypeError, ValueError):
            return json.dumps(v, sort_keys=True, default=lambda o: o.tolist() if hasattr(o, "tolist") else repr(o))
    except Exception as ex:  # noqa
        return f"undecodable ({type(ex).__name__})"


def _abs_settings(fn, a):
    """effective arguments of a call -> abstract settings record (ints / strings) used by the specification (total: see _sint)"""
    if a.get("_unbound"):
        return {"unbound": 1}
    if fn == "car":
        return {"operator": str(a.get("operator"))}
    if fn == "kfilt":
        bk = a.get("butter_kwargs")
        bk = DEFAULT_BUTTER if bk is None else bk
        return {"butter": _sjson(lambda: bk), "lagc": _sint(lambda: a["lagc"] or 0),
                "ntr_pad": _sint(lambda: a["ntr_pad"]), "ntr_tap": -1 if a.get("ntr_tap") is None else _sint(lambda: a["ntr_tap"])}
    return {"vbounds": _sjson(lambda: list(a["vbounds"])) if a.get("vbounds") is not None else "none",
            "btype": str(a.get("btype")).lower(), "kfilt": _sjson(lambda: a["kfilt"]) if _truth(a.get("kfilt")) else "none",
            "lagc": _sint(lambda: round((a["lagc"] or 0) * 1e6)), "si": _sint(lambda: round(a["si"] * 1e6)),
            "dx": _sint(lambda: round(a["dx"] * 1000)),
            "ntr_pad": _sint(lambda: a["ntr_pad"]), "ntr_tap": -1 if a.get("ntr_tap") is None else _sint(lambda: a["ntr_tap"])}


def _truth(v):
    try:
        return bool(v)
    except Exception:  # noqa   (an array where a dictionary or None belongs)
        return True


def _as_real(v, shape):
    """what the library returned where the property promises a real array of `shape`, observed defensively:
    (float64 array, "") or (None, why). A list / an array of another real element type with the right values is the right value;
    None, another shape, one more dimension, strings / objects, complex numbers with an imaginary part are not."""
    try:
        a = np.asarray(v)
        if a.shape != tuple(shape):
            return None, f"returned {type(v).__name__} of shape {a.shape} where {tuple(shape)} is promised"
        if a.dtype.kind == "c":
            if np.any(a.imag != 0):
                return None, "returned complex values"
            a = a.real
        if a.dtype.kind not in "fiub":
            return None, f"returned element type {a.dtype}"
        return np.asarray(a, dtype=np.float64), ""
    except Exception as ex:  # noqa
        return None, f"returned {type(v).__name__} that is no array ({type(ex).__name__}: {ex})"


def _even_fft(nsx, nsw):
    """fourier.convolve pads to a 2^a 3^b size; odd sizes (3^b) are the subject of another property (C18)"""
    from ibldsp.fourier import ns_optim_fft
    return int(ns_optim_fft(nsx + nsw)) % 2 == 0


BUTTERS = [None, {"N": 3, "Wn": 0.01, "btype": "highpass"}, {"N": 2, "Wn": 0.2, "btype": "highpass"},
           {"N": 3, "Wn": 0.15, "btype": "lowpass"}, {"N": 2, "Wn": [0.05, 0.3], "btype": "bandpass"}]


def tree_settings(rng, fn):
    if fn == "car":
        return {"operator": rng.choice(["median", "average"])}
    if fn == "kfilt":
        return {"lagc": rng.choice([None, 0, 300, 3000, 100]), "butter_kwargs": copy.deepcopy(rng.choice(BUTTERS)),
                "ntr_pad": rng.choice([0, 10]), "ntr_tap": rng.choice([None, 0, 5])}
    return {"si": 0.002, "dx": rng.choice([1, 5]), "vbounds": [1200, 1500], "btype": rng.choice(["highpass", "lowpass"]),
            "kfilt": rng.choice([None, {"bounds": [0, 0.01], "btype": "hp"}]), "lagc": rng.choice([None, 0.05, 0.026]),
            "ntr_pad": rng.choice([0, 4]), "ntr_tap": rng.choice([None, 6])}


# how a caller may hand the same situation over (all inside the property's "channel groupings" / inputs): values of the group
# vector, element type and memory layout of the data, what the process did before
TREE_IDS = ("plain", "sparse", "float", "str", "list", "i1")
TREE_LAYOUTS = ("C", "F", "view", "ro")


def tree_opts(rng, fn, grouping):
    """the dimensions of a call-tree experiment beyond (function, settings, grouping): see calltree_experiment"""
    return {"ids": rng.choice(TREE_IDS) if grouping else "plain", "dtype": rng.choice(["f8", "f8", "f4", "i2"]),
            "layout": rng.choice(TREE_LAYOUTS), "first": rng.choice(["groups", "alone"]), "prior": rng.random() < 0.5,
            "sizes": rng.choice(["seed", "tiny"]) if fn == "car" else "seed"}


def _group_vector(colabs, ids):
    """the abstract group ids 0, 1, 2, ... as a caller may spell them"""
    if colabs is None:
        return None
    if ids == "sparse":         # neither contiguous nor in the order of first appearance, with a negative one
        return np.array([7, -2, 30, 11, -9, 4, 5, 19])[colabs]
    if ids == "float":          # e.g. h["shank"] of a geometry read from a meta file
        return colabs.astype(float) + 0.5
    if ids == "str":
        return np.array([f"shank{g}" for g in colabs])
    if ids == "list":
        return [int(g) for g in colabs]
    if ids == "i1":
        return colabs.astype(np.int8)
    return colabs


def _lay(x, layout):
    """the same values in another memory layout (x itself is left alone)"""
    if layout == "F":
        return np.asfortranarray(x)
    if layout == "view":        # every other row and sample of a larger array
        big = np.zeros((2 * x.shape[0], 2 * x.shape[1]), dtype=x.dtype)
        big[::2, ::2] = x
        big[1::2] = 1e3
        return big[::2, ::2]
    y = x.copy()
    if layout == "ro":
        y.setflags(write=False)
    return y


def calltree_experiment(fn, settings, grouping, seed, opts=None):
    """fn(x, collection=..., **settings) on the real code, wrapped; grouping: group id per block of rows.
    opts (all optional): ids - spelling of the group vector; dtype f8 / f4; layout of x (C / F / strided view / read-only);
    first - whether the call with groups or the calls on each group alone come first in the process; prior - a call with
    other settings (sharing the settings containers) precedes everything; sizes 'tiny' - groups of 1, 2, 3 rows (car)"""
    import ibldsp.voltage as V
    opts = dict(opts or {})
    rng = np.random.default_rng(seed)
    # rows per block: all 20 (even groups), all odd, or unequal sizes of both parities (a median over an odd / even number of
    # channels, groups of different sizes)
    nblk = max(len(grouping), 3)
    mode = seed % 4
    lo = 5 if fn == "car" else 19            # the spatial Butterworth filters need more rows than their edge padding (<= 15)
    sizes = ([20] * nblk if mode == 0 else [19] * nblk if mode == 1 else [int(v) for v in rng.integers(lo, lo + 9, nblk)] if mode == 2
             else [int(v) for v in 2 * rng.integers(lo // 2, lo // 2 + 5, nblk) + 1])
    if opts.get("sizes") == "tiny" and fn == "car":
        sizes = [int(v) for v in rng.choice([1, 1, 2, 3, 4, 20], nblk)]
    colabs = np.repeat(np.array(grouping), sizes) if grouping else None
    col = _group_vector(colabs, opts.get("ids", "plain"))
    nc = int(sum(sizes))
    ns = 1024 if fn != "fk" else 256
    if fn == "kfilt" and settings["lagc"]:
        while not _even_fft(ns, int(round(settings["lagc"] / 2) * 2 + 1)):
            ns += 64
    x = rng.standard_normal((nc, ns)) * rng.uniform(0.5, 20) + rng.standard_normal((1, ns)) * 5 + rng.uniform(-3, 3)
    x += np.cumsum(rng.standard_normal((nc, 1)), axis=0)
    f4 = opts.get("dtype") == "f4"
    if f4:
        x = x.astype(np.float32)
    if opts.get("dtype") == "i2":
        x = np.round(x * 40).astype(np.int16)            # raw ADC counts handed over as they come from the file
    layout = opts.get("layout", "C")
    if layout == "ro" and fn != "car" and not grouping:
        layout = "C"                          # without groups the gain control of kfilt / fk works in place on its argument
    rec = {"kind": "calltree", "fn": fn, "seed": seed, "grouping": list(grouping), "concrete": _jsonable(settings), "opts": opts,
           "collection": [int(c) for c in colabs] if colabs is not None else [], "children": [], "zero": "na", "alone": "ok",
           "settings": {}, "exc": ""}
    kw = dict(settings)                       # the containers inside (butter_kwargs, kfilt, vbounds) are shared by every call below
    r = None

    def alone_calls():
        res = {}
        for g in (sorted(set(grouping)) if grouping else [None]):
            sel = np.arange(nc) if g is None else np.where(colabs == g)[0]
            # each group on its own with the same settings; the padding of the recursion is not fixed by the property
            cands = [kw]
            if fn in ("kfilt", "fk"):
                cands.append(dict(kw, ntr_pad=0, ntr_tap=None))
            res[g] = (sel, [getattr(V, fn)(x[sel].copy(), **kk) for kk in cands])
        return res

    try:
        if opts.get("prior"):
            # the process has filtered another record before, with other settings (and failed once on a malformed one)
            other = tree_settings(random.Random(seed), fn)
            for k in ("butter_kwargs", "kfilt", "vbounds"):
                if k in other and other[k] is not None and kw.get(k) is not None and seed % 3 == 0:
                    other[k] = kw[k]          # the very same container
            try:
                # ... whose groups carry the same names on other rows
                colp = None if col is None else col[::-1] if isinstance(col, list) else np.ascontiguousarray(col[::-1])
                getattr(V, fn)(_lay(x[:, : ns // 2] * 3.0 + 1.0, "C"), collection=colp, **other)
                getattr(V, fn)(x[0].copy(), collection=col, **kw)       # a 1-d record: declined with an exception
            except Exception:  # noqa
                pass
        alone = alone_calls() if opts.get("first") == "alone" else None
        xin = _lay(x, layout)
        with Recorder() as r:
            out = getattr(V, fn)(xin, collection=col, **kw)
        ev = r.events
        if alone is None:
            alone = alone_calls()
    except Exception as ex:  # noqa
        rec["exc"] = f"{type(ex).__name__}: {ex}"
        rec["alone"] = "bad"
        top = [e for e in (r.events if r is not None else []) if e["parent"] == -1 and e["name"] == fn]
        rec["settings"] = _abs_settings(fn, top[0]["args"]) if top else _abs_settings(fn, _effective(V, fn, kw))
        return rec
    top = [e for e in ev if e["parent"] == -1 and e["name"] == fn][0]
    rec["settings"] = _abs_settings(fn, top["args"])
    for e in ev:
        if e["parent"] == top["id"] and e["name"] == fn:
            rec["children"].append({"settings": _abs_settings(fn, e["args"]), "rows": _rows_in(top.get("xrows", []), e.get("xrows", [])),
                                    "collection_none": e["args"].get("collection") is None})
    scale = float(np.max(np.abs(x)))
    # single precision in: results are compared to single-precision rounding (the group call stores into an array of the input's type)
    rtol, atol, ztol = (1e-4, 1e-5 * scale, 1e-5 * scale) if f4 else (1e-7, 1e-9 * scale, 1e-9 * scale)
    # the returned values are observed defensively (_as_real): None, a list of lists, another shape / element type where the
    # filtered array is promised is the negative observation of EqualsAlone, not a failure of this harness
    out, why = _as_real(out, x.shape)
    ok_alone = out is not None
    if not ok_alone:
        rec["exc"] = f"{fn} with groups {why}"
    ok_zero = True
    for g, (sel, res) in alone.items():
        if out is None:
            break
        res = [_as_real(a, out[sel].shape)[0] for a in res]
        ok_alone = ok_alone and any(a is not None and np.allclose(out[sel], a, rtol=rtol, atol=atol) for a in res)
        if fn == "car":
            o = out[sel]
            ref = np.median(o, axis=0) if kw["operator"] == "median" else np.mean(o, axis=0)
            ok_zero = ok_zero and bool(np.max(np.abs(ref)) <= ztol)
    rec["alone"] = "ok" if ok_alone else "bad"
    if fn == "car":
        rec["zero"] = "ok" if ok_zero else "bad"
    return rec


def _effective(V, fn, kw):
    """default-applied arguments of fn(x, **kw) without calling it"""
    try:
        b = inspect.signature(getattr(V, fn)).bind(None, **kw)
        b.apply_defaults()
        return dict(b.arguments)
    except TypeError:
        return {"_unbound": True}


def agc_opts(rng):
    """dimensions of a gain-control experiment beyond (channels, samples, window, dead channels, element type)"""
    return {"eps": rng.choice([None, None, 1e-3, 1e-12, 1e-5]), "layout": rng.choice(["C", "F", "view"]), "dc": rng.random() < 0.5,
            "gaps": rng.random() < 0.5, "twice": rng.random() < 0.5}


def agc_experiment(nc, ns, wl, si, ndead, seed, f32, opts=None):
    """opts (optional): eps - whitening other than the default; layout of x; dc - channels riding on a (negative) offset;
    gaps - stretches of exact zeros longer than the window (muted saturations); twice - the returned data goes through agc again"""
    import ibldsp.voltage as V
    opts = dict(opts or {})
    rng = np.random.default_rng(seed)
    x = rng.standard_normal((nc, ns)) * np.exp(rng.uniform(-8, 3, size=(nc, 1)))
    x[:, : ns // 3] *= 30
    dead = rng.choice(nc, ndead, replace=False) if ndead else []
    x[dead] = 0
    # live channels whose samples sum to exactly zero (integer ADC counts of a balanced biphasic artefact, a square wave):
    # "flat" is a statement about the magnitude of a channel, not about its sum
    live = [c for c in range(nc) if c not in set(np.atleast_1d(dead).tolist())]
    if live and seed % 2 == 0:
        c = live[seed % len(live)]
        half = np.round(rng.standard_normal(ns // 2) * 50)
        x[c] = 0
        x[c, : ns // 2] = half
        x[c, ns // 2: 2 * (ns // 2)] = -half[::-1]
        if len(live) > 1:
            c2 = live[(seed // 2) % len(live)]
            if c2 != c:
                x[c2] = np.where(np.arange(ns) % 2 == 0, 7.0, -7.0) * (1 if ns % 2 == 0 else 0) + (0 if ns % 2 == 0 else x[c2])
    if opts.get("dc") and live:
        rows = live[:: 2]
        x[rows] += -np.abs(x[rows]).max(axis=1, keepdims=True) * rng.uniform(0.5, 40, size=(len(rows), 1))
    if opts.get("gaps") and live:
        nwin = int(round(wl / si / 2) * 2 + 1)
        for c in live[1:: 2] or live[:1]:
            a0 = int(rng.integers(0, max(1, ns // 2)))
            x[c, a0: a0 + min(ns // 2, nwin + int(rng.integers(1, 50)))] = 0
    if f32:
        x = x.astype(np.float32)
    x = _lay(x, opts.get("layout", "C"))
    keep = x.copy()
    rec = {"kind": "agc", "nc": nc, "ns": ns, "wl": wl, "si": si, "ndead": ndead, "seed": seed, "f32": f32, "opts": opts,
           "product": "bad", "shape_ok": False}
    kw = {} if opts.get("eps") is None else {"epsilon": opts["eps"]}

    def err_of(out, gain, want):
        return np.max(np.abs(np.asarray(out, dtype=np.float64) * gain - want) / (np.abs(want) + 1e-30 + 1e-9 * np.max(np.abs(want), axis=1, keepdims=True)))

    try:
        out, gain = V.agc(x, wl=wl, si=si, **kw)
        rec["shape_ok"] = bool(np.shape(out) == keep.shape and np.shape(gain) == keep.shape)
        err = err_of(out, gain, keep) if rec["shape_ok"] else np.inf
        if rec["shape_ok"] and opts.get("twice"):
            # the caller goes on with what it was given back: once more through the gain control
            keep2 = np.array(out, copy=True)
            out2, gain2 = V.agc(out, wl=wl, si=si, **kw)
            rec["shape_ok"] = bool(np.shape(out2) == keep.shape and np.shape(gain2) == keep.shape)
            err = max(err, err_of(out2, gain2, keep2)) if rec["shape_ok"] else np.inf
    except Exception as ex:  # noqa
        rec["exc"] = type(ex).__name__
        return rec
    if rec["shape_ok"]:
        rec["product"] = "ok" if err <= (1e-4 if f32 else 1e-6) else "bad"
    return rec


# ----------------------------------------------------------------------------------------------
# destripe experiments
# ----------------------------------------------------------------------------------------------

def _header(gen):
    import neuropixel
    return {"NP1": lambda: neuropixel.trace_header(version=1), "NP2": lambda: neuropixel.trace_header(version=2),
            "NP2.4": lambda: neuropixel.trace_header(version=2, nshank=4),
            "NPultra": lambda: neuropixel.trace_header(version="NPultra")}[gen]()


def _skew(gen):
    t = _ADC[GENKEY[gen]]
    return np.array(t["tick"], dtype=float) / t["cycles"], t["cycles"]


def _ticks(s, cycles):
    """a vector of delays in samples, as the library holds / hands it -> (delays in ticks, integer numerators for TLC, whether all
    are whole ticks). An entry that is no finite real number of moderate size (NaN, inf, None, a complex number) reads NOT_A_SHIFT and
    the vector is not exact; a value that is no vector of numbers at all reads as the empty vector"""
    try:
        s = np.atleast_1d(np.asarray(s)).ravel()
        if s.dtype.kind == "c":
            s = np.where(s.imag == 0, s.real, np.nan)
        s = s.astype(float) * cycles
    except Exception:  # noqa
        return np.zeros(0), [], False
    ok = np.isfinite(s) & (np.abs(s) < 1e9)
    r = np.round(np.where(ok, s, 0.0))
    shift = [int(v) if g else NOT_A_SHIFT for v, g in zip(r, ok)]
    return s, shift, bool(np.all(ok)) and bool(np.all(np.abs(np.where(ok, s, 0.0) - r) < 1e-9))


def _pipeline_events(events, cycles):
    """recorded calls of a destripe run -> stage events + the shift vector"""
    out, shift, exact = [], [], True
    top = [e for e in events if e["parent"] == -1]
    for e in top:
        a = e["args"]
        if e["name"] == "sosfiltfilt":
            out.append(["hp", _sint(lambda: a.get("axis", -1))])
        elif e["name"] == "fshift":
            s, shift, exact = _ticks(a.get("s"), cycles)
            exact = exact and _sint(lambda: a["axis"]) in (1, -1)
            out.append(["realign", _sint(lambda: a["axis"])])
        elif e["name"] == "interpolate_bad_channels":
            out.append(["interp", 0])
        elif e["name"] in ("car", "kfilt", "fk"):
            out.append(["spatial", e["name"], _sint(lambda: np.shape(a.get("x"))[0])])
    return out, shift, exact


BY_VERSION = {"NP1": [1, 1.0], "NP2": [2, 2.4, 2.1], "NPultra": ["NPultra"]}


def _lfp_butter(fs):
    return {"N": 3, "Wn": [0.5, 300], "btype": "bandpass", "fs": fs}


def _spatial_kwargs(sc, h):
    """k_kwargs of the call: None (the defaults of destripe) or a dictionary the caller built
    'explicit' - the documented defaults spelled out; 'average' - mean instead of median referencing; 'groups' - the
    spatial filter run per channel group (the shanks of a 4-shank probe, else three unequal stretches of the probe)"""
    mode = sc.get("spatial", "default")
    if mode == "default":
        return None
    fs = 30000 if sc["stream"] == "ap" else 2500
    kw = {"ntr_pad": 60, "ntr_tap": 0, "lagc": None if fs < 3000 else int(fs / 10), "butter_kwargs": {"N": 3, "Wn": 0.01, "btype": "highpass"}}
    if mode == "average":
        return {"operator": "average"} if sc["seed"] % 2 else dict(kw, operator="average")
    if mode == "groups":
        shank = np.asarray(h["shank"])
        col = shank if len(np.unique(shank)) > 1 else np.repeat([4.0, 1.0, 2.0], [101, 150, 133])
        kw = dict(kw, collection=col)
        if sc["variant"] == "car" and sc["seed"] % 2:
            kw["operator"] = "average"
    return kw


class CallerSettingsChanged(Exception):
    """the call changed the settings dictionary of its caller: the next call with 'the same settings' is another one"""


def _same_settings(a, b):
    if isinstance(a, dict) or isinstance(b, dict):
        return isinstance(a, dict) and isinstance(b, dict) and set(a) == set(b) and all(_same_settings(a[k], b[k]) for k in a)
    if isinstance(a, np.ndarray) or isinstance(b, np.ndarray):
        return np.shape(a) == np.shape(b) and bool(np.all(np.asarray(a) == np.asarray(b)))
    return a == b


def _call_destripe(x, sc, h, labels, kw=None):
    if kw is None:
        return _call_destripe_(x, sc, h, labels, kw)
    before = copy.deepcopy(kw)
    out = _call_destripe_(x, sc, h, labels, kw)
    if not _same_settings(before, kw):
        gone = sorted(set(before) - set(kw)) if isinstance(kw, dict) else []
        raise CallerSettingsChanged(f"k_kwargs changed by destripe(k_filter={sc['variant'] == 'kfilt'}): keys removed {gone}")
    return out


def _call_destripe_(x, sc, h, labels, kw=None):
    import ibldsp.voltage as V
    kf = sc["variant"] == "kfilt"
    extra = {} if kw is None else {"k_kwargs": kw}
    if sc["stream"] == "ap":
        if sc.get("by_version") and sc["gen"] in ("NP1", "NP2", "NPultra"):
            vs = BY_VERSION[sc["gen"]]
            return V.destripe(x, 30000, neuropixel_version=vs[sc["seed"] % len(vs)], channel_labels=labels, k_filter=kf, **extra)
        return V.destripe(x, 30000, h=h, channel_labels=labels, k_filter=kf, **extra)
    if kw is not None:      # destripe_lfp has no k_kwargs: its body, spelled out
        return V.destripe(x, 2500, h=h, butter_kwargs=_lfp_butter(2500), k_filter=kf, channel_labels=labels, k_kwargs=kw)
    return V.destripe_lfp(x, 2500, h=h, channel_labels=labels, k_filter=kf)


def _butter_sos(stream):
    import scipy.signal
    if stream == "ap":
        return scipy.signal.butter(N=3, Wn=300 / 30000 * 2, btype="highpass", output="sos")
    return scipy.signal.butter(N=3, Wn=[0.5, 300], btype="bandpass", fs=2500, output="sos")


LABEL_KINDS = ("none", "good", "outside", "bad", "mixed")
LABEL_KINDS_MORE = ("false", "outside_mid", "outside_head", "mixed_mid", "bad_clusters")


def _labels_for(sc, rng):
    """realistic label vectors: none / all good / a stretch outside the brain (at the tip end; or, for the kinds *_mid / *_head,
    in the middle or at the other end: the property says 'channels labelled outside the brain', not where they are) / + isolated
    dead and noisy; 'false' is the documented way of saying 'no labels'"""
    kind = sc["labels"]
    if kind == "none":
        return None
    if kind == "false":
        return False
    lab = np.zeros(NC, dtype=int)
    if kind in ("outside", "mixed"):
        lab[NC - rng.integers(8, 120):] = 3
    if kind in ("outside_mid", "mixed_mid"):
        a0 = int(rng.integers(20, 200))
        lab[a0: a0 + int(rng.integers(8, 120))] = 3
        if rng.random() < 0.5:
            lab[NC - int(rng.integers(1, 30)):] = 3
    if kind == "outside_head":
        lab[: int(rng.integers(8, 120))] = 3
    if kind == "bad_clusters":
        # runs of one to three adjacent dead / noisy channels, also at both ends of the probe (the repair of one must not lean
        # on another bad one)
        for c0 in [0, NC - int(rng.integers(1, 4))] + [int(v) for v in rng.choice(np.arange(8, NC - 8, 8), int(rng.integers(2, 9)), replace=False)]:
            n = int(rng.integers(1, 4))
            lab[c0: c0 + n] = rng.choice([1, 2], size=len(lab[c0: c0 + n]))
    if kind in ("bad", "mixed", "mixed_mid"):
        cand = np.arange(2, NC - 2, 3)          # isolated: every bad channel keeps good neighbours
        bad = rng.choice(cand, rng.integers(2, 14), replace=False)
        lab[bad] = np.where(lab[bad] == 3, 3, rng.choice([1, 2], size=bad.size))
    ldt = sc.get("lab_dtype", "int")
    return lab.astype({"int": int, "float": float, "i1": np.int8, "u1": np.uint8}[ldt])


def _pipe_len(sc):
    fs = 30000 if sc["stream"] == "ap" else 2500
    ns = int(sc.get("ns", 4096))
    while sc["stream"] == "ap" and sc["variant"] == "kfilt" and not _even_fft(ns, int(round(fs / 10 / 2) * 2 + 1)):
        ns += 128
    return ns


def _prior_calls(sc, shared):
    """what the process did before the call under test: destripe calls with other arguments (another generation / filter / stream
    / labels), one of them on malformed input, on the objects a caller naturally keeps (per-generation header, label vector,
    settings dictionary).  Their own results are judged where they are the call under test."""
    for k, p in enumerate(sc.get("prior") or []):
        rng = np.random.default_rng(p["seed"])
        ns = _pipe_len(dict(p, ns=1024))
        h = shared["h"].setdefault(p["gen"], _header(p["gen"]))
        if p.get("own_objects"):
            labels, kw = _labels_for(p, rng), _spatial_kwargs(p, h)
        else:
            labels, kw = shared["labels"], shared["kw"]
            if kw is not None and "collection" in kw and isinstance(labels, np.ndarray):
                kw = None
        x = rng.standard_normal((NC, ns)) * 1e-5 + rng.standard_normal((1, ns)) * 1e-4
        if p.get("malformed"):
            x = x[: NC - 7]                   # a record with fewer channels than the header: declined with an exception
        try:
            _call_destripe(x, p, h, labels, kw)
        except Exception:  # noqa
            pass


def _pipe_rec(sc, nlabels=0, ninside=NC, exc=""):
    """the record of a pipeline experiment before anything was observed: no event, nothing removed, nothing kept"""
    return {"kind": "pipeline", "gen": GENKEY[sc["gen"]], "probe": sc["gen"], "scenario": sc, "events": [], "shift": [], "exact": False,
            "nlabels": nlabels, "ninside": ninside,
            "removed": "bad", "kept": "bad", "zero": "na", "att_db": None, "kept_min": None, "exc": exc, "unbound": False}


def pipeline_experiment(sc):
    """one scenario (generation x variant x stream x label class x seed) on the real destripe.
    optional keys: ns (record length), dtype f8 / f4, layout of x (C / F / strided view / read-only), lab_dtype, spatial
    (default / explicit / average / groups: the k_kwargs argument), bad_data (dead channels flat, noisy channels noisy), spike_off
    (first spike centre; one every 16 channels from there), amp_scale (volts / counts / nanovolts), spikes_first (the run with spikes precedes the run that
    is measured for removal), prior (earlier calls of the same process, see _prior_calls)"""
    import scipy.signal
    from ibldsp import utils
    rng = np.random.default_rng(sc["seed"])
    gen, stream = sc["gen"], sc["stream"]
    ns = _pipe_len(sc)
    skew, cycles = _skew(gen)
    shared = {"h": {}}
    try:
        # the header is the library's too (neuropixel.trace_header): one that cannot be had, or whose 'shank' column cannot spell
        # the channel groups of the call, is an observation (no run, no re-alignment seen), not a failure of this harness
        h = shared["h"].setdefault(gen, _header(gen))
        kwg = _spatial_kwargs(sc, h)
        if kwg is not None and "collection" in kwg and np.shape(kwg["collection"]) != (NC,):
            raise ValueError(f"channel groups of shape {np.shape(kwg['collection'])} from the header")
    except Exception as ex:  # noqa
        return _pipe_rec(sc, exc=f"trace_header: {type(ex).__name__}: {ex}")
    labels = _labels_for(sc, rng)
    haslab = isinstance(labels, np.ndarray)
    t = np.arange(ns, dtype=float)
    nf = int(rng.integers(3, 8))
    f = (rng.uniform(400, 9000, nf) / 30000) if stream == "ap" else (rng.uniform(3, 250, nf) / 2500)
    a = rng.uniform(0.2, 1, nf)
    p = rng.uniform(0, 2 * np.pi, nf)
    amp = float(np.exp(rng.uniform(np.log(1e-5), np.log(2e-3)))) * float(sc.get("amp_scale", 1.0))     # volts; counts; nanovolts
    c0, w0 = ns * rng.uniform(0.4, 0.6), ns / rng.uniform(9, 12)

    def stripe(tt):     # continuous, band-limited, vanishing at both ends
        return amp * np.sum(a[:, None] * np.sin(2 * np.pi * f[:, None] * tt[None, :] + p[:, None]), axis=0) * np.exp(-0.5 * ((tt - c0) / w0) ** 2)

    # every channel samples the same physical signal at its own tick of the wiring table of the specification
    x = np.stack([stripe(t + skew[c]) for c in range(NC)])
    sg1, sg2, dly = rng.uniform(3, 5), rng.uniform(6, 9), rng.uniform(7, 11)

    def spike(tt):
        return -np.exp(-0.5 * (tt / sg1) ** 2) + 0.5 * np.exp(-0.5 * ((tt - dly) / sg2) ** 2)

    spk = np.zeros((NC, ns))
    cents = []
    # k-filter with channel groups: the recursion of kfilt filters each group without the mirrored padding of the whole-probe
    # call (ntr_pad=0, hard-wired), so that a spike on the first / last rows of a group sits on the edge of a long spatial
    # high-pass; those depths are left out of the Kept measurement of this mode only (reported, DESIGN 9.7)
    edge = None
    if sc["variant"] == "kfilt" and kwg is not None and "collection" in kwg and not haslab:
        col = np.asarray(kwg["collection"])
        edge = np.zeros(NC, dtype=bool)
        for g in np.unique(col):
            rows = np.where(col == g)[0]
            edge[rows[:8]] = edge[rows[-8:]] = True
    samp = amp * rng.uniform(0.3, 3)
    for k, ch in enumerate(range(int(sc.get("spike_off", 1)), NC - 1, 16)):        # "at every depth": offsets 1 .. 16 reach both ends
        t0 = 300 + k * ((ns - 600) // 24)
        if haslab and np.any(labels[ch - 1:ch + 2] != 0):
            continue
        if edge is not None and edge[ch]:
            continue
        for dc, am in ((-1, 0.5), (0, 1.0), (1, 0.5)):
            spk[ch + dc] += samp * am * spike(t + skew[ch + dc] - t0)
        cents.append((ch, t0))
    rec = _pipe_rec(sc, nlabels=NC if haslab else 0, ninside=int(np.sum(labels != 3)) if haslab else NC)
    dt = np.float32 if sc.get("dtype") == "f4" else np.float64
    layout = sc.get("layout", "C")
    x, xs = x.astype(dt), (x + spk).astype(dt)                      # what the caller holds (the references below start from it)
    spk = xs.astype(np.float64) - x.astype(np.float64)
    xclean = x
    if sc.get("bad_data") and haslab and np.any((labels == 1) | (labels == 2)):
        # the labels mean something: dead channels are flat, noisy channels carry noise far above everything else (the
        # reference of the 40 dB stays the disturbance alone)
        x, xs = x.copy(), xs.copy()
        for arr in (x, xs):
            arr[labels == 1] = 0
            if np.dtype(dt).kind == "f" and sc["seed"] % 2:
                # ... or whatever a dead channel's converter puts out: not-a-number, infinities (seed round i: 0 x NaN in the
                # interpolation). What a channel labelled bad holds is never read, only replaced.
                arr[labels == 1, (sc["seed"] % 5)::53] = [np.nan, np.inf, -np.inf][sc["seed"] % 3]
            arr[labels == 2] += (rng.standard_normal((int(np.sum(labels == 2)), ns)) * amp * 30).astype(dt)
    kw = _spatial_kwargs(sc, h)
    if kw is not None and "collection" in kw and haslab:
        kw = {k: v for k, v in kw.items() if k != "collection"}    # groups are rows of the array the spatial filter is given
    shared.update(labels=labels, kw=kw)
    kw0 = copy.deepcopy(kw) or {}
    pristine = None if not haslab else labels.copy()
    try:
        with warnings.catch_warnings():
            warnings.simplefilter("ignore")
            _prior_calls(sc, shared)
            # the header, the label vector and the settings dictionary are the same objects in every call of this process
            if sc.get("spikes_first"):
                y2 = _call_destripe(_lay(xs, layout), sc, h, labels, kw)
            with Recorder() as r:
                y = _call_destripe(_lay(x, layout), sc, h, labels, kw)
            rec["events"], rec["shift"], rec["exact"] = _pipeline_events(r.events, cycles)
            # the re-alignment did not go through fourier.fshift (inlined, another helper): the mechanism cannot be observed on
            # this code (drift); Removed, measured on the output, still decides whether the delays were honoured (DESIGN 9.6)
            rec["unbound"] = not any(e[0] == "realign" for e in rec["events"])
            if not sc.get("spikes_first"):
                y2 = _call_destripe(_lay(xs, layout), sc, h, labels, kw)
    except Exception as ex:  # noqa
        rec["exc"] = f"{type(ex).__name__}: {ex}"
        return rec
    sos = _butter_sos(stream)
    ins = np.arange(NC) if not haslab else np.where(pristine != 3)[0]
    sl = slice(ns // 8, ns - ns // 8)
    ref = scipy.signal.sosfiltfilt(sos, xclean.astype(np.float64))
    # what came back is observed defensively (_as_real): None, a list of another shape, one more dimension, strings / objects,
    # complex values where the destriped array is promised leave Removed / Kept at their negative observation
    ydt = getattr(y, "dtype", np.dtype(np.float64))
    (y, why), (y2, why2) = _as_real(y, x.shape), _as_real(y2, x.shape)
    if y is None or y2 is None:
        rec["exc"] = f"destripe {why or why2}"
        return rec
    att = 20 * np.log10(max(float(utils.rms(y[ins][:, sl].ravel())), 1e-300) / float(utils.rms(ref[ins][:, sl].ravel())))
    rec["att_db"] = round(att, 1)
    rec["removed"] = "ok" if att <= -40 else "bad"
    if sc["variant"] == "car":
        # referencing through destripe: zero median (or mean, as requested) at every sample within each channel group
        col = kw0.get("collection")
        rows = [ins] if col is None else [np.where(np.asarray(col) == g)[0] for g in np.unique(col)]
        fn = np.mean if kw0.get("operator", "median") == "average" else np.median
        worst = max(float(np.max(np.abs(fn(y[g], axis=0)))) for g in rows)
        ztol = 1e-9 if ydt == np.float64 else 1e-5          # rounding of the type the result comes in
        rec["zero"] = "ok" if worst <= ztol * float(np.max(np.abs(ref))) else "bad"
    refs = scipy.signal.sosfiltfilt(sos, spk)
    kept = [float(np.ptp(y2[ch, t0 - 40:t0 + 60]) / np.ptp(refs[ch, t0 - 40:t0 + 60])) for ch, t0 in cents]
    rec["kept_min"] = round(min(kept), 3) if kept else None
    rec["kept"] = "na" if not kept else ("ok" if min(kept) >= 0.9 else "bad")
    return rec


def flow_experiment(sc):
    """block label vector from TLC's enumeration; perturb one block of the input, see which output blocks move"""
    import scipy.signal
    rng = np.random.default_rng(sc["seed"])
    gen = sc["gen"]
    _, cycles = _skew(gen)
    lab6 = sc["labels6"]
    labels = np.repeat(np.array(lab6), BLK).astype({"int": int, "float": float, "i1": np.int8}[sc.get("lab_dtype", "int")])
    # the header and the label vector are the same objects in every call below (a caller computes them once per recording)
    ns = 2048
    x = rng.standard_normal((NC, ns)) * 1e-5 + rng.standard_normal((1, ns)) * 3e-5
    rec = {"kind": "flow", "gen": GENKEY[gen], "probe": gen, "scenario": sc, "labels": list(lab6), "perturb": [], "exc": ""}
    scd = dict(sc, stream="ap")

    def real(v):        # the destriped array, observed defensively (see _as_real)
        a, why = _as_real(v, x.shape)
        if a is None:
            raise ValueError(f"destripe {why}")
        return a

    try:
        with warnings.catch_warnings():
            warnings.simplefilter("ignore")
            h = _header(gen)
            y = real(_call_destripe(x.copy(), scd, h, labels))
            pre = scipy.signal.sosfiltfilt(_butter_sos("ap"), x)
            from ibldsp.fourier import fshift
            pre = fshift(pre, h["sample_shift"], axis=1)        # the unfiltered path of an outside channel
            for j in sc["perturb"]:
                xp = x.copy()
                rows = slice(j * BLK, (j + 1) * BLK)
                xp[rows] += rng.standard_normal((BLK, ns)) * 2e-5
                if lab6[j] in (1, 2):
                    # what a dead / noisy channel may hold (seed round i: weight 0 times NaN): its content is never read, only
                    # overwritten - the same perturbation as any other, and a result that is not a number has moved
                    xp[rows, (j % 7)::97] = [np.nan, np.inf, -np.inf][j % 3]
                yp = real(_call_destripe(xp.copy(), scd, h, labels))
                d = np.max(np.abs(yp - y).reshape(NB, BLK, ns), axis=(1, 2)) / 1e-5
                changed = [int(b) for b in range(NB) if not d[b] <= 1e-9]
                prep = fshift(scipy.signal.sosfiltfilt(_butter_sos("ap"), xp[rows]), h["sample_shift"][rows], axis=1)
                own = bool(np.allclose(yp[rows], prep, rtol=1e-9, atol=1e-16)) and bool(np.allclose(y[rows], pre[rows], rtol=1e-9, atol=1e-16))
                rec["perturb"].append({"j": int(j), "changed": changed, "own_unfiltered": own})
    except Exception as ex:  # noqa
        rec["exc"] = f"{type(ex).__name__}: {ex}"
        # the call raised (or returned no array): for the perturbations not answered, nothing shows that the outside block stayed
        # out of the others or came back as its own unfiltered input - the negative observation of NoLeak / OwnInputOnly
        done = {e["j"] for e in rec["perturb"]}
        rec["perturb"] += [{"j": int(j), "changed": [b for b in range(NB) if b != j], "own_unfiltered": False}
                           for j in sc["perturb"] if j not in done]
    return rec


def _overwrite(a):
    """the owner of a table handed out earlier changes it in place (sorting, unit conversion), whatever kind of container it is"""
    try:
        if isinstance(a, np.ndarray):
            a[...] = a[::-1].copy() + 1
        elif isinstance(a, list):
            a[:] = [v + 1 for v in a[::-1]]
    except Exception:  # noqa   (read-only, not numeric: then the owner cannot change it either)
        pass


def _adc_record(gen, version, nwant, get):
    """get() -> (sample_shift, adc) of the library, observed defensively. Whatever is no pair of vectors of `nwant` finite numbers -
    the call raised, returned None / one array / vectors of another length or dimension, NaN, complex delays, a header without
    the column - is the observation 'not a table of whole ticks' (exact false, the clause Aligned), with vectors TLC can read
    (nc = the entries that are there; adc padded / cut to nc)"""
    cyc = _ADC[gen]["cycles"]
    rec = {"kind": "adc", "gen": gen, "version": version, "nc": 0, "shift": [], "adc": [], "exact": False, "exc": ""}
    try:
        ss, adc = get()
        why = "" if np.ndim(ss) == 1 and np.ndim(adc) == 1 else f"delays / adc of shapes {np.shape(ss)}, {np.shape(adc)}"
        _, shift, exact = _ticks(ss, cyc)
        adc = [_sint(lambda: a) for a in np.asarray(adc).ravel()]
    except Exception as ex:  # noqa
        rec["exc"] = f"{type(ex).__name__}: {ex}"
        return rec
    if not why and (len(shift) != nwant or len(adc) != nwant):
        why = f"{len(shift)} delays, {len(adc)} adc numbers where {nwant} channels were asked for"
    rec.update(nc=len(shift), shift=shift, adc=(adc + [NOT_A_NUMBER] * len(shift))[:len(shift)], exact=bool(exact and not why), exc=why)
    return rec


def adc_records():
    import neuropixel
    recs = []
    for gen, v in (("NP1", 1), ("NP2", 2), ("NP2", 2.4), ("NP2", 2.1), ("NPultra", "NPultra")):
        for nc in (384, 385, 96, 13):
            def get():
                if nc in (384, 96):
                    # the owner of an earlier table changes it (sorting, unit conversion): the next table is a fresh one
                    for a in neuropixel.adc_shifts(version=v, nc=nc):
                        _overwrite(a)
                return neuropixel.adc_shifts(version=v, nc=nc)
            recs.append(_adc_record(gen, str(v), min(nc, 384), get))

        def get_header():
            kw = dict(version=v if v != 2.4 else 2, nshank=4 if v == 2.4 else 1)
            for a in neuropixel.trace_header(**kw).values():
                _overwrite(a)
            hs = neuropixel.trace_header(**kw)
            return hs["sample_shift"], hs["adc"]
        recs.append(_adc_record(gen, f"trace_header({v})", 384, get_header))
    return recs


# ----------------------------------------------------------------------------------------------

def _jsonable(o):
    return json.loads(json.dumps(o, default=lambda v: v.tolist() if hasattr(v, "tolist") else str(v)))


def nstates(t):
    return 3


KEYS = {"Aligned": "destripe:adc-realign", "EvenlySpaced": "destripe:adc-table", "Removed": "destripe:removed-40dB",
        "Kept": "destripe:kept-90pct", "NoLeak": "destripe:outside-excluded", "OwnInputOnly": "destripe:outside-excluded",
        "GroupsPartition": "groups:partition", "ZeroReference": "car:zero-reference", "AgcProduct": "agc:product"}


def _key(prop, t):
    head = prop.split(":")[0]
    if head == "LeafSettings":
        return f"groups:{t['fn']}-settings"
    if head == "EqualsAlone":
        return f"groups:{t['fn']}-equals-alone"
    k = KEYS.get(head, "destripe:" + head.lower())
    if head in ("Removed", "Kept") and t.get("scenario", {}).get("labels") in ("bad", "mixed", "mixed_mid", "bad_clusters"):
        k += ":repaired-channels"
    return k


def _describe(t):
    if t["kind"] == "calltree":
        kids = "; ".join(json.dumps(c["settings"], sort_keys=True) for c in t["children"][:1])
        return (f"{t['fn']}(x, collection={t['grouping']} by blocks of rows, {json.dumps(t['concrete'], sort_keys=True)}, {json.dumps(t.get('opts') or {}, sort_keys=True)}) "
                f"zero={t['zero']} equals-alone={t['alone']} caller={json.dumps(t['settings'], sort_keys=True)} "
                f"first child={kids} {t['exc']}")
    if t["kind"] == "pipeline":
        s = t["scenario"]
        more = {k: v for k, v in s.items() if k not in ("gen", "variant", "stream", "labels", "seed", "prior")}
        more["prior"] = [f"{q['gen']}/{q['variant']}/{q['stream']}/{q['labels']}" + ("/malformed" if q.get("malformed") else "") for q in s.get("prior") or []]
        return (f"{'destripe' if s['stream'] == 'ap' else 'destripe_lfp'} {t['probe']} {s['variant']} labels={s['labels']} "
                f"seed={s['seed']} {json.dumps(more, sort_keys=True)}: attenuation {t['att_db']} dB, min spike kept {t['kept_min']} {t['exc']}")
    if t["kind"] == "flow":
        return f"destripe {t['probe']} {t['scenario']['variant']} block labels {t['labels']} perturbations {t['perturb']} {t['exc']}"
    if t["kind"] == "adc":
        return f"adc_shifts {t['version']} nc={t['nc']} {t.get('exc', '')}".rstrip()
    return f"agc nc={t['nc']} ns={t['ns']} wl={t['wl']} si={t['si']} dead={t['ndead']} f32={t['f32']} {json.dumps(t.get('opts') or {}, sort_keys=True)}"


def _scenario_of(t):
    if t["kind"] == "calltree":
        return {"kind": "calltree", "fn": t["fn"], "settings": t["concrete"], "grouping": t["grouping"], "seed": t["seed"], "opts": t.get("opts") or {}}
    if t["kind"] in ("pipeline", "flow"):
        return {"kind": t["kind"], "scenario": t["scenario"]}
    if t["kind"] == "agc":
        return {"kind": "agc", "args": [t["nc"], t["ns"], t["wl"], t["si"], t["ndead"], t["seed"], t["f32"], t.get("opts") or {}]}
    return {"kind": "adc"}


def _dispatch(job):
    kind, arg = job
    with warnings.catch_warnings():
        warnings.simplefilter("ignore")
        if kind == "calltree":
            return calltree_experiment(*arg)
        if kind == "pipeline":
            return pipeline_experiment(arg)
        if kind == "flow":
            return flow_experiment(arg)
        return agc_experiment(*arg)


def _strip(t):
    """what TLC needs (drop floats / free text)"""
    t = {k: v for k, v in t.items() if k not in ("scenario", "concrete", "att_db", "kept_min", "wl", "si", "seed", "exc", "grouping", "opts")}
    return t


def _validate(ctx, recs, label, jvms=3):
    return tracecheck.validate(ctx, "trace/DestripeTrace.tla", "trace/DestripeTrace.cfg", [_strip(t) for t in recs], label=label,
                               jvms=jvms, workers=2, nstates=nstates, timeout=1500)


def run_model(ctx):
    out = ctx.scratch / "destripe_cases.json"
    jobs = [("mc/DestripeFlow_quick.cfg", {"OUT_FILE": str(out)}), ("mc/DestripeTree_quick.cfg", {}), ("mc/DestripeTree_orig.cfg", {})]
    if not ctx.quick:
        jobs[1] = ("mc/DestripeTree_thorough.cfg", {})
        jobs.append(("mc/DestripeTree_groups4.cfg", {}))        # four group names on six channels
    with ThreadPoolExecutor(len(jobs)) as ex:
        res = list(ex.map(lambda j: tlc.run("mc/MC_Destripe.tla", j[0], workers=2, timeout=1800, env=j[1], coverage=not ctx.quick), jobs))
    for (cfg, _), r in zip(jobs, res):
        ctx.tlc(r, cfg)
        if cfg.endswith("_orig.cfg"):
            # the model of the tree before the fix: commits must violate the property layer (sanity of the invariant)
            if r.ok or r.invariant_violated != "LeafSettingsInv":
                raise tlc.TLCError(f"{cfg}: the pre-fix model is expected to violate LeafSettingsInv, TLC says {r.invariant_violated}")
            continue
        if not r.ok:
            raise tlc.TLCError(f"{cfg}: TLC reports {r.invariant_violated or 'an error'}\n{r.out[-2500:]}")
        if not ctx.quick:
            zero = [a for a in tlc.coverage_zero_actions(r.out) if not a.startswith("Init")]
            if zero:
                raise tlc.TLCError(f"{cfg}: actions never taken: {zero}")
    return json.loads(out.read_text())


def plan(ctx, cases):
    rng = random.Random(ctx.seed)
    jobs = []
    # call trees: every function x settings x groupings (TLC's box: groupings of 6 abstract channels onto <= 3 groups)
    groupings = [[0] * 6, [0, 0, 0, 1, 1, 1], [0, 1, 0, 1, 0, 1], [2, 2, 0, 0, 1, 1], [0, 1, 2, 0, 1, 2], [1, 0, 0, 0, 0, 2], []]
    ntree = 12 if ctx.quick else 80
    for fn in ("car", "kfilt", "fk"):
        for k in range(ntree):
            g = groupings[k % len(groupings)] if k < 2 * len(groupings) else [rng.randint(0, 2) for _ in range(6)]
            jobs.append(("calltree", (fn, tree_settings(rng, fn), g, rng.randint(0, 2 ** 31 - 1))))
    # every operator / lagc / btype at least once with groups
    for op in ("median", "average"):
        jobs.append(("calltree", ("car", {"operator": op}, [0, 1, 0, 1, 2, 2], rng.randint(0, 2 ** 31 - 1))))
    for lagc in (None, 300, 100):
        jobs.append(("calltree", ("kfilt", {"lagc": lagc, "butter_kwargs": None, "ntr_pad": 0, "ntr_tap": None}, [0, 0, 1, 1, 2, 2], rng.randint(0, 2 ** 31 - 1))))
    for bt in ("highpass", "lowpass"):
        for kfl in (None, {"bounds": [0, 0.01], "btype": "hp"}):
            jobs.append(("calltree", ("fk", {"si": 0.002, "dx": 5, "vbounds": [1200, 1500], "btype": bt, "kfilt": kfl, "lagc": 0.05,
                                             "ntr_pad": 0, "ntr_tap": None}, [0, 0, 0, 1, 1, 1], rng.randint(0, 2 ** 31 - 1))))
    # raw integer counts with channel groups: the group call must still equal each group on its own (and reference to zero)
    i2 = {"dtype": "i2", "ids": "plain", "layout": "C", "first": "groups", "prior": False, "sizes": "seed"}
    jobs.append(("calltree", ("car", {"operator": "average"}, [0, 1, 0, 1, 2, 2], rng.randint(0, 2 ** 31 - 1), dict(i2))))
    jobs.append(("calltree", ("car", {"operator": "median"}, [0, 0, 0, 1, 1, 1], 4 * rng.randint(0, 2 ** 28), dict(i2))))    # even groups
    jobs.append(("calltree", ("kfilt", {"lagc": None, "butter_kwargs": None, "ntr_pad": 0, "ntr_tap": None}, [0, 0, 1, 1, 2, 2],
                              rng.randint(0, 2 ** 31 - 1), dict(i2))))
    jobs.append(("calltree", ("fk", {"si": 0.002, "dx": 5, "vbounds": [1200, 1500], "btype": "highpass", "kfilt": None, "lagc": 0.05,
                                     "ntr_pad": 0, "ntr_tap": None}, [0, 0, 0, 1, 1, 1], rng.randint(0, 2 ** 31 - 1), dict(i2))))
    # AGC lengths
    nagc = 16 if ctx.quick else 120
    for k in range(nagc):
        nc, ns = rng.choice([1, 4, 32]), rng.choice([200, 777, 1500, 4096])
        wl, si = rng.choice([(0.5, 0.002), (300, 1.0), (0.25, 0.002), (0.01, 1 / 30000), (50, 1.0), (3000, 1.0)])
        if not _even_fft(ns, int(round(wl / si / 2) * 2 + 1)):
            ns += 64
        if not _even_fft(ns, int(round(wl / si / 2) * 2 + 1)):
            continue
        jobs.append(("agc", (nc, ns, wl, si, rng.choice([0, 0, 1]) if nc > 1 else 0, rng.randint(0, 2 ** 31 - 1), k % 4 == 3)))
    # pipelines: generation x variant x stream x label class
    combos = [(g, v, s, l) for g in ("NP1", "NP2", "NP2.4", "NPultra") for v in ("kfilt", "car") for s in ("ap", "lf")
              for l in ("none", "good", "outside", "bad", "mixed")]
    reps = 1 if ctx.quick else 4
    if ctx.quick:
        # every (generation, variant, stream) once, label classes rotating; plus every label class for NP1 and NPultra
        sel = [c for i, c in enumerate(c for c in combos) if (i % 5) == ((i // 5) % 5)]
        sel += [c for c in combos if c[0] in ("NP2.4", "NPultra") and c[2] == "ap" and c[3] in ("bad", "mixed") and c not in sel]
        combos = sel
    for g, v, s, l in combos:
        for _ in range(reps):
            jobs.append(("pipeline", {"gen": g, "variant": v, "stream": s, "labels": l, "seed": rng.randint(0, 2 ** 31 - 1),
                                      "by_version": rng.random() < 0.4}))
    # the same property on inputs / histories a caller may equally well have (DESIGN 9.7): other record lengths (odd, not a power
    # of two), single precision, other memory layouts, label vectors of other types with the outside stretch anywhere, the
    # k_kwargs argument (mean referencing, channel groups, the defaults spelled out), earlier calls in the same process on the
    # same header / labels / settings objects (one of them failing), the run with spikes before the run without
    nmore = 10 if ctx.quick else 120
    gens, lays, ldts = ("NP1", "NP2.4", "NP2", "NPultra"), ("F", "ro", "view", "C"), ("float", "i1", "u1", "int")
    for k in range(nmore):
        q = k if ctx.quick else rng.randint(0, 10 ** 6)
        g, v, st = gens[k % 4], ("car", "kfilt")[(k // 2) % 2], ("ap", "ap", "lf")[k % 3]
        spatial = ("average", "groups", "explicit", "default", "default")[q % 5]
        if spatial == "average":
            v = "car"
        lab = (("false", "good", "none")[(q // 5) % 3] if spatial == "groups"
               else ("mixed_mid", "bad", "outside_mid", "mixed", "outside_head", "false", "bad_clusters")[(q + q // 5) % 7])
        sc = {"gen": g, "variant": v, "stream": st, "labels": lab, "seed": rng.randint(0, 2 ** 31 - 1), "by_version": rng.random() < 0.3,
              "ns": (4097, 3001, 2500, 4096, 3500)[q % 5 if not ctx.quick else k % 4], "dtype": "f4" if q % 3 == 0 else "f8",
              "layout": lays[(q // 3) % 4], "lab_dtype": ldts[(q // 2) % 4], "spatial": spatial, "spikes_first": bool(q % 2),
              "bad_data": True, "spike_off": 1 + (q * 5) % 16, "amp_scale": (1.0, 1e4, 1e-3)[(q // 2) % 3]}
        if (q // 2) % 2 == 0:
            def other(**kw):
                return dict({"gen": rng.choice([x for x in gens if x != g]), "variant": rng.choice(["car", "kfilt"]), "stream": rng.choice(["ap", "lf"]),
                             "labels": rng.choice(LABEL_KINDS + LABEL_KINDS_MORE), "seed": rng.randint(0, 2 ** 31 - 1), "by_version": rng.random() < 0.3}, **kw)
            sc["prior"] = [other(own_objects=True, spatial=rng.choice(["default", "explicit", "average"])), dict(other(), gen=g),
                           dict(other(malformed=True), gen=g)]
        jobs.append(("pipeline", sc))
    # call trees: spelling of the group vector, more than three groups, groups of one / two rows, single precision, memory layouts,
    # the calls on each group alone before the call with groups, an earlier call with other settings
    more_groupings = groupings[:6] + [[0, 1, 2, 3, 4, 5], [3, 3, 1, 1, 0, 2], [4, 0, 4, 0, 2, 2], [0, 0, 0, 0, 0, 7]]
    nmt = 8 if ctx.quick else 80
    for fn in ("car", "kfilt", "fk"):
        for k in range(nmt):
            g = more_groupings[(k * 3 + len(fn)) % len(more_groupings)] if k % 8 else []
            o = tree_opts(rng, fn, g)
            if ctx.quick or k < 24:
                o.update(ids=TREE_IDS[k % 6] if g else "plain", layout=TREE_LAYOUTS[(k + len(fn)) % 4], dtype="f4" if k % 3 == 2 else "f8",
                         first=("groups", "alone")[k % 2], prior=bool((k // 2) % 2))
            jobs.append(("calltree", (fn, tree_settings(rng, fn), g, rng.randint(0, 2 ** 31 - 1), o)))
    # gain control: whitening other than the default, windows of 1 / 3 / 5 samples, offsets, zero stretches, layouts, a second pass
    nma = 16 if ctx.quick else 150
    for k in range(nma):
        nc, ns = rng.choice([1, 2, 3, 4, 32]), rng.choice([200, 777, 1500, 4096, 1001])
        wl, si = rng.choice([(0.5, 0.002), (300, 1.0), (0.01, 1 / 30000), (1, 1.0), (2, 1.0), (4, 1.0), (3000, 1.0), (0.026, 0.002)])
        while not _even_fft(ns, int(round(wl / si / 2) * 2 + 1)):
            ns += 37
        o = agc_opts(rng)
        if k < 12:
            o.update(layout=("C", "F", "view")[k % 3], eps=(None, 1e-3, 1e-12, 1e-5)[k % 4], twice=bool(k % 2), dc=bool((k // 2) % 2), gaps=bool((k // 3) % 2))
        jobs.append(("agc", (nc, ns, wl, si, rng.choice([0, 0, 1]) if nc > 1 else 0, rng.randint(0, 2 ** 31 - 1), k % 4 == 3, o)))
    # data flow: block label vectors from TLC (at least two blocks inside the brain, so that the filters have rows)
    flows = [c for c in cases["flow"] if len(c["exp"]["inside"]) >= 2]
    rng.shuffle(flows)
    nflow = 10 if ctx.quick else 90
    chosen = [c for c in flows if 3 in c["labels"]][:nflow]
    for c in chosen:
        out3 = [j for j in range(NB) if c["labels"][j] == 3]
        pert = rng.sample(out3, min(2, len(out3))) + [rng.choice([j for j in range(NB) if c["labels"][j] != 3])]
        bad = [j for j in range(NB) if c["labels"][j] in (1, 2) and j not in pert]
        if bad:
            pert.append(bad[len(jobs) % len(bad)])      # a dead / noisy block as well (perturbed with NaN / inf)
        # NP1 / NP2 only: a block of 64 channels spans 640 / 480 um there, so that "within kriging reach" (72 um) is
        # block adjacency as in the model; NPultra's 384 sites span 288 um in all
        jobs.append(("flow", {"gen": rng.choice(["NP1", "NP2"]), "variant": rng.choice(["kfilt", "car"]),
                              "labels6": c["labels"], "perturb": pert, "seed": rng.randint(0, 2 ** 31 - 1),
                              "lab_dtype": ("int", "float", "i1")[len(jobs) % 3]}))
    return jobs


def report(ctx, recs, verdicts):
    for v in verdicts:
        t = recs[v["index"]]
        if v["prop"]:
            ctx.violation(_key(v["prop"], t), f"property-layer clause {v['prop']} false: {_describe(t)}", _scenario_of(t))
        elif v["impl"]:
            ctx.spec_drift(f"{v['impl']}: {_describe(t)}")


def run(ctx):
    ctx.level = "model_checking"
    cases = run_model(ctx)
    _ADC.update(cases["adc"])
    jobs = plan(ctx, cases)
    with get_context("fork").Pool(4) as pool:
        recs = pool.map(_dispatch, jobs, chunksize=1)
    recs += adc_records()
    for t in recs:
        ctx.count(1, key=json.dumps(_scenario_of(t), sort_keys=True, default=str) if t["kind"] != "adc" else t["version"] + str(t["nc"]))
    verdicts = _validate(ctx, recs, "destripe")
    report(ctx, recs, verdicts)
    att = [t["att_db"] for t in recs if t["kind"] == "pipeline" and t["att_db"] is not None]
    kept = [t["kept_min"] for t in recs if t["kind"] == "pipeline" and t["kept_min"] is not None]
    ctx.cov["attenuation_db_worst"] = max(att) if att else None
    ctx.cov["spike_kept_min"] = min(kept) if kept else None
    for kind in ("calltree", "pipeline", "flow"):
        for t in [t for t in recs if t["kind"] == kind][:2]:
            ctx.sample({k: v for k, v in t.items() if k not in ("shift", "collection")})
    selftest(ctx, recs, {v["index"] for v in verdicts if v["prop"]})
    ctx.cov["rule"] = ("model: all label vectors over {0,1,2,3}^6, all groupings of 6 channels onto <= 3 groups (thorough: 7 onto <= 3, 6 onto <= 4) x settings sets, "
                       "the three wiring tables; experiments: (function, settings, grouping) call trees, (generation, variant, "
                       "stream, label class, seed) pipelines, (block label vector, perturbed block) data-flow probes, AGC lengths; "
                       "each also with other record lengths / element types / memory layouts / label and group-vector spellings / "
                       "k_kwargs (mean, groups) / earlier calls on the same header, labels and settings objects")
    ctx.cov["exhaustive"] = True
    ctx.cov["numeric_postconditions"] = ("Removed >= 40 dB, Kept >= 90 %, zero median/mean <= 1e-9 of scale, group == alone rtol 1e-7, "
                                         "AGC product 1e-6 relative: measured on the real output, not decided by TLC")
    ctx.assumptions += ["record sizes whose AGC convolution pads to an odd FFT size (3^k) are avoided: fourier.convolve on those "
                        "sizes belongs to C18", "the disturbance is the only signal in the Removed runs (no noise floor); spikes "
                        "sit on good channels away from dead / noisy ones", "block label vectors need >= 2 blocks inside the brain; data-flow probes on NP1 / NP2 geometry (blocks of 64 channels far longer than the kriging reach)",
                        "LFP stream: the delay table is applied in LFP samples, as destripe_lfp does",
                        "k-filter with channel groups through destripe(k_kwargs={'collection': ...}): the recursion of kfilt filters each "
                        "group without mirrored padding (ntr_pad=0 hard-wired), a spike on the first / last 8 rows of a group keeps only "
                        "40-50 % there on the unchanged code; those depths are left out of Kept in that mode (reported to the builder)"]


def selftest(ctx, recs, bad):
    keep = ctx.cov["traces_validated_against_impl"]
    mut, kinds = [], []

    def pick(pred, k=1):
        return [copy.deepcopy(t) for i, t in enumerate(recs) if i not in bad and pred(t)][:k]

    for t in pick(lambda t: t["kind"] == "calltree" and t["fn"] == "kfilt" and t["children"]):
        t["children"][-1]["settings"]["lagc"] += 7
        mut.append(t); kinds.append("child-lagc")
    for t in pick(lambda t: t["kind"] == "calltree" and t["fn"] == "car" and len(t["children"]) > 1):
        t["children"][0]["settings"]["operator"] = "median" if t["settings"]["operator"] == "average" else "average"
        mut.append(t); kinds.append("child-operator")
    for t in pick(lambda t: t["kind"] == "calltree" and len(t["children"]) > 1):
        t["children"][0]["rows"][0], t["children"][1]["rows"][0] = t["children"][1]["rows"][0], t["children"][0]["rows"][0]
        mut.append(t); kinds.append("rows")
    for t in pick(lambda t: t["kind"] == "calltree" and len(t["children"]) > 1):
        del t["children"][0]
        mut.append(t); kinds.append("child-dropped")
    for t in pick(lambda t: t["kind"] == "calltree" and t["zero"] == "ok"):
        t["zero"] = "bad"
        mut.append(t); kinds.append("zero")
    for t in pick(lambda t: t["kind"] == "pipeline" and t["shift"]):
        t["shift"] = [-s for s in t["shift"]]
        mut.append(t); kinds.append("shift-sign")
    for t in pick(lambda t: t["kind"] == "pipeline" and t["shift"]):
        t["shift"][5], t["shift"][40] = t["shift"][40] + 1, t["shift"][5]
        mut.append(t); kinds.append("shift-order")
    for t in pick(lambda t: t["kind"] == "pipeline" and len(t["events"]) >= 3 and not t["unbound"]):
        i = [e[0] for e in t["events"]].index("realign")
        t["events"].append(t["events"].pop(i))
        mut.append(t); kinds.append("realign-last")
    for t in pick(lambda t: t["kind"] == "pipeline" and t["removed"] == "ok"):
        t["removed"] = "bad"
        mut.append(t); kinds.append("removed")
    for t in pick(lambda t: t["kind"] == "pipeline" and t["zero"] == "ok"):
        t["zero"] = "bad"
        mut.append(t); kinds.append("pipe-zero")
    for t in pick(lambda t: t["kind"] == "flow" and any(t["labels"][e["j"]] == 3 for e in t["perturb"])):
        e = next(e for e in t["perturb"] if t["labels"][e["j"]] == 3)
        e["changed"] = sorted(set(e["changed"]) | {j for j in range(NB) if t["labels"][j] != 3})
        lab = t["labels"]
        if not any(lab[k] in (1, 2) and abs(k - e["j"]) == 1 for k in range(NB)):
            mut.append(t); kinds.append("leak")
    for t in pick(lambda t: t["kind"] == "agc" and t["product"] == "ok"):
        t["product"] = "bad"
        mut.append(t); kinds.append("agc")
    for t in pick(lambda t: t["kind"] == "adc" and t["nc"] == 384):
        t["shift"][100] += 1
        mut.append(t); kinds.append("adc")
    need = {"child-lagc", "child-operator", "rows", "shift-sign", "removed", "agc", "adc", "zero", "pipe-zero"}
    if any(t.get("unbound") for t in recs):
        need -= {"shift-sign"}            # no shift vector was observed on this code (drift reported by the trace specification)
    if not need <= set(kinds):
        if not ctx.violations:
            raise tlc.TLCError(f"selftest: could not build every kind of corrupted record (have {sorted(set(kinds))})")
        ctx.cov["selftest_note"] = f"only {sorted(set(kinds))}: too few accepted records on this (violating) tree"
    if mut:
        v = _validate(ctx, mut, "selftest", jvms=1)
        ctx.cov["traces_validated_against_impl"] = keep
        flagged = {x["index"] for x in v if x["prop"]}
        if len(flagged) != len(mut):
            raise tlc.TLCError(f"binding self-test: corrupted records not rejected: {[kinds[i] for i in range(len(mut)) if i not in flagged]}")
        ctx.cov["selftest_corrupted_records_rejected"] = len(flagged)


def replay(ctx, sc):
    cases = run_model(ctx)
    _ADC.update(cases["adc"])
    if sc["kind"] == "calltree":
        recs = [calltree_experiment(sc["fn"], sc["settings"], sc["grouping"], sc["seed"], sc.get("opts"))]
    elif sc["kind"] == "pipeline":
        recs = [pipeline_experiment(sc["scenario"])]
    elif sc["kind"] == "flow":
        recs = [flow_experiment(sc["scenario"])]
    elif sc["kind"] == "agc":
        recs = [agc_experiment(*sc["args"])]
    else:
        recs = adc_records()
    report(ctx, recs, _validate(ctx, recs, "replay", jvms=1))
