"""X04 - the quality side files of decompress_destripe_cbin: the saturation memmap every worker writes into, and the rms /
time rows (one per batch).

Not one of the listed properties (DESIGN.md section 6 / 9.5; C06 asks for the entry counts of these files only).
spec/sys/DestripeQC.tla EXTENDS the worker model of C06 (DestripeFile): every Write step also stores the flags of its
whole batch into the saturation file and the batch centre into its time row.  Property layer (ours, from the docstring
"a nsamples vector of booleans" / "timestamps"): the saturation file equals the flags of the whole recording, the time
rows increase and lie inside the rows their batch contributes.  Verdict roles as in X01-X03:
  * a recorded fact that is not what the implementation layer says                       -> VIOLATION (the code changed)
  * a clause false inside the deviation class the model predicts (Losable: the jump flag at the last sample of a
    worker's last batch is lost when that worker finishes after its neighbour)            -> OBSERVATION
  * a clause false anywhere else                                                          -> VIOLATION

1. TLC: every interleaving of the workers' writes for a box of (ns, NBATCH, nproc): SatSeam (Clause or Losable),
   SingleWorkerExact, SatWriters, Times, and the closed form of the deviation class (ClosedForm); vacuity: the deviation
   occurs (NoSeamLost violated).
2. spec -> code: TLC exports, for real-magnitude tuples, the batches of every worker and the losable seams; the real
   function runs on recordings with a jump planted at every seam sample (and at interior positions); what the files hold
   is compared with the export.
3. code -> spec: the hook events + file contents of every run validated by spec/trace/DestripeQCTrace.tla.
"""
import json
import os
import random
import shutil
import subprocess
import sys
from concurrent.futures import ThreadPoolExecutor
from pathlib import Path

from vkit import tlc, tracecheck

VERIF = Path(__file__).resolve().parents[1]
T = 1024
TRACE = ("trace/DestripeQCTrace.tla", "trace/DestripeQCTrace.cfg")


def run_real(ctx, sc, idx):
    d = Path(ctx.scratch) / f"x04run{idx}"
    (d / "tr").mkdir(parents=True, exist_ok=True)
    sc = dict(sc, dir=str(d))
    env = dict(os.environ)
    env.update({"IBL_NEUROPIXEL_VERIF": "1", "IBL_NEUROPIXEL_VERIF_TRACE": str(d / "tr"),
                "OMP_NUM_THREADS": "1", "OPENBLAS_NUM_THREADS": "1", "MKL_NUM_THREADS": "1",
                "PYTHONPATH": f"{os.environ.get('VERIF_REPO', '/repo')}/src:{VERIF}/harness:{VERIF}/vendor",
                "JOBLIB_TEMP_FOLDER": str(d)})
    try:
        p = subprocess.run([sys.executable, str(VERIF / "harness" / "x04_run.py"), json.dumps(sc)], env=env,
                           capture_output=True, text=True, timeout=1500)
    except subprocess.TimeoutExpired:
        shutil.rmtree(d, ignore_errors=True)
        raise tlc.TLCError(f"real run timed out: {sc}")
    shutil.rmtree(d, ignore_errors=True)
    line = [x for x in p.stdout.splitlines() if x.startswith("RESULT ")]
    if not line:
        raise tlc.TLCError(f"real run produced no result: {sc}\n{p.stdout[-1500:]}\n{p.stderr[-1500:]}")
    res = json.loads(line[-1][7:])
    if res["exc"]:
        raise tlc.TLCError(f"harness failure in x04_run: {res['exc']}")
    if not res["whole_ok"]:
        raise tlc.TLCError(f"x04_run: the planted jumps are not the flags of the whole recording ({sc})")
    return res


def to_traces(sc, res):
    """one trace record per run of the scenario"""
    out = []
    s = sc["nbatch"] - 2 * T
    prev_rows = 0
    t0 = 0
    for k, r in enumerate(res["runs"]):
        evs = sorted([e for e in r["events"] if e["ev"] == "WriteBatch"], key=lambda e: (e["worker"], e["seq"]))
        rows = r["times2"]
        mine = rows[prev_rows:]
        out.append({"ns": sc["ns"], "NB": sc["nbatch"], "np": sc["nproc"], "run": k, "exc": r["exc"],
                    "events": [[e["worker"], e["first_s"] // s if e["first_s"] % s == 0 else -1, e["first_s"], e["last_s"],
                                e["sat_range"][0], e["sat_range"][1],
                                e["rms_pos"] // (384 * 4) - 1 - prev_rows] for e in evs],
                    "kept": r["kept"], "otherbad": len(r["other_bad"]), "satlen": r["sat_len"],
                    "times2": mine, "t0": t0, "rmsrows": r["rms_rows"] - prev_rows})
        prev_rows = len(rows)
        t0 = rows[-1] if rows else 0
    return out


def nstates(t):
    return len(t["events"]) + 3


def run_model(ctx, cfg, out=None, expect_violation=None, workers=8):
    env = {"OUT_FILE": str(out if out else Path(ctx.scratch) / "unused.json")}
    r = tlc.run("mc/MC_DestripeQC.tla", cfg, workers=workers, timeout=3000, heap="8g", env=env)
    ctx.tlc(r, cfg)
    if expect_violation:
        if r.ok or r.invariant_violated != expect_violation:
            raise tlc.TLCError(f"vacuity: {cfg} should violate {expect_violation} (the deviation class must occur in the box)")
        return None
    if not r.ok:
        raise tlc.TLCError(f"DestripeQC model violates {r.invariant_violated} ({cfg}):\n{r.out[-2000:]}")
    return json.loads(Path(out).read_text()) if out else None


def choose(ctx, tuples):
    rnd = random.Random(ctx.seed)
    by = {}
    for t in tuples:
        cls = ("1w" if t["np"] == 1 else "lossy" if t["losable"] else "safe", min(t["lastb"], 4))
        by.setdefault(cls, []).append(t)
    scs = []
    for cls in sorted(by):
        ts = sorted(by[cls], key=lambda t: (t["ns"], t["nb"], t["np"]))
        rnd.shuffle(ts)
        for t in ts[:1 if ctx.quick else 4]:
            scs.append({"ns": t["ns"], "nbatch": t["nb"], "nproc": t["np"], "cls": f"{cls[0]}/{cls[1]}"})
    # a tuple where the deviation shows almost surely: two workers, the first one with three batches
    scs.append({"ns": 16000, "nbatch": 4096, "nproc": 2, "cls": "lossy/demo"})
    scs.append({"ns": 13000, "nbatch": 3072, "nproc": 1, "cls": "1w/append", "append": True})
    if not ctx.quick:
        scs.append({"ns": 12000, "nbatch": 5120, "nproc": 3, "cls": "append3", "append": True})
    for i, s in enumerate(scs):
        s.setdefault("append", False)
        s["seed"] = ctx.seed * 1000 + i
    return scs


def judge(ctx, scs, results, by):
    traces, owner = [], []
    for i, (sc, res) in enumerate(zip(scs, results)):
        for t in to_traces(sc, res):
            traces.append(t)
            owner.append(i)
    verdicts = tracecheck.validate(ctx, *TRACE, traces, label="qc", nstates=nstates, jvms=4, workers=2)
    for v in verdicts:
        sc, t = scs[owner[v["index"]]], traces[v["index"]]
        what = f"decompress_destripe_cbin(ns={sc['ns']}, nbatch={sc['nbatch']}, nprocesses={sc['nproc']}, run {t['run']})"
        if v["prop"]:
            ctx.violation("qc:" + v["prop"], f"{what}: clause {v['prop']} false on the quality files (kept={t['kept']}, "
                          f"other flags differing={t['otherbad']}, time rows={t['times2'][:4]}..)", {"scenario": sc})
        if v["impl"]:
            ctx.violation("qc:Step", f"{what}: {v['impl']} - not what spec/sys/DestripeQC.tla says this code does", {"scenario": sc})
    # spec -> code: the export's prediction against the files
    lost_seen = []
    for sc, res in zip(scs, results):
        e = by.get((sc["ns"], sc["nbatch"], sc["nproc"]))
        what = f"decompress_destripe_cbin(ns={sc['ns']}, nbatch={sc['nbatch']}, nprocesses={sc['nproc']})"
        for k, r in enumerate(res["runs"]):
            if r["exc"]:
                ctx.violation("qc:Raised", f"{what} raised {r['exc']}", {"scenario": sc})
                continue
            lost = [c for c, kp in enumerate(r["kept"]) if not kp]
            if e is not None:
                got = {}
                for ev in r["events"]:
                    if ev["ev"] == "WriteBatch":
                        got.setdefault(ev["worker"], []).append(ev["first_s"] // (sc["nbatch"] - 2 * T))
                want = {w: b for w, b in enumerate(e["workers"]) if b}
                if {w: sorted(b) for w, b in got.items()} != {w: sorted(b) for w, b in want.items()}:
                    ctx.violation("qc:Workers", f"{what}: workers processed batches {got}, the model says {want}", {"scenario": sc})
                if any(c not in e["losable"] for c in lost):
                    ctx.violation("qc:SatSeam", f"{what}: the jump flag at the end of batch(es) {lost} is missing from the saturation "
                                  f"file; the model allows this for {e['losable']} only", {"scenario": sc})
            if lost:
                lost_seen.append((sc, k, lost))
    return traces, lost_seen


def run(ctx):
    ctx.level = "model_checking"
    tier = "quick" if ctx.quick else "thorough"
    run_model(ctx, f"mc/DestripeQC_{tier}.cfg")
    if not ctx.quick:
        run_model(ctx, "mc/DestripeQC_wide.cfg", workers=16)
    run_model(ctx, "mc/DestripeQC_vac.cfg", expect_violation="NoSeamLost", workers=4)
    tuples = run_model(ctx, "mc/DestripeQC_export.cfg", Path(ctx.scratch) / "qc_tuples.json", workers=2)
    by = {(t["ns"], t["nb"], t["np"]): t for t in tuples}
    scs = choose(ctx, tuples)
    with ThreadPoolExecutor(max_workers=4) as ex:
        results = list(ex.map(lambda a: run_real(ctx, a[1], a[0]), enumerate(scs)))
    for sc in scs:
        ctx.count(1, key=(sc["ns"], sc["nbatch"], sc["nproc"], sc["append"]))
    traces, lost_seen = judge(ctx, scs, results, by)
    nlossy = sum(1 for t in tuples if t["np"] > 1 and t["losable"])
    ctx.cov["tuples_with_losable_seams"] = f"{nlossy} of {sum(1 for t in tuples if t['np'] > 1)} multi-worker tuples of the export"
    if lost_seen:
        sc, k, lost = lost_seen[0]
        ctx.observe(f"decompress_destripe_cbin with several workers: a voltage jump between the last sample of a worker's last batch "
                    f"and the next sample is missing from _iblqc_ephysSaturation.samples.npy when that worker finishes after its "
                    f"neighbour (each batch stores the flags of its whole range, the last sample of a batch never carries the jump "
                    f"criterion); seen in {len(lost_seen)} run(s), e.g. ns={sc['ns']} nbatch={sc['nbatch']} nprocesses={sc['nproc']}: "
                    f"seam(s) {lost} lost; one worker is exact (TLC: SingleWorkerExact); the model predicts the class for {nlossy} tuples")
    # append mode: the time rows of the appended run
    for sc, res in zip(scs, results):
        if sc["append"] and len(res["runs"]) == 2 and not res["runs"][1]["exc"]:
            r0, r1 = res["runs"]
            n0 = len(r0["times2"])
            t0 = r0["times2"][-1]
            second = r1["times2"][n0:]
            if second and second[0] - t0 != r0["times2"][0]:
                ctx.violation("qc:AppendTimes", f"append run: time rows {second[:3]} are not t0 + batch centres (t0 = {t0})", {"scenario": sc})
            elif second:
                ctx.observe(f"decompress_destripe_cbin(append=True): the time rows of the appended run start from the centre of the "
                            f"previous run's last batch (t0 = time_data[-1] = {t0 / 2:.1f} samples), not from the end of the previous "
                            f"recording ({sc['ns']} samples): the QC timestamps of appended recordings run {sc['ns'] - t0 / 2:.1f} samples "
                            f"early per appended run; the saturation file is rewritten and holds the last recording only "
                            f"({r1['sat_len']} entries for {2 * sc['ns']} output rows)")
    for sc, res in list(zip(scs, results))[:3]:
        ctx.sample({"scenario": {k: v for k, v in sc.items() if k != "dir"}, "kept": res["runs"][0]["kept"],
                    "times2": res["runs"][0]["times2"][:6], "seams": res.get("seams", [])[:6]})
    selftest(ctx, traces)
    ctx.cov["rule"] = ("model: every interleaving for every (ns, NBATCH, nproc) of the box; real runs: one per (worker class x number "
                       "of batches) of the export + a two-worker tuple where the deviation shows + an append pair")
    ctx.assumptions += ["pyfftw replaced by /verif/vendor/pyfftw", "jumps are planted one sample wide on all channels: the flags of the "
                        "whole recording are exactly the planted samples (checked in every run)",
                        "the order of the workers' writes is not observed; the files are judged against every order the model allows"]


def selftest(ctx, traces):
    good = [t for t in traces if len(t["events"]) >= 3 and not t["exc"]][:4]
    if len(good) < 2:
        raise tlc.TLCError("selftest: no multi-batch traces")
    mut = json.loads(json.dumps(good))
    mut[0]["events"][1][5] -= 1          # saturation range one sample short
    mut[1]["times2"][0] += 2             # a time row off by one sample
    if len(mut) > 2:
        mut[2]["otherbad"] = 1
    if len(mut) > 3 and mut[3]["kept"]:
        k = next((c for c in range(len(mut[3]["kept"]))), 0)
        mut[3]["kept"] = [False] * len(mut[3]["kept"])
        mut[3]["np"], mut[3]["events"] = mut[3]["np"], mut[3]["events"]
    keep = ctx.cov["traces_validated_against_impl"]
    v = tracecheck.validate(ctx, *TRACE, mut, label="selftest", nstates=nstates, jvms=1)
    ctx.cov["traces_validated_against_impl"] = keep
    flagged = {x["index"] for x in v if x["prop"] or x["impl"]}
    need = {0, 1} | ({2} if len(mut) > 2 else set())
    if not need <= flagged:
        raise tlc.TLCError(f"binding self-test: corrupted traces {sorted(need - flagged)} were not rejected")
    ctx.cov["selftest_corrupted_traces_rejected"] = len(flagged)


def replay(ctx, sc):
    scs = [sc.get("scenario", sc)]
    tuples = run_model(ctx, "mc/DestripeQC_export.cfg", Path(ctx.scratch) / "qc_tuples.json", workers=2)
    by = {(t["ns"], t["nb"], t["np"]): t for t in tuples}
    results = [run_real(ctx, s, i) for i, s in enumerate(scs)]
    judge(ctx, scs, results, by)
